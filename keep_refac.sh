#!/bin/sh
# usage: keep_refac.sh <worktree> <name>  - copies REFAC/patch.diff + README.md of a finished refactoring worktree into /verif/refactorings/<name>,
# re-verifies build there, then removes the worktree
wt="$1"; name="$2"
. /verif/env.sh
[ -f "$wt/REFAC/patch.diff" ] || { echo "no patch in $wt"; exit 1; }
mkdir -p /verif/refactorings/$name
cp "$wt/REFAC/patch.diff" "$wt/REFAC/README.md" /verif/refactorings/$name/ 2>/dev/null
# the patch must apply to /repo HEAD
tmp=/tmp/rg/chk-$name; rm -rf $tmp; git -C /repo worktree add --detach $tmp HEAD >/dev/null 2>&1
if git -C $tmp apply /verif/refactorings/$name/patch.diff && (cd $tmp && go build ./... && go vet ./pkg/... >/dev/null 2>&1); then echo "$name: applies, builds, vets"; else echo "$name: PATCH PROBLEM"; fi
git -C /repo worktree remove --force $tmp
git -C /repo worktree remove --force "$wt"
