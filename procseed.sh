#!/bin/sh
# usage: procseed.sh <name> <prop> <pkg> <run>  - confirm the seed in its worktree, then run all quick checks on it
n=$1; /verif/confirm_seed.sh /tmp/seed/wt-$n $n $2 $3 $4 && /verif/trypatch.sh /tmp/seed/wt-$n/SEED/patch.diff $n
