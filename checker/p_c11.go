package main

import "strings"

// C11 — authorization response parameters arrive intact and cannot inject markup (DESIGN §5 C11).

func init() {
	obs := []Ob{
		{ID: "E8.enc.fragment-raw", Fn: "op.setFragment", P: []string{"uri", "params"}, Kind: "store", Pat: "store($uri.RawFragment, $enc)", Max: 1,
			Req: []string{"same($enc, $params.Encode()) || def($enc, $params.Encode())"}},
		{ID: "E8.enc.fragment-consistent", Fn: "op.setFragment", P: []string{"uri", "params"}, Kind: "store", Pat: "store($uri.Fragment, res(0, url.PathUnescape($v)))", Max: 1,
			Why: "URL.String() emits RawFragment only while it is a valid encoding of Fragment under path-unescaping; any other decoder makes it re-escape the decoded value",
			Req: []string{"same($v, $uri.RawFragment) || eq($uri.RawFragment, $v)"}},
		{ID: "E8.enc.fragment-single-writer", Fn: "op.setFragment", P: []string{"uri", "params"}, Kind: "store", Pat: "store($uri.Fragment, _)", Max: 1},
		{ID: "E8.enc.fragment-returns-uri", Fn: "op.setFragment", P: []string{"uri", "params"}, Kind: "ret any", Pat: "ret($uri.String())", Max: 1, Only: true},
		{ID: "E8.merge.keeps-existing", Fn: "op.mergeQueryParams", P: []string{"uri", "params"}, Kind: "store", Pat: "store($uri.RawQuery, $q.Encode())", Max: 1,
			Why: "query parameters already present in the registered redirect URI are preserved",
			Req: []string{"def($q, $uri.Query())"}},
		{ID: "E8.merge.adds.add", AltOf: "E8.merge.adds", Fn: "op.mergeQueryParams", P: []string{"uri", "params"}, Kind: "call", Pat: "$q.Add($param, $value)", Max: 1,
			Why: "every value of every response parameter is appended to (never replaces) the query of the registered URI",
			Req: []string{"def($q, $uri.Query())", "inloop($value, $values)", "inloop($values, $params)"}},
		{ID: "E8.merge.adds.append", AltOf: "E8.merge.adds", Fn: "op.mergeQueryParams", P: []string{"uri", "params"}, Kind: "store", Pat: "store($q[$name], append($q[$name], $values))", Max: 1,
			Req: []string{"def($q, $uri.Query())", "inloop($values, $params)"}},
		{ID: "E8.merge.no-set", Fn: "op.mergeQueryParams", Kind: "call", Pat: "_.Set(__)", Forbid: true, Why: "Set would replace a parameter of the registered URI"},
		{ID: "E8.merge.returns-uri", Fn: "op.mergeQueryParams", P: []string{"uri", "params"}, Kind: "ret any", Pat: "ret($uri.String())", Max: 1, Only: true},
		// response mode selection
		{ID: "E1.mode.query", Fn: "op.AuthResponseURL", P: []string{"redirectURI", "responseType", "responseMode", "response", "encoder"}, Kind: "ret ok", Pat: "ret(op.mergeQueryParams($uri, $params), nil)",
			Req: []string{"def($uri, url.Parse($redirectURI), 0)", "ok(url.Parse($redirectURI))", "def($params, httphelper.URLEncodeParams($response, $encoder), 0)", "ok(httphelper.URLEncodeParams($response, $encoder))",
				"eq($responseMode, oidc.ResponseModeQuery) || (neq($responseMode, oidc.ResponseModeFragment) && neq($responseType, oidc.ResponseTypeIDToken) && neq($responseType, oidc.ResponseTypeIDTokenOnly))"}},
		{ID: "E1.mode.fragment", Fn: "op.AuthResponseURL", P: []string{"redirectURI", "responseType", "responseMode", "response", "encoder"}, Kind: "ret ok", Pat: "ret(op.setFragment($uri, $params), nil)",
			Req: []string{"def($uri, url.Parse($redirectURI), 0)", "def($params, httphelper.URLEncodeParams($response, $encoder), 0)", "ok(httphelper.URLEncodeParams($response, $encoder))",
				"neq($responseMode, oidc.ResponseModeQuery)",
				"eq($responseMode, oidc.ResponseModeFragment) || eq($responseType, oidc.ResponseTypeIDToken) || eq($responseType, oidc.ResponseTypeIDTokenOnly)"}},
		{ID: "E1.mode.only", Fn: "op.AuthResponseURL", Kind: "ret ok", Nots: []string{"ret(op.mergeQueryParams(__), nil)", "ret(op.setFragment(__), nil)"}, Forbid: true,
			Why: "a response URL is produced by one of the two mode writers only"},
		// form post
		{ID: "E8.form.values", Fn: "op.AuthResponseFormPost", P: []string{"res", "redirectURI", "response", "encoder"}, Kind: "call", Pat: "op.formPostTmpl.Execute($w, &_{RedirectURI: $redirectURI, Params: $values})", Max: 1,
			Req: []string{"(ok($encoder.Encode($response, $values)) && def($values, make(__))) || (def($values, httphelper.URLEncodeParams($response, $encoder), 0) && ok(httphelper.URLEncodeParams($response, $encoder)))"}},
		{ID: "E8.form.written-after-render", Fn: "op.AuthResponseFormPost", P: []string{"res", "redirectURI", "response", "encoder"}, Kind: "call", Pat: "$buf.WriteTo($res)", Max: 1,
			Req: []string{"ok(op.formPostTmpl.Execute(&$buf, _)) || ok(op.formPostTmpl.Execute($buf, _)) || (didOk(Execute) && called(op.formPostTmpl.Execute(__)))"}},
		{ID: "E8.form.code-response", Fn: "op.AuthResponseCode", Kind: "call", Pat: "op.AuthResponseFormPost(_, $authReq.GetRedirectURI(), &$resp, _)", Max: 1,
			Req: []string{"eq($authReq.GetResponseMode(), oidc.ResponseModeFormPost)", "def($resp, _{Code: $code, State: $authReq.GetState(), SessionState: $ss})", "def($code, op.CreateAuthRequestCode(__), 0)"}},
		{ID: "E8.encoder.provider", Fn: "op.NewProvider", Kind: "store", Pat: "store($o.encoder, oidc.NewEncoder())", Max: 1},
		{ID: "E8.encoder.space-delimited", Fn: "oidc.NewEncoder", Kind: "call", Pat: "$e.RegisterEncoder(SpaceDelimitedArray{}, _)", Max: 1},
		{ID: "E8.urlencode.uses-encoder", Fn: "http.URLEncodeParams", P: []string{"resp", "encoder"}, Kind: "ret ok", Pat: "ret($values, nil)", Max: 1,
			Req: []string{"ok($encoder.Encode($resp, $values))"}},
	}
	for _, o := range obs {
		if strings.HasPrefix(o.ID, "E8.merge.") {
			sharedObs["C18"] = append(sharedObs["C18"], o) // "a supplied state is appended to the final redirect unchanged": the logout redirect is built by the same merge
		}
	}
	register(&PropSpec{
		ID: "C11",
		Explanation: "Decides structurally: (E8.enc) no string produced by url.Values.Encode / url.QueryEscape is stored into URL.Fragment / Path / Opaque or passed to Values.Set/Add anywhere in pkg/op, pkg/client, pkg/http (they would be encoded twice); setFragment stores params.Encode() into RawFragment; mergeQueryParams starts from uri.Query(), only Adds, and writes RawQuery; AuthResponseURL selects query vs fragment by response_mode / response_type exactly as specified and encodes the response with the configured encoder, which is oidc.NewEncoder() with the SpaceDelimitedArray encoder; (E7) the form_post page is rendered by html/template, every template action sits inside a double-quoted attribute value, each parameter slot posts under its own name, the seven standard parameters have slots and every slot is a schema field of a rendered response; the page is written only after rendering succeeded. Known finding: the action URL slot is subject to html/template's scheme filter. Does not decide byte-exact round trips through url.Values.Encode and a user agent (stdlib behaviour). Round 3: the request decoder and response encoder are plain (no converters / extra encoders); no middleware installed by the library rewrites the request URL, query or form; AuthRequest getters return the parsed parameter itself.",
		RuleText:    "obligation = (rule, function or template, construct); non-trivial when an encoded value, guard fact or table row is involved",
		Assumptions: []string{"url.Values.Encode / URL.String / html/template escape correctly", "user agents decode fragments and submit forms per HTML"},
		Trusted:     []string{"go/types, go/cfg (x/tools v0.50.0)", "net/url", "html/template", "text/template/parse", "zitadel/schema encoder"},
		Level:       "Sound static check of the structural necessary conditions: no double encoding, existing query kept, correct response-mode selection, html/template with quoted slots and slot/field agreement. Value-level round trips are stdlib behaviour and not decided.",
		Note:        "Trusted: go/types+go/cfg, net/url, html/template. One known finding (URL-context slot vs custom schemes) is listed in known_findings.json.",
		Technique:   "static analysis: encoding-level value-flow rule over typed terms, template parse + HTML attribute tokenizer, must-facts dataflow for mode selection, struct-tag / template-slot agreement in both directions",
		Rules:       []string{"E1", "E8.enc", "E8.fmt"},
		Run: func(c *Ctx) {
			RunE1(c, "C11", obs)
			RunEncodingLevels(c, []string{"op", "client", "client/rp", "client/rs", "http", "oidc"})
			RunFormPostTemplate(c)
			// nothing between the socket and the request parser rewrites the query / form the parameters are read from
			RunRouterMiddleware(c, "E7.router.middleware", []string{"op"})
			// request parameters reach the response exactly as sent: the request decoder and the response encoder are plain
			// (no converters, no zero-empty, no alias tag); the one registered encoder is the space-delimited list
			RunExternalMethodAllow(c, "E7.codec.decoder-plain", "zitadel/schema", "Decoder", map[string][]string{"IgnoreUnknownKeys": nil, "Decode": nil},
				"a converter or another decoding mode rewrites parameter values (state, nonce, redirect_uri ...) before they are stored and echoed")
			RunExternalMethodAllow(c, "E7.codec.encoder-plain", "zitadel/schema", "Encoder", map[string][]string{"Encode": nil, "RegisterEncoder": {"oidc.NewEncoder"}},
				"a further encoder registration rewrites response / request parameter values on their way out")
			RunFormatStrings(c, []string{"op", "oidc", "client", "client/rp", "client/rs", "http", "crypto"})
		},
	})
}
