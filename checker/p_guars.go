package main

// Guarantees shared by several properties (assumed at call sites, verified under the owning property).

func init() {
	// C14: private_key_jwt client authentication
	guarP("C14", "op.AuthorizePrivateJWTKey", []string{"ctx", "clientAssertion", "exchanger"},
		[]string{"jwtClient($r0, $clientAssertion)"},
		[]string{
			"def($jwtReq, op.VerifyJWTAssertion(_, $clientAssertion, _), 0)", "ok(op.VerifyJWTAssertion(_, $clientAssertion, _))",
			"def($r0, _.GetClientByClientID(_, $jwtReq.Issuer), 0)", "ok(_.GetClientByClientID(_, $jwtReq.Issuer))",
			"eq($r0.AuthMethod(), oidc.AuthMethodPrivateKeyJWT)",
		})
	// "the caller is authenticated as the very client ..." (C04, C07), "act for a client only after it has authenticated" (C05):
	// the private_key_jwt proof is part of their verdicts too
	guarAlso["op.AuthorizePrivateJWTKey"] = append(guarAlso["op.AuthorizePrivateJWTKey"], "C04", "C05", "C07")
}
