package main

// Small structural rules shared by several properties: who-may-call tables, interface implementer tables.

import (
	"fmt"
	"go/ast"
	"go/types"
	"sort"
	"strings"

	"golang.org/x/tools/go/types/typeutil"
)

// RunCallers: every in-scope reference (call or value use) to the function `callee` must sit in one of
// the functions listed in `allowed` (closures count as their enclosing declaration).
func RunCallers(c *Ctx, rule, callee string, allowed []string, why string) {
	target := c.P.Fn(callee)
	if target == nil || target.Obj == nil {
		c.R.Fail("anchor-unresolved", callee, rule, "function "+callee+" named by rule "+rule+" not found")
		return
	}
	ok := map[string]bool{}
	for _, a := range allowed {
		ok[a] = true
		if c.P.Fn(a) == nil {
			c.R.Fail("anchor-unresolved", a, rule, "caller "+a+" listed for "+callee+" not found: re-point the table")
		}
	}
	seen := map[string]int{}
	for _, fi := range c.P.Funcs {
		if fi.Body == nil || fi.Parent != nil {
			continue
		}
		info := fi.Pkg.TypesInfo
		ast.Inspect(fi.Body, func(n ast.Node) bool {
			id, isID := n.(*ast.Ident)
			if !isID {
				return true
			}
			fn, _ := info.Uses[id].(*types.Func)
			if fn == nil || fn.Origin() != target.Obj {
				return true
			}
			seen[fi.Name]++
			name := fi.Name
			if fi.Ctl {
				return true
			}
			good := ok[name]
			c.R.Obl(Obligation{Rule: rule, Func: name, Construct: "reference to " + callee, Pos: c.P.Position(id.Pos()), Discharged: good, Nontrivial: true,
				How: []string{"who-may-call table: " + strings.Join(allowed, ", ")}})
			if !good {
				c.R.Find(Finding{Rule: rule, Func: name, Construct: "unaccounted reference to " + callee, Pos: c.P.Position(id.Pos()),
					Msg: fmt.Sprintf("%s is referenced from %s, which is not in the reviewed caller table of rule %s (%s)", callee, name, rule, why)})
			}
			return true
		})
	}
	for _, a := range allowed {
		if seen[a] == 0 {
			c.R.Find(Finding{Rule: "vacuity", Func: a, Construct: rule + " caller of " + callee, Pos: "-",
				Msg: fmt.Sprintf("rule %s lists %s as a caller of %s but it no longer references it: re-point the table", rule, a, callee)})
		}
	}
}

// RunImplementers: the set of in-scope named types implementing interface `iface` (package short name + type name)
// must equal `expected`.
func RunImplementers(c *Ctx, rule, ifacePkg, ifaceName string, expected []string, why string) {
	var iface *types.Interface
	for _, pk := range c.P.Scope {
		if shortPkg(pk.PkgPath) == ifacePkg {
			if o := pk.Types.Scope().Lookup(ifaceName); o != nil {
				iface, _ = o.Type().Underlying().(*types.Interface)
			}
		}
	}
	if iface == nil {
		c.R.Fail("anchor-unresolved", ifacePkg+"."+ifaceName, rule, "interface not found")
		return
	}
	want := map[string]bool{}
	for _, e := range expected {
		want[e] = true
	}
	var got []string
	for _, pk := range c.P.Scope {
		if pk.PkgPath == ctlPkgPath {
			continue
		}
		sc := pk.Types.Scope()
		for _, n := range sc.Names() {
			tn, ok := sc.Lookup(n).(*types.TypeName)
			if !ok || tn.IsAlias() {
				continue
			}
			if _, isIface := tn.Type().Underlying().(*types.Interface); isIface {
				continue
			}
			if types.Implements(tn.Type(), iface) || types.Implements(types.NewPointer(tn.Type()), iface) {
				got = append(got, shortPkg(pk.PkgPath)+"."+n)
			}
		}
	}
	sort.Strings(got)
	for _, g := range got {
		c.R.Obl(Obligation{Rule: rule, Func: g, Construct: "implements " + ifacePkg + "." + ifaceName, Pos: "-", Discharged: want[g], Nontrivial: true, How: []string{"implementer table: " + strings.Join(expected, ", ")}})
		if !want[g] {
			c.R.Find(Finding{Rule: rule, Func: g, Construct: "unaccounted implementer of " + ifacePkg + "." + ifaceName, Pos: "-",
				Msg: fmt.Sprintf("%s implements %s.%s but is not in the reviewed table of rule %s (%s)", g, ifacePkg, ifaceName, rule, why)})
		}
		delete(want, g)
	}
	for w := range want {
		c.R.Find(Finding{Rule: "vacuity", Func: w, Construct: rule, Pos: "-", Msg: fmt.Sprintf("rule %s expects %s to implement %s.%s", rule, w, ifacePkg, ifaceName)})
	}
}

var _ = typeutil.Callee

// RunMethodValueUses: every use of method `recvType.m` (m in methods) must be a method value passed directly as an
// argument to a call of method `wrapper` on the same receiver type.
func RunMethodValueUses(c *Ctx, rule, pkg, recvType string, methods []string, wrapper, why string) {
	want := map[string]bool{}
	for _, m := range methods {
		want[m] = true
		if c.P.Fn(pkg+".(*"+recvType+")."+m) == nil {
			c.R.Fail("anchor-unresolved", pkg+".(*"+recvType+")."+m, rule, "method not found: re-point the table")
		}
	}
	count := map[string]int{}
	for _, fi := range c.P.Funcs {
		if fi.Body == nil || fi.Parent != nil || fi.Ctl || shortPkg(fi.Pkg.PkgPath) != pkg {
			continue
		}
		info := fi.Pkg.TypesInfo
		okUse := map[*ast.SelectorExpr]bool{}
		ast.Inspect(fi.Body, func(n ast.Node) bool {
			call, ok := n.(*ast.CallExpr)
			if !ok {
				return true
			}
			if fn, _ := typeutil.Callee(info, call).(*types.Func); fn != nil && fn.Name() == wrapper {
				if sig := fn.Type().(*types.Signature); sig.Recv() != nil && recvString(sig.Recv().Type()) == "*"+recvType {
					for _, a := range call.Args {
						if sel, ok := unparen(a).(*ast.SelectorExpr); ok {
							okUse[sel] = true
						}
					}
				}
			}
			return true
		})
		ast.Inspect(fi.Body, func(n ast.Node) bool {
			sel, ok := n.(*ast.SelectorExpr)
			if !ok {
				return true
			}
			fn, _ := info.Uses[sel.Sel].(*types.Func)
			if fn == nil || !want[fn.Name()] {
				return true
			}
			sig := fn.Type().(*types.Signature)
			if sig.Recv() == nil || recvString(sig.Recv().Type()) != "*"+recvType {
				return true
			}
			count[fn.Name()]++
			good := okUse[sel]
			c.R.Obl(Obligation{Rule: rule, Func: fi.Name, Construct: "use of " + recvType + "." + fn.Name(), Pos: c.P.Position(sel.Pos()), Discharged: good, Nontrivial: true, How: []string{"must be the direct argument of " + wrapper + "(...)"}})
			if !good {
				c.R.Find(Finding{Rule: rule, Func: fi.Name, Construct: "use of " + recvType + "." + fn.Name() + " outside " + wrapper, Pos: c.P.Position(sel.Pos()),
					Msg: fmt.Sprintf("%s.%s is used in %s other than as the argument of %s(...) (%s)", recvType, fn.Name(), fi.Name, wrapper, why)})
			}
			return true
		})
	}
	for _, m := range methods {
		if count[m] == 0 {
			c.R.Find(Finding{Rule: "vacuity", Func: pkg + ".(*" + recvType + ")." + m, Construct: rule, Pos: "-", Msg: "handler " + m + " is never used: re-point the table of rule " + rule})
		}
	}
}
