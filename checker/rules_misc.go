package main

// Small structural rules shared by several properties: who-may-call tables, interface implementer tables.

import (
	"fmt"
	"go/ast"
	"go/types"
	"sort"
	"strings"

	"golang.org/x/tools/go/types/typeutil"
)

// ---------------------------------------------------------------------------------------------------------
// Helpers introduced after the validated baseline (see e1_inline.go) are transparent to the table rules: a reference
// that sits in such a helper is attributed to the functions that call the helper (transitively), provided the helper
// is only ever called directly (its address is not taken).  E1 interprets the same helpers in place, so the obligations
// of the attributed callers see the helper's sinks in their calling context.

type helperInfo struct {
	callers map[string]bool // root function names with a direct call
	escapes bool            // referenced other than as the callee of a direct call
}

func (c *Ctx) helpers() map[*types.Func]*helperInfo {
	if c.helperTab != nil {
		return c.helperTab
	}
	tab := map[*types.Func]*helperInfo{}
	for _, fi := range c.P.Funcs {
		if fi.Decl == nil || fi.Obj == nil || fi.Ctl || baselineFuncs[fi.Name] {
			continue
		}
		tab[fi.Obj] = &helperInfo{callers: map[string]bool{}}
	}
	if len(tab) > 0 {
		for _, fi := range c.P.Funcs {
			if fi.Body == nil || fi.Parent != nil || fi.Ctl {
				continue
			}
			info := fi.Pkg.TypesInfo
			callees := map[*ast.Ident]bool{}
			ast.Inspect(fi.Body, func(n ast.Node) bool {
				if call, ok := n.(*ast.CallExpr); ok {
					switch f := unparen(call.Fun).(type) {
					case *ast.Ident:
						callees[f] = true
					case *ast.SelectorExpr:
						callees[f.Sel] = true
					case *ast.IndexExpr:
						switch g := unparen(f.X).(type) {
						case *ast.Ident:
							callees[g] = true
						case *ast.SelectorExpr:
							callees[g.Sel] = true
						}
					}
				}
				return true
			})
			ast.Inspect(fi.Body, func(n ast.Node) bool {
				id, ok := n.(*ast.Ident)
				if !ok {
					return true
				}
				fn, _ := info.Uses[id].(*types.Func)
				if fn == nil {
					return true
				}
				h := tab[fn.Origin()]
				if h == nil {
					return true
				}
				// a helper handed on as a function value is like a closure of the function that hands it on
				h.callers[fi.Name] = true
				if !callees[id] {
					h.escapes = true
				}
				return true
			})
		}
	}
	c.helperTab = tab
	// single call site of a post-baseline helper (for name-insensitive keys of reviewed exception tables)
	canonSingleCaller = func(h *FuncInfo) (*FuncInfo, *ast.CallExpr) {
		if h == nil || h.Obj == nil {
			return nil, nil
		}
		hi := tab[h.Obj]
		if hi == nil || hi.escapes || len(hi.callers) != 1 {
			return nil, nil
		}
		var caller *FuncInfo
		for name := range hi.callers {
			caller = c.P.Fn(name)
		}
		if caller == nil || caller.Body == nil {
			return nil, nil
		}
		info := caller.Pkg.TypesInfo
		var site *ast.CallExpr
		n := 0
		ast.Inspect(caller.Body, func(nd ast.Node) bool {
			if call, ok := nd.(*ast.CallExpr); ok {
				if fn, _ := typeutil.Callee(info, call).(*types.Func); fn != nil && fn.Origin() == h.Obj {
					site = call
					n++
				}
			}
			return true
		})
		if n != 1 {
			return nil, nil
		}
		return caller, site
	}
	return tab
}

// attributed: the reviewed-table names a reference inside function fi counts for.
func (c *Ctx) attributed(fi *FuncInfo) []string {
	root := fi.Root()
	seen := map[string]bool{}
	var out []string
	var rec func(f *FuncInfo, depth int)
	rec = func(f *FuncInfo, depth int) {
		if seen[f.Name] {
			return
		}
		seen[f.Name] = true
		h := c.helpers()[f.Obj]
		if f.Obj == nil || h == nil || len(h.callers) == 0 || depth > 4 {
			out = append(out, f.Name)
			return
		}
		for name := range h.callers {
			if g := c.P.Fn(name); g != nil {
				rec(g, depth+1)
			} else {
				out = append(out, name)
			}
		}
	}
	rec(root, 0)
	sort.Strings(out)
	return out
}

// RunCallers: every in-scope reference (call or value use) to the function `callee` must sit in one of
// the functions listed in `allowed` (closures count as their enclosing declaration).
func RunCallers(c *Ctx, rule, callee string, allowed []string, why string) {
	target := c.P.Fn(callee)
	if target == nil || target.Obj == nil {
		c.R.Fail("anchor-unresolved", callee, rule, "function "+callee+" named by rule "+rule+" not found")
		return
	}
	ok := map[string]bool{}
	for _, a := range allowed {
		ok[a] = true
		if c.P.Fn(a) == nil {
			c.R.Fail("anchor-unresolved", a, rule, "caller "+a+" listed for "+callee+" not found: re-point the table")
		}
	}
	seen := map[string]int{}
	for _, fi := range c.P.Funcs {
		if fi.Body == nil || fi.Parent != nil {
			continue
		}
		info := fi.Pkg.TypesInfo
		ast.Inspect(fi.Body, func(n ast.Node) bool {
			id, isID := n.(*ast.Ident)
			if !isID {
				return true
			}
			fn, _ := info.Uses[id].(*types.Func)
			if fn == nil || fn.Origin() != target.Obj {
				return true
			}
			if fi.Ctl {
				seen[fi.Name]++
				return true
			}
			for _, name := range c.attributed(fi) {
				seen[name]++
				good := ok[name]
				how := []string{"who-may-call table: " + strings.Join(allowed, ", ")}
				if name != fi.Name {
					how = append(how, "reference sits in helper "+fi.Name+", attributed to its caller")
				}
				c.R.Obl(Obligation{Rule: rule, Func: name, Construct: "reference to " + callee, Pos: c.P.Position(id.Pos()), Discharged: good, Nontrivial: true, How: how})
				if !good {
					c.R.Find(Finding{Rule: rule, Func: name, Construct: "unaccounted reference to " + callee, Pos: c.P.Position(id.Pos()),
						Msg: fmt.Sprintf("%s is referenced from %s, which is not in the reviewed caller table of rule %s (%s)", callee, name, rule, why)})
				}
			}
			return true
		})
	}
	for _, a := range allowed {
		if seen[a] == 0 {
			c.R.Find(Finding{Rule: "vacuity", Func: a, Construct: rule + " caller of " + callee, Pos: "-",
				Msg: fmt.Sprintf("rule %s lists %s as a caller of %s but it no longer references it: re-point the table", rule, a, callee)})
		}
	}
}

// RunImplementers: the set of in-scope named types implementing interface `iface` (package short name + type name)
// must equal `expected`.
func RunImplementers(c *Ctx, rule, ifacePkg, ifaceName string, expected []string, why string) {
	var iface *types.Interface
	for _, pk := range c.P.Scope {
		if shortPkg(pk.PkgPath) == ifacePkg {
			if o := pk.Types.Scope().Lookup(ifaceName); o != nil {
				iface, _ = o.Type().Underlying().(*types.Interface)
			}
		}
	}
	if iface == nil {
		c.R.Fail("anchor-unresolved", ifacePkg+"."+ifaceName, rule, "interface not found")
		return
	}
	want := map[string]bool{}
	for _, e := range expected {
		want[e] = true
	}
	var got []string
	for _, pk := range c.P.Scope {
		if pk.PkgPath == ctlPkgPath {
			continue
		}
		sc := pk.Types.Scope()
		for _, n := range sc.Names() {
			tn, ok := sc.Lookup(n).(*types.TypeName)
			if !ok || tn.IsAlias() {
				continue
			}
			if _, isIface := tn.Type().Underlying().(*types.Interface); isIface {
				continue
			}
			if types.Implements(tn.Type(), iface) || types.Implements(types.NewPointer(tn.Type()), iface) {
				got = append(got, shortPkg(pk.PkgPath)+"."+n)
			}
		}
	}
	sort.Strings(got)
	for _, g := range got {
		c.R.Obl(Obligation{Rule: rule, Func: g, Construct: "implements " + ifacePkg + "." + ifaceName, Pos: "-", Discharged: want[g], Nontrivial: true, How: []string{"implementer table: " + strings.Join(expected, ", ")}})
		if !want[g] {
			c.R.Find(Finding{Rule: rule, Func: g, Construct: "unaccounted implementer of " + ifacePkg + "." + ifaceName, Pos: "-",
				Msg: fmt.Sprintf("%s implements %s.%s but is not in the reviewed table of rule %s (%s)", g, ifacePkg, ifaceName, rule, why)})
		}
		delete(want, g)
	}
	for w := range want {
		c.R.Find(Finding{Rule: "vacuity", Func: w, Construct: rule, Pos: "-", Msg: fmt.Sprintf("rule %s expects %s to implement %s.%s", rule, w, ifacePkg, ifaceName)})
	}
}

var _ = typeutil.Callee

// RunMethodValueUses: every use of method `recvType.m` (m in methods) must be a method value passed directly as an
// argument to a call of method `wrapper` on the same receiver type.
func RunMethodValueUses(c *Ctx, rule, pkg, recvType string, methods []string, wrapper, why string) {
	want := map[string]bool{}
	for _, m := range methods {
		want[m] = true
		if c.P.Fn(pkg+".(*"+recvType+")."+m) == nil {
			c.R.Fail("anchor-unresolved", pkg+".(*"+recvType+")."+m, rule, "method not found: re-point the table")
		}
	}
	count := map[string]int{}
	for _, fi := range c.P.Funcs {
		if fi.Body == nil || fi.Parent != nil || fi.Ctl || shortPkg(fi.Pkg.PkgPath) != pkg {
			continue
		}
		info := fi.Pkg.TypesInfo
		okUse := map[*ast.SelectorExpr]bool{}
		ast.Inspect(fi.Body, func(n ast.Node) bool {
			call, ok := n.(*ast.CallExpr)
			if !ok {
				return true
			}
			if fn, _ := typeutil.Callee(info, call).(*types.Func); fn != nil && fn.Name() == wrapper {
				if sig := fn.Type().(*types.Signature); sig.Recv() != nil && recvString(sig.Recv().Type()) == "*"+recvType {
					for _, a := range call.Args {
						if sel, ok := unparen(a).(*ast.SelectorExpr); ok {
							okUse[sel] = true
						}
					}
				}
			}
			return true
		})
		ast.Inspect(fi.Body, func(n ast.Node) bool {
			sel, ok := n.(*ast.SelectorExpr)
			if !ok {
				return true
			}
			fn, _ := info.Uses[sel.Sel].(*types.Func)
			if fn == nil || !want[fn.Name()] {
				return true
			}
			sig := fn.Type().(*types.Signature)
			if sig.Recv() == nil || recvString(sig.Recv().Type()) != "*"+recvType {
				return true
			}
			count[fn.Name()]++
			good := okUse[sel]
			c.R.Obl(Obligation{Rule: rule, Func: fi.Name, Construct: "use of " + recvType + "." + fn.Name(), Pos: c.P.Position(sel.Pos()), Discharged: good, Nontrivial: true, How: []string{"must be the direct argument of " + wrapper + "(...)"}})
			if !good {
				c.R.Find(Finding{Rule: rule, Func: fi.Name, Construct: "use of " + recvType + "." + fn.Name() + " outside " + wrapper, Pos: c.P.Position(sel.Pos()),
					Msg: fmt.Sprintf("%s.%s is used in %s other than as the argument of %s(...) (%s)", recvType, fn.Name(), fi.Name, wrapper, why)})
			}
			return true
		})
	}
	for _, m := range methods {
		if count[m] == 0 {
			c.R.Find(Finding{Rule: "vacuity", Func: pkg + ".(*" + recvType + ")." + m, Construct: rule, Pos: "-", Msg: "handler " + m + " is never used: re-point the table of rule " + rule})
		}
	}
}

// RunFieldWriters: assignments to field `field` of named type pkg.typ (through any access path) may appear only in `allowed`.
// Decoders (UnmarshalJSON of the type itself) are exempt.
func RunFieldWriters(c *Ctx, rule, pkg, typ, field string, allowed []string, why string) {
	ok := map[string]bool{}
	for _, a := range allowed {
		ok[a] = true
		if c.P.Fn(a) == nil {
			c.R.Fail("anchor-unresolved", a, rule, "writer "+a+" not found: re-point the table")
		}
	}
	n := 0
	for _, fi := range c.P.Funcs {
		if fi.Body == nil || fi.Ctl {
			continue
		}
		info := fi.Pkg.TypesInfo
		check := func(l ast.Expr) {
			sel, isSel := unparen(l).(*ast.SelectorExpr)
			if !isSel || sel.Sel.Name != field {
				return
			}
			s, has := info.Selections[sel]
			if !has || s.Kind() != types.FieldVal {
				return
			}
			named, _ := derefType(s.Recv()).(*types.Named)
			if named == nil || named.Obj().Name() != typ || named.Obj().Pkg() == nil || shortPkg(named.Obj().Pkg().Path()) != pkg {
				return
			}
			n++
			for _, name := range c.attributed(fi) {
				good := ok[name]
				c.R.Obl(Obligation{Rule: rule, Func: name, Construct: "write to " + typ + "." + field, Pos: c.P.Position(sel.Pos()), Discharged: good, Nontrivial: true, How: []string{"writer table: " + strings.Join(allowed, ", ")}})
				if !good {
					c.R.Find(Finding{Rule: rule, Func: name, Construct: "unaccounted write to " + typ + "." + field, Pos: c.P.Position(sel.Pos()),
						Msg: fmt.Sprintf("%s.%s.%s is written in %s, which is not in the reviewed writer table (%s)", pkg, typ, field, name, why)})
				}
			}
		}
		ast.Inspect(fi.Body, func(nd ast.Node) bool {
			switch s := nd.(type) {
			case *ast.FuncLit:
				return nd == ast.Node(fi.Lit) || fi.Lit == nil && false || true
			case *ast.AssignStmt:
				for _, l := range s.Lhs {
					check(l)
				}
			case *ast.IncDecStmt:
				check(s.X)
			}
			return true
		})
	}
	if n == 0 {
		c.R.Find(Finding{Rule: "vacuity", Func: "-", Construct: rule, Pos: "-", Msg: "no write to " + typ + "." + field + " found: re-point rule " + rule})
	}
}

// RunConstSlice: package-level slice variable pkg.name is initialised with exactly the listed elements (objects by
// qualified name) and is never assigned elsewhere.
func RunConstSlice(c *Ctx, rule, pkg, name string, want []string) {
	for _, pk := range c.P.Scope {
		if shortPkg(pk.PkgPath) != pkg {
			continue
		}
		for _, f := range pk.Syntax {
			for _, d := range f.Decls {
				gd, ok := d.(*ast.GenDecl)
				if !ok {
					continue
				}
				for _, sp := range gd.Specs {
					vs, ok := sp.(*ast.ValueSpec)
					if !ok {
						continue
					}
					for i, id := range vs.Names {
						if id.Name != name || i >= len(vs.Values) {
							continue
						}
						lit, ok := vs.Values[i].(*ast.CompositeLit)
						var got []string
						if ok {
							tb := &termBuilder{info: pk.TypesInfo, inl: map[types.Object]ast.Expr{}, fset: c.P.Fset}
							for _, e := range lit.Elts {
								got = append(got, tb.term(e).String())
							}
						}
						good := strings.Join(got, ",") == strings.Join(want, ",")
						c.R.Obl(Obligation{Rule: rule, Func: pkg + "." + name, Construct: "initialiser", Pos: c.P.Position(id.Pos()), Discharged: good, Nontrivial: true, How: []string{"elements: " + strings.Join(got, ", ")}})
						if !good {
							c.R.Find(Finding{Rule: rule, Func: pkg + "." + name, Construct: "initialiser differs from table", Pos: c.P.Position(id.Pos()),
								Msg: fmt.Sprintf("%s.%s = {%s}, specification table says {%s}", pkg, name, strings.Join(got, ", "), strings.Join(want, ", "))})
						}
						return
					}
				}
			}
		}
	}
	c.R.Fail("anchor-unresolved", pkg+"."+name, rule, "package-level variable not found")
}

// RunForbiddenImport: none of the non-test files of the listed packages imports any of the paths.
func RunForbiddenImport(c *Ctx, rule string, pkgs []string, forbidden []string) {
	in := map[string]bool{}
	for _, p := range pkgs {
		in[p] = true
	}
	bad := map[string]bool{}
	for _, f := range forbidden {
		bad[f] = true
	}
	files := 0
	for _, pk := range c.P.Scope {
		if !in[shortPkg(pk.PkgPath)] {
			continue
		}
		for _, f := range pk.Syntax {
			fname := c.P.Fset.Position(f.Pos()).Filename
			if excludedFile(fname) {
				continue
			}
			files++
			okFile := true
			for _, im := range f.Imports {
				p := strings.Trim(im.Path.Value, `"`)
				if bad[p] {
					okFile = false
					c.R.Find(Finding{Rule: rule, Func: shortPkg(pk.PkgPath), Construct: "import " + p, Pos: c.P.Position(im.Pos()), Msg: "forbidden import " + p + " (secrets and codes must come from crypto/rand)"})
				}
			}
			c.R.Obl(Obligation{Rule: rule, Func: shortPkg(pk.PkgPath), Construct: "imports of " + fname[strings.LastIndex(fname, "/")+1:], Pos: c.P.Position(f.Pos()), Discharged: okFile, Nontrivial: false})
		}
	}
	if files == 0 {
		c.R.Fail("vacuity", "-", rule, "no files scanned")
	}
}

// RunConstAtLeast: integer constant pkg.name >= min.
func RunConstAtLeast(c *Ctx, rule, pkg, name string, min int64) {
	for _, pk := range c.P.Scope {
		if shortPkg(pk.PkgPath) != pkg {
			continue
		}
		if o, ok := pk.Types.Scope().Lookup(name).(*types.Const); ok {
			v, exact := constInt(o)
			good := exact && v >= min
			c.R.Obl(Obligation{Rule: rule, Func: pkg + "." + name, Construct: fmt.Sprintf("value %d >= %d", v, min), Pos: c.P.Position(o.Pos()), Discharged: good, Nontrivial: true})
			if !good {
				c.R.Find(Finding{Rule: rule, Func: pkg + "." + name, Construct: "constant below minimum", Pos: c.P.Position(o.Pos()), Msg: fmt.Sprintf("%s.%s = %d, must be at least %d", pkg, name, v, min)})
			}
			return
		}
	}
	c.R.Fail("anchor-unresolved", pkg+"."+name, rule, "constant not found")
}

// RunAllowedCallees: the listed functions may call only callees on the allow-list (qualified function name, or bare method name).
// A call of a helper introduced after the baseline is followed: the helper's own callees are held to the same list.
func RunAllowedCallees(c *Ctx, rule string, funcs, allowed []string, why string) {
	ok := map[string]bool{}
	for _, a := range allowed {
		ok[a] = true
	}
	for _, name := range funcs {
		fi := c.P.Fn(name)
		if fi == nil || fi.Body == nil {
			c.R.Fail("anchor-unresolved", name, rule, "function not found: re-point the table")
			continue
		}
		visited := map[*FuncInfo]bool{}
		var scan func(cur *FuncInfo, depth int)
		scan = func(cur *FuncInfo, depth int) {
			if visited[cur] {
				return
			}
			visited[cur] = true
			info := cur.Pkg.TypesInfo
			tb := &termBuilder{info: info, inl: map[types.Object]ast.Expr{}, fset: c.P.Fset}
			ast.Inspect(cur.Body, func(n ast.Node) bool {
				call, isCall := n.(*ast.CallExpr)
				if !isCall {
					return true
				}
				if tv, has := info.Types[call.Fun]; has && tv.IsType() {
					return true
				}
				t := tb.callTerm(call)
				nm := t.S
				if t.K == "dyn" {
					nm = "dynamic:" + t.A[0].String()
				}
				good := ok[nm]
				if !good && t.K == "dyn" && depth > 0 && cur.Sig != nil {
					// a call through a function-typed parameter of a followed helper: the functions handed in were checked
					// at the helper's call site (below)
					if id, isID := unparen(call.Fun).(*ast.Ident); isID {
						if v, isVar := info.Uses[id].(*types.Var); isVar {
							for i := 0; i < cur.Sig.Params().Len(); i++ {
								if cur.Sig.Params().At(i) == v {
									good = true
								}
							}
						}
					}
				}
				if !good {
					// builtins that only measure (len, cap) compute nothing a matching rule could be smuggled through
					if id, isID := unparen(call.Fun).(*ast.Ident); isID {
						if _, isB := info.Uses[id].(*types.Builtin); isB && (id.Name == "len" || id.Name == "cap") {
							good = true
						}
					}
				}
				if !good && depth < 4 {
					if fn, _ := typeutil.Callee(info, call).(*types.Func); fn != nil {
						if h := c.helpers()[fn.Origin()]; h != nil {
							for _, g := range c.P.Funcs {
								if g.Obj == fn.Origin() && g.Body != nil {
									c.R.Obl(Obligation{Rule: rule, Func: name, Construct: "call " + nm + " (helper, followed)", Pos: c.P.Position(call.Pos()), Discharged: true, Nontrivial: true})
									// functions handed to the helper as values are held to the allow-list here
									for _, a := range call.Args {
										var fid *ast.Ident
										switch x := unparen(a).(type) {
										case *ast.Ident:
											fid = x
										case *ast.SelectorExpr:
											fid = x.Sel
										}
										if fid == nil {
											continue
										}
										if afn, isFn := info.Uses[fid].(*types.Func); isFn {
											an := calleeName(afn)
											if afn.Pkg() != nil && !inModule(afn.Pkg().Path()) {
												an = afn.Pkg().Name() + "." + afn.Name()
											}
											agood := ok[an]
											c.R.Obl(Obligation{Rule: rule, Func: name, Construct: "function value " + an + " handed to " + nm, Pos: c.P.Position(a.Pos()), Discharged: agood, Nontrivial: true})
											if !agood {
												c.R.Find(Finding{Rule: rule, Func: name, Construct: "function value " + an + " outside the allow-list", Pos: c.P.Position(a.Pos()),
													Msg: fmt.Sprintf("%s hands %s to %s, which is not on the reviewed allow-list of rule %s (%s)", cur.Name, an, nm, rule, why)})
											}
										}
									}
									scan(g, depth+1)
									return true
								}
							}
						}
					}
				}
				c.R.Obl(Obligation{Rule: rule, Func: name, Construct: "call " + nm, Pos: c.P.Position(call.Pos()), Discharged: good, Nontrivial: true})
				if !good {
					c.R.Find(Finding{Rule: rule, Func: name, Construct: "call of " + nm + " outside the allow-list", Pos: c.P.Position(call.Pos()),
						Msg: fmt.Sprintf("%s calls %s, which is not on the reviewed allow-list of rule %s (%s)", cur.Name, nm, rule, why)})
				}
				return true
			})
		}
		scan(fi, 0)
	}
}

// RunMarshalByValue (E8.R-marshal-value): a value handed to a JSON encoder (encoding/json Marshal / Encoder.Encode, the
// library's crypto.Sign and httphelper.MarshalJSON*) must not be a *non-pointer* value of a named type whose custom
// MarshalJSON has a pointer receiver: inside an interface the copy is not addressable, encoding/json silently falls back
// to the plain struct encoder and everything the custom encoder adds (custom claims) is dropped.
func RunMarshalByValue(c *Ctx, pkgs []string) {
	sinks := map[string]bool{"encoding/json.Marshal": true, "encoding/json.MarshalIndent": true, "encoding/json.Encode": true,
		modPath + "/pkg/crypto.Sign": true, modPath + "/pkg/http.MarshalJSON": true, modPath + "/pkg/http.MarshalJSONWithStatus": true}
	n := 0
	for _, fi := range c.P.Funcs {
		if fi.Body == nil {
			continue
		}
		if !fi.Ctl && !contains(pkgs, shortPkg(fi.Pkg.PkgPath)) {
			continue
		}
		info := fi.Pkg.TypesInfo
		ast.Inspect(fi.Body, func(nd ast.Node) bool {
			if lit, ok := nd.(*ast.FuncLit); ok && lit != fi.Lit {
				return false
			}
			call, ok := nd.(*ast.CallExpr)
			if !ok {
				return true
			}
			fn, _ := typeutil.Callee(info, call).(*types.Func)
			if fn == nil || fn.Pkg() == nil {
				return true
			}
			if !sinks[fn.Pkg().Path()+"."+fn.Name()] && !(fi.Ctl && fn.Name() == "ctlMarshal") {
				return true
			}
			for _, a := range call.Args {
				t := info.TypeOf(a)
				if t == nil {
					continue
				}
				nt, isNamed := t.(*types.Named)
				if !isNamed {
					continue
				}
				if _, isIface := nt.Underlying().(*types.Interface); isIface {
					continue
				}
				n++
				hasVal := types.NewMethodSet(nt).Lookup(nil, "MarshalJSON") != nil
				hasPtr := types.NewMethodSet(types.NewPointer(nt)).Lookup(nil, "MarshalJSON") != nil
				bad := hasPtr && !hasVal
				construct := "by-value " + typeStr(nt) + " handed to " + fn.Name()
				for _, name := range c.attributed(fi) {
					c.R.Obl(Obligation{Rule: "E8.R-marshal-value", Func: name, Construct: construct, Pos: c.P.Position(a.Pos()), Discharged: !bad, Nontrivial: hasPtr, Ctl: fi.Ctl})
					if bad {
						c.R.Find(Finding{Rule: "E8.R-marshal-value", Func: name, Construct: construct, Pos: c.P.Position(a.Pos()), Ctl: fi.Ctl,
							Msg: fmt.Sprintf("%s is passed to %s by value, but its MarshalJSON has a pointer receiver: encoding/json uses the plain struct encoder for the copy and drops what the custom encoder adds - pass a pointer", typeStr(nt), fn.Name())})
					}
				}
			}
			return true
		})
	}
	c.R.Extra["marshal_by_value_sites"] = n
}

// RunGetterFieldWriters: like RunFieldWriters, but the field is named by the exported getter that hands it out (an
// unexported field may be renamed or moved into a nested struct; the getter is the stable anchor).  The getter must
// consist of a single `return recv.a.b...`; every store whose left-hand side, relative to a value of the receiver's
// type, is that path or a prefix of it (a store of the enclosing struct) must sit in a reviewed writer.
func RunGetterFieldWriters(c *Ctx, rule, getter string, allowed []string, why string) {
	g := c.P.Fn(getter)
	if g == nil || g.Body == nil || g.Sig == nil || g.Sig.Recv() == nil {
		c.R.Fail("anchor-unresolved", getter, rule, "getter "+getter+" not found: re-point the rule")
		return
	}
	recvNamed, _ := derefType(g.Sig.Recv().Type()).(*types.Named)
	var path []string
	if len(g.Body.List) == 1 {
		if rs, ok := g.Body.List[0].(*ast.ReturnStmt); ok && len(rs.Results) == 1 {
			e := unparen(rs.Results[0])
			for {
				sel, ok := e.(*ast.SelectorExpr)
				if !ok {
					break
				}
				path = append([]string{sel.Sel.Name}, path...)
				e = unparen(sel.X)
			}
			if id, ok := e.(*ast.Ident); !ok || g.Pkg.TypesInfo.Uses[id] != g.Sig.Recv() {
				path = nil
			}
		}
	}
	if recvNamed == nil || len(path) == 0 {
		c.R.Fail("anchor-unresolved", getter, rule, "getter "+getter+" is not a single `return recv.field...`: re-point the rule")
		return
	}
	okW := map[string]bool{}
	for _, a := range allowed {
		okW[a] = true
		if c.P.Fn(a) == nil {
			c.R.Fail("anchor-unresolved", a, rule, "writer "+a+" not found: re-point the table")
		}
	}
	n := 0
	for _, fi := range c.P.Funcs {
		if fi.Body == nil || fi.Ctl {
			continue
		}
		info := fi.Pkg.TypesInfo
		check := func(l ast.Expr) {
			// the selector chain of the store, innermost first, down to an expression of the receiver's type
			var chain []string
			e := unparen(l)
			for {
				sel, ok := e.(*ast.SelectorExpr)
				if !ok {
					return
				}
				chain = append([]string{sel.Sel.Name}, chain...)
				e = unparen(sel.X)
				if nt, _ := derefType(info.TypeOf(e)).(*types.Named); nt != nil && nt.Obj() == recvNamed.Obj() {
					break
				}
			}
			if len(chain) == 0 || len(chain) > len(path) {
				return
			}
			for i := range chain {
				if chain[i] != path[i] {
					return
				}
			}
			n++
			what := recvNamed.Obj().Name() + "." + strings.Join(chain, ".")
			for _, name := range c.attributed(fi) {
				good := okW[name]
				c.R.Obl(Obligation{Rule: rule, Func: name, Construct: "write to " + what, Pos: c.P.Position(l.Pos()), Discharged: good, Nontrivial: true, How: []string{"field of getter " + getter + "; writer table: " + strings.Join(allowed, ", ")}})
				if !good {
					c.R.Find(Finding{Rule: rule, Func: name, Construct: "unaccounted write to " + what, Pos: c.P.Position(l.Pos()),
						Msg: fmt.Sprintf("%s (handed out by %s) is written in %s, which is not in the reviewed writer table (%s)", what, getter, name, why)})
				}
			}
		}
		ast.Inspect(fi.Body, func(nd ast.Node) bool {
			switch s := nd.(type) {
			case *ast.AssignStmt:
				for _, l := range s.Lhs {
					check(l)
				}
			case *ast.IncDecStmt:
				check(s.X)
			}
			return true
		})
	}
	if n == 0 {
		c.R.Find(Finding{Rule: "vacuity", Func: "-", Construct: rule, Pos: "-", Msg: "no write to the field behind " + getter + " found: re-point rule " + rule})
	}
}
