package main

import "strings"

// C01 — RP ID-token validation (DESIGN §5 C01): E1 must-pass-through on VerifyIDToken / VerifyTokens /
// VerifyAccessToken, and each Check* predicate with its duals (accept-set == OIDC Core 3.1.3.7 rule).

func init() {
	const hashAlgs = "eq($alg, jose.RS256) || eq($alg, jose.ES256) || eq($alg, jose.PS256) || eq($alg, jose.RS384) || eq($alg, jose.ES384) || eq($alg, jose.PS384) || eq($alg, jose.RS512) || eq($alg, jose.ES512) || eq($alg, jose.PS512) || eq($alg, jose.EdDSA)"
	claimsP := []string{"claims"}
	obs := []Ob{
		{ID: "E1.idtoken.all-checks", Fn: "client/rp.VerifyIDToken", P: []string{"ctx", "token", "v"}, Kind: "ret ok", Max: 1,
			Why: "claims may be returned only after every OIDC Core 3.1.3.7 check passed on these very claims with the verifier's own configuration",
			Req: []string{
				"def($tok, oidc.DecryptToken($token), 0)",
				"ok(oidc.ParseToken($tok, &$r0))",
				"def($payload, oidc.ParseToken($tok, &$r0), 0)",
				"ok(oidc.CheckSubject($r0))",
				"ok(oidc.CheckIssuer($r0, $v.Issuer))",
				"ok(oidc.CheckAudience($r0, $v.ClientID))",
				"ok(oidc.CheckAuthorizedParty($r0, $v.ClientID))",
				"ok(oidc.CheckSignature(_, $tok, $payload, $r0, $v.SupportedSignAlgs, $v.KeySet))",
				"ok(oidc.CheckExpiration($r0, $v.Offset))",
				"ok(oidc.CheckIssuedAt($r0, $v.MaxAgeIAT, $v.Offset))",
				"nil($v.Nonce) || ok(oidc.CheckNonce($r0, $v.Nonce(_)))",
				"ok(oidc.CheckAuthorizationContextClassReference($r0, $v.ACR))",
				"ok(oidc.CheckAuthTime($r0, $v.MaxAge))",
			}},
		{ID: "E8.tokens.response-binds-access-token", Fn: "client/rp.verifyTokenResponse", P: []string{"ctx", "token", "rp"}, Kind: "call", Pat: "rp.VerifyTokens(_, $token.AccessToken, $idt, $rp.IDTokenVerifier())", Min: 1, Max: 1,
			Why: "the at_hash of the ID token is checked against the access token of the same token response, with the relying party's own verifier",
			Req: []string{"def($idt, $token.Extra(rp.idTokenKey).(string), 0)"}},
		{ID: "E8.tokens.response-binds-access-token.only", Fn: "client/rp.verifyTokenResponse", Kind: "call", Pat: "rp.VerifyTokens(__)", Max: 1},
		{ID: "E8.tokens.response-claims-verified", Fn: "client/rp.verifyTokenResponse", P: []string{"ctx", "token", "rp"}, Kind: "ret ok", Pat: "ret(&Tokens{IDTokenClaims: $c}, nil)", Max: 1,
			Req: []string{"def($c, rp.VerifyTokens(__), 0)", "ok(rp.VerifyTokens(__))"}},
		{ID: "E8.signature.records-header-algorithm", Fn: "oidc.CheckSignature", P: []string{"ctx", "token", "payload", "claims", "supportedSigAlgs", "set"}, Kind: "call", Pat: "$claims.SetSignatureAlgorithm(conv(jose.SignatureAlgorithm, $sig.Header.Algorithm))", Min: 1, Max: 1,
			Why: "the algorithm the at_hash is computed with is the one of the verified signature's header",
			Req: []string{"def($sig, $jws.Signatures[0])", "ok($set.VerifySignature(_, $jws))"}},
		{ID: "E1.tokens.idtoken-and-athash", Fn: "client/rp.VerifyTokens", P: []string{"ctx", "accessToken", "idToken", "v"}, Kind: "ret ok", Max: 1,
			Req: []string{
				"def($r0, rp.VerifyIDToken(_, $idToken, $v), 0)",
				"ok(rp.VerifyIDToken(_, $idToken, $v))",
				"ok(rp.VerifyAccessToken($accessToken, $r0.GetAccessTokenHash(), $r0.GetSignatureAlgorithm()))",
			}},
		{ID: "E1.athash.accept", Fn: "client/rp.VerifyAccessToken", P: []string{"accessToken", "atHash", "alg"}, Kind: "ret ok",
			Why: "a present at_hash must equal the left-half hash of exactly this access token",
			Req: []string{`eq($atHash, "") || (ok(oidc.ClaimHash($accessToken, $alg)) && def($actual, oidc.ClaimHash($accessToken, $alg), 0) && eq($actual, $atHash))`}},
		{ID: "E1.athash.reject", Fn: "client/rp.VerifyAccessToken", P: []string{"accessToken", "atHash", "alg"}, Kind: "ret fail", Pat: "ret(oidc.ErrAtHash)",
			Req: []string{`neq($atHash, "")`, "def($actual, oidc.ClaimHash($accessToken, $alg), 0)", "neq($actual, $atHash)"}},
		{ID: "E8.claimhash.left-half", Fn: "oidc.ClaimHash", P: []string{"claim", "alg"}, Kind: "ret ok", Pat: "ret(crypto.HashString($hash, $claim, true), nil)",
			Req: []string{"def($hash, crypto.GetHashAlgorithm($alg), 0)", "ok(crypto.GetHashAlgorithm($alg))"}},
		{ID: "E8.hashstring.half", Fn: "crypto.HashString", P: []string{"hash", "s", "firstHalf"}, Kind: "store", Pat: "store($size, $size / 2)",
			Req: []string{"true($firstHalf)"}},
		{ID: "E7.hashalg.table", Fn: "crypto.GetHashAlgorithm", P: []string{"alg"}, Kind: "ret ok", Min: 4, Req: []string{hashAlgs}},
		{ID: "E7.hashalg.sha256", Fn: "crypto.GetHashAlgorithm", P: []string{"alg"}, Kind: "ret ok", Pat: "ret(sha256.New(), nil)",
			Req: []string{"eq($alg, jose.RS256) || eq($alg, jose.ES256) || eq($alg, jose.PS256)"}},
		{ID: "E7.hashalg.sha384", Fn: "crypto.GetHashAlgorithm", P: []string{"alg"}, Kind: "ret ok", Pat: "ret(sha512.New384(), nil)",
			Req: []string{"eq($alg, jose.RS384) || eq($alg, jose.ES384) || eq($alg, jose.PS384)"}},
		{ID: "E7.hashalg.sha512", Fn: "crypto.GetHashAlgorithm", P: []string{"alg"}, Kind: "ret ok", Pat: "ret(sha512.New(), nil)", Min: 2,
			Req: []string{"eq($alg, jose.RS512) || eq($alg, jose.ES512) || eq($alg, jose.PS512) || eq($alg, jose.EdDSA)"}},

		// predicates with duals
		{ID: "E1.check.subject.accept", Fn: "oidc.CheckSubject", P: claimsP, Kind: "ret ok", Req: []string{`neq($claims.GetSubject(), "")`}},
		{ID: "E1.check.subject.reject", Fn: "oidc.CheckSubject", P: claimsP, Kind: "ret fail", Req: []string{`eq($claims.GetSubject(), "")`}},
		{ID: "E1.check.issuer.accept", Fn: "oidc.CheckIssuer", P: []string{"claims", "issuer"}, Kind: "ret ok", Req: []string{"eq($claims.GetIssuer(), $issuer)"}},
		{ID: "E1.check.issuer.reject", Fn: "oidc.CheckIssuer", P: []string{"claims", "issuer"}, Kind: "ret fail", Req: []string{"neq($claims.GetIssuer(), $issuer)"}},
		{ID: "E1.check.audience.accept", Fn: "oidc.CheckAudience", P: []string{"claims", "clientID"}, Kind: "ret ok", Req: []string{"true(slices.Contains($claims.GetAudience(), $clientID))"}},
		{ID: "E1.check.audience.reject", Fn: "oidc.CheckAudience", P: []string{"claims", "clientID"}, Kind: "ret fail", Req: []string{"false(slices.Contains($claims.GetAudience(), $clientID))"}},
		{ID: "E1.check.azp.accept", Fn: "oidc.CheckAuthorizedParty", P: []string{"claims", "clientID"}, Kind: "ret ok",
			Req: []string{`le(len($claims.GetAudience()), 1) || neq($claims.GetAuthorizedParty(), "")`, `eq($claims.GetAuthorizedParty(), "") || eq($claims.GetAuthorizedParty(), $clientID)`}},
		{ID: "E1.check.azp.reject-missing", Fn: "oidc.CheckAuthorizedParty", P: []string{"claims", "clientID"}, Kind: "ret fail", Pat: "ret(oidc.ErrAzpMissing)",
			Req: []string{`lt(1, len($claims.GetAudience()))`, `eq($claims.GetAuthorizedParty(), "")`}},
		{ID: "E1.check.azp.reject-invalid", Fn: "oidc.CheckAuthorizedParty", P: []string{"claims", "clientID"}, Kind: "ret fail", Pat: "ret(fmt.Errorf(_, oidc.ErrAzpInvalid, __))",
			Req: []string{`neq($claims.GetAuthorizedParty(), "")`, `neq($claims.GetAuthorizedParty(), $clientID)`}},
		{ID: "E1.check.exp.accept", Fn: "oidc.CheckExpiration", P: []string{"claims", "offset"}, Kind: "ret ok",
			Req: []string{"true(time.Now().Add($offset).Before($claims.GetExpiration()))"}},
		{ID: "E1.check.exp.reject", Fn: "oidc.CheckExpiration", P: []string{"claims", "offset"}, Kind: "ret fail",
			Req: []string{"false(time.Now().Add($offset).Before($claims.GetExpiration()))"}},
		{ID: "E1.check.iat.accept", Fn: "oidc.CheckIssuedAt", P: []string{"claims", "maxAgeIAT", "offset"}, Kind: "ret ok",
			Req: []string{"false($claims.GetIssuedAt().IsZero())", "false(time.Now().Add($offset).Before($claims.GetIssuedAt()))",
				"eq($maxAgeIAT, 0) || false($claims.GetIssuedAt().Before(time.Now().Add(-$maxAgeIAT)))"}},
		{ID: "E1.check.iat.reject-missing", Fn: "oidc.CheckIssuedAt", P: []string{"claims", "maxAgeIAT", "offset"}, Kind: "ret fail", Pat: "ret(oidc.ErrIatMissing)",
			Req: []string{"true($claims.GetIssuedAt().IsZero())"}},
		{ID: "E1.check.iat.reject-future", Fn: "oidc.CheckIssuedAt", P: []string{"claims", "maxAgeIAT", "offset"}, Kind: "ret fail", Pat: "ret(fmt.Errorf(_, oidc.ErrIatInFuture, __))",
			Req: []string{"true(time.Now().Add($offset).Before($claims.GetIssuedAt()))"}},
		{ID: "E1.check.iat.reject-old", Fn: "oidc.CheckIssuedAt", P: []string{"claims", "maxAgeIAT", "offset"}, Kind: "ret fail", Pat: "ret(fmt.Errorf(_, oidc.ErrIatToOld, __))",
			Req: []string{"neq($maxAgeIAT, 0)", "true($claims.GetIssuedAt().Before(time.Now().Add(-$maxAgeIAT)))"}},
		{ID: "E1.check.nonce.accept", Fn: "oidc.CheckNonce", P: []string{"claims", "nonce"}, Kind: "ret ok", Req: []string{"eq($claims.GetNonce(), $nonce)"}},
		{ID: "E1.check.nonce.reject", Fn: "oidc.CheckNonce", P: []string{"claims", "nonce"}, Kind: "ret fail", Req: []string{"neq($claims.GetNonce(), $nonce)"}},
		{ID: "E1.check.acr.accept", Fn: "oidc.CheckAuthorizationContextClassReference", P: []string{"claims", "acr"}, Kind: "ret ok",
			Req: []string{"nil($acr) || ok($acr($claims.GetAuthenticationContextClassReference()))"}},
		{ID: "E1.check.acr.reject", Fn: "oidc.CheckAuthorizationContextClassReference", P: []string{"claims", "acr"}, Kind: "ret fail",
			Req: []string{"nonnil($acr)", "fail($acr($claims.GetAuthenticationContextClassReference()))"}},
		{ID: "E1.check.authtime.accept", Fn: "oidc.CheckAuthTime", P: []string{"claims", "maxAge"}, Kind: "ret ok",
			Req: []string{"eq($maxAge, 0) || (false($claims.GetAuthTime().IsZero()) && false($claims.GetAuthTime().Before(time.Now().Add(-$maxAge))))"}},
		{ID: "E1.check.authtime.reject-missing", Fn: "oidc.CheckAuthTime", P: []string{"claims", "maxAge"}, Kind: "ret fail", Pat: "ret(oidc.ErrAuthTimeNotPresent)",
			Req: []string{"neq($maxAge, 0)", "true($claims.GetAuthTime().IsZero())"}},
		{ID: "E1.check.authtime.reject-old", Fn: "oidc.CheckAuthTime", P: []string{"claims", "maxAge"}, Kind: "ret fail", Pat: "ret(fmt.Errorf(_, oidc.ErrAuthTimeToOld, __))",
			Req: []string{"neq($maxAge, 0)", "true($claims.GetAuthTime().Before(time.Now().Add(-$maxAge)))"}},
		{ID: "E1.acr.default", Fn: "oidc.DefaultACRVerifier$1", P: []string{"acr"}, Kind: "ret ok", Req: []string{"true(slices.Contains($values, $acr))"}},
	}
	// the claim getters the checks read through are plain reads of the decoded field (a getter that substitutes another claim
	// changes what every check compares)
	obs = append(obs,
		Ob{ID: "E8.verifier.constructor-binds-configuration", Fn: "client/rp.NewIDTokenVerifier", P: []string{"issuer", "clientID", "keySet"}, Kind: "ret any", Pat: "ret(&IDTokenVerifier{Issuer: $issuer, ClientID: $clientID, KeySet: $keySet})", Max: 1, Only: true,
			Why: "the verifier checks the token against the issuer, client id and key set it was constructed for"},
		Ob{ID: "E8.verifier.constructor-binds-configuration.only", Fn: "client/rp.NewIDTokenVerifier", Kind: "ret any", Max: 1},
		Ob{ID: "E8.rp.verifier-from-own-configuration", Fn: "client/rp.(*relyingParty).IDTokenVerifier", P: []string{"rp"}, Kind: "call", Pat: "rp.NewIDTokenVerifier($rp.issuer, $rp.oauthConfig.ClientID, rp.NewRemoteKeySet($rp.httpClient, $rp.endpoints.JKWsURL), __)", Min: 1, Max: 1,
			Why: "the relying party's verifier is built from its own issuer, client id and the discovered JWKS endpoint"},
		Ob{ID: "E8.rp.verifier-from-own-configuration.only", Fn: "client/rp.(*relyingParty).IDTokenVerifier", Kind: "call", Pat: "rp.NewIDTokenVerifier(__)", Max: 1})
	obs = append(obs, Ob{ID: "E8.claims.getter.GetIssuer", Fn: "oidc.(*TokenClaims).GetIssuer", P: []string{"c"}, Kind: "ret any", Pat: "ret($c.Issuer)", Why: "checks read the decoded claim itself"},
		Ob{ID: "E8.claims.getter.GetIssuer.only", Fn: "oidc.(*TokenClaims).GetIssuer", P: []string{"c"}, Kind: "ret any", Nots: []string{"ret($c.Issuer)"}, Forbid: true, Why: "no other value is handed to the checks"})
	obs = append(obs, Ob{ID: "E8.claims.getter.GetSubject", Fn: "oidc.(*TokenClaims).GetSubject", P: []string{"c"}, Kind: "ret any", Pat: "ret($c.Subject)", Why: "checks read the decoded claim itself"},
		Ob{ID: "E8.claims.getter.GetSubject.only", Fn: "oidc.(*TokenClaims).GetSubject", P: []string{"c"}, Kind: "ret any", Nots: []string{"ret($c.Subject)"}, Forbid: true, Why: "no other value is handed to the checks"})
	obs = append(obs, Ob{ID: "E8.claims.getter.GetAudience", Fn: "oidc.(*TokenClaims).GetAudience", P: []string{"c"}, Kind: "ret any", Pat: "ret($c.Audience)", Why: "checks read the decoded claim itself"},
		Ob{ID: "E8.claims.getter.GetAudience.only", Fn: "oidc.(*TokenClaims).GetAudience", P: []string{"c"}, Kind: "ret any", Nots: []string{"ret($c.Audience)"}, Forbid: true, Why: "no other value is handed to the checks"})
	obs = append(obs, Ob{ID: "E8.claims.getter.GetExpiration", Fn: "oidc.(*TokenClaims).GetExpiration", P: []string{"c"}, Kind: "ret any", Pat: "ret($c.Expiration.AsTime())", Why: "checks read the decoded claim itself"},
		Ob{ID: "E8.claims.getter.GetExpiration.only", Fn: "oidc.(*TokenClaims).GetExpiration", P: []string{"c"}, Kind: "ret any", Nots: []string{"ret($c.Expiration.AsTime())"}, Forbid: true, Why: "no other value is handed to the checks"})
	obs = append(obs, Ob{ID: "E8.claims.getter.GetIssuedAt", Fn: "oidc.(*TokenClaims).GetIssuedAt", P: []string{"c"}, Kind: "ret any", Pat: "ret($c.IssuedAt.AsTime())", Why: "checks read the decoded claim itself"},
		Ob{ID: "E8.claims.getter.GetIssuedAt.only", Fn: "oidc.(*TokenClaims).GetIssuedAt", P: []string{"c"}, Kind: "ret any", Nots: []string{"ret($c.IssuedAt.AsTime())"}, Forbid: true, Why: "no other value is handed to the checks"})
	obs = append(obs, Ob{ID: "E8.claims.getter.GetNonce", Fn: "oidc.(*TokenClaims).GetNonce", P: []string{"c"}, Kind: "ret any", Pat: "ret($c.Nonce)", Why: "checks read the decoded claim itself"},
		Ob{ID: "E8.claims.getter.GetNonce.only", Fn: "oidc.(*TokenClaims).GetNonce", P: []string{"c"}, Kind: "ret any", Nots: []string{"ret($c.Nonce)"}, Forbid: true, Why: "no other value is handed to the checks"})
	obs = append(obs, Ob{ID: "E8.claims.getter.GetAuthTime", Fn: "oidc.(*TokenClaims).GetAuthTime", P: []string{"c"}, Kind: "ret any", Pat: "ret($c.AuthTime.AsTime())", Why: "checks read the decoded claim itself"},
		Ob{ID: "E8.claims.getter.GetAuthTime.only", Fn: "oidc.(*TokenClaims).GetAuthTime", P: []string{"c"}, Kind: "ret any", Nots: []string{"ret($c.AuthTime.AsTime())"}, Forbid: true, Why: "no other value is handed to the checks"})
	obs = append(obs, Ob{ID: "E8.claims.getter.GetAuthorizedParty", Fn: "oidc.(*TokenClaims).GetAuthorizedParty", P: []string{"c"}, Kind: "ret any", Pat: "ret($c.AuthorizedParty)", Why: "checks read the decoded claim itself"},
		Ob{ID: "E8.claims.getter.GetAuthorizedParty.only", Fn: "oidc.(*TokenClaims).GetAuthorizedParty", P: []string{"c"}, Kind: "ret any", Nots: []string{"ret($c.AuthorizedParty)"}, Forbid: true, Why: "no other value is handed to the checks"})
	obs = append(obs, Ob{ID: "E8.claims.getter.GetSignatureAlgorithm", Fn: "oidc.(*TokenClaims).GetSignatureAlgorithm", P: []string{"c"}, Kind: "ret any", Pat: "ret($c.SignatureAlg)", Why: "checks read the decoded claim itself"},
		Ob{ID: "E8.claims.getter.GetSignatureAlgorithm.only", Fn: "oidc.(*TokenClaims).GetSignatureAlgorithm", P: []string{"c"}, Kind: "ret any", Nots: []string{"ret($c.SignatureAlg)"}, Forbid: true, Why: "no other value is handed to the checks"})
	obs = append(obs, Ob{ID: "E8.claims.getter.GetAuthenticationContextClassReference", Fn: "oidc.(*TokenClaims).GetAuthenticationContextClassReference", P: []string{"c"}, Kind: "ret any", Pat: "ret($c.AuthenticationContextClassReference)", Why: "checks read the decoded claim itself"},
		Ob{ID: "E8.claims.getter.GetAuthenticationContextClassReference.only", Fn: "oidc.(*TokenClaims).GetAuthenticationContextClassReference", P: []string{"c"}, Kind: "ret any", Nots: []string{"ret($c.AuthenticationContextClassReference)"}, Forbid: true, Why: "no other value is handed to the checks"})
	obs = append(obs, Ob{ID: "E8.claims.getter.GetAccessTokenHash", Fn: "oidc.(*IDTokenClaims).GetAccessTokenHash", P: []string{"t"}, Kind: "ret any", Pat: "ret($t.AccessTokenHash)"},
		Ob{ID: "E8.claims.getter.GetAccessTokenHash.only", Fn: "oidc.(*IDTokenClaims).GetAccessTokenHash", P: []string{"t"}, Kind: "ret any", Nots: []string{"ret($t.AccessTokenHash)"}, Forbid: true})
	// the claim predicates are shared by the OP-side verifiers: C14 (JWT assertions: aud, exp, iat), C08/C15 (access tokens:
	// iss, exp), C18 (id_token_hint: iss, acr, exp, iat, auth_time) re-evaluate the predicates they rely on
	for _, o := range obs {
		share := func(props ...string) {
			for _, p := range props {
				sharedObs[p] = append(sharedObs[p], o)
			}
		}
		switch {
		case strings.HasPrefix(o.ID, "E1.check.exp."):
			share("C14", "C08", "C15", "C18")
		case strings.HasPrefix(o.ID, "E1.check.issuer."):
			share("C08", "C15", "C18")
		case strings.HasPrefix(o.ID, "E1.check.audience."), strings.HasPrefix(o.ID, "E1.check.iat."):
			share("C14")
		}
	}
	register(&PropSpec{
		ID: "C01",
		Explanation: "Decides, for all paths: (1) rp.VerifyIDToken returns claims only after ParseToken and the ten Check* calls succeeded on the returned claims value, each bound to the verifier field the standard names (issuer, client id, offset, max ages, nonce, acr, key set, algorithms); (2) VerifyTokens/VerifyAccessToken bind at_hash to the left-half hash of the given access token with the ID token's own algorithm; (3) each Check* predicate's accept path and each of its reject paths carry exactly the OIDC Core 3.1.3.7 condition (accept-set and its dual), with time comparisons normalised (After->Before, Round/UTC dropped); (4) the algorithm->hash table. Does not decide: true time, signature arithmetic, value equality of returned claims beyond variable identity.",
		RuleText:    "obligation = (rule, function, sink site); an obligation is non-trivial when at least one guard edge fact was needed to discharge it; distinct by rule+function+construct",
		Assumptions: []string{"getter methods (Get*, Is*) of claims types are pure", "time.Now is the true time", "go-jose verifies signatures correctly"},
		Trusted:     []string{"go/types, go/cfg (x/tools v0.50.0)", "stdlib slices/time/fmt", "go-jose/v4"},
		Level:       "Sound static check (all paths, both polarities) of the structural necessary conditions of ID-token validation: the complete check sequence dominates the success return and is bound to the verifier's configuration; each Check* predicate's accept/reject conditions equal the OIDC Core rule. Not a proof of the behaviour: time, cryptography and value equality are outside.",
		Note:        "Trusted: go/types+go/cfg, stdlib, go-jose. Assumes claims getters are pure and time.Now is the true time. Decides which values are checked against which configuration on every path, not the outcome for a concrete token.",
		Technique:   "static analysis: path-sensitive must-facts dataflow over go/cfg with typed access-path patterns (guard-before-return, predicate duals)",
		Rules:       []string{"E1"},
		Run:         func(c *Ctx) { RunE1(c, "C01", obs) },
	})
}
