package main

// C03 — the OP never redirects an authorization response or error to an unregistered URI (DESIGN §5 C03).

import "strings"

// functions whose every error is redirect-disabled (verified below: ret fail |- rdErr)
var rdFuncs = map[string]bool{"op.ValidateAuthReqRedirectURI": true, "op.validateAuthReqRedirectURINative": true, "op.checkURIAgainstRedirects": true}

// functions with the error-side guarantee "redirect-disabled or raised after the redirect URI was accepted"
var gerrFuncs = map[string]bool{"op.ValidateAuthRequestClient": true, "op.ValidateAuthRequest": true}

func rootCallOf(t *Term) *Term {
	for t != nil {
		switch t.K {
		case "mcall":
			if strings.HasPrefix(t.S, "With") && len(t.A) > 0 {
				t = t.A[0]
				continue
			}
			return t
		case "res":
			if len(t.A) > 0 {
				t = t.A[0]
				continue
			}
			return t
		case "conv":
			if len(t.A) == 1 {
				t = t.A[0]
				continue
			}
			return t
		default:
			return t
		}
	}
	return t
}

func errOrigin(st *fstate, t *Term) *Term {
	for depth := 0; depth < 6 && t != nil; depth++ {
		// the value a helper (interpreted in place) returned: eq(res(i, call), value) / def(res(i, call), origin, j)
		if t.K == "res" || t.K == "call" || t.K == "mcall" {
			r := t
			if t.K != "res" {
				r = mk("res", "0", t)
			}
			rk := r.Key()
			tk := t.Key()
			var next *Term
			for _, k := range sortedKeys(st.facts) {
				fc := st.facts[k]
				if fc.S == "eq" && len(fc.A) == 2 && (fc.A[0].Key() == rk || fc.A[0].Key() == tk) && fc.A[1].Key() != tk {
					next = fc.A[1]
					break
				}
				if fc.S == "def" && len(fc.A) >= 2 && fc.A[0].Key() == rk {
					next = fc.A[1]
					break
				}
			}
			if next != nil {
				t = next
				continue
			}
		}
		t = rootCallOf(t)
		if t != nil && t.K == "var" {
			vk := t.Key()
			var next *Term
			for _, k := range sortedKeys(st.facts) {
				fc := st.facts[k]
				if fc.S == "def" && len(fc.A) >= 2 && fc.A[0].Key() == vk {
					next = fc.A[1]
					if len(fc.A) == 3 && (next.K == "call" || next.K == "mcall") {
						// result i of a (possibly interpreted) call: follow that result, not result 0
						ri := mk("res", fc.A[2].S, next)
						for _, k2 := range sortedKeys(st.facts) {
							f2 := st.facts[k2]
							if f2.S == "eq" && len(f2.A) == 2 && f2.A[0].Key() == ri.Key() {
								next = ri
								break
							}
						}
					}
					break
				}
			}
			if next == nil {
				return t
			}
			t = next
			continue
		}
		// a call of a helper whose returned value is recorded in the state
		if t != nil && (t.K == "call" || t.K == "mcall") {
			rk := mk("res", "0", t).Key()
			found := false
			for _, fc := range st.facts {
				if (fc.S == "eq" || fc.S == "def") && len(fc.A) >= 2 && (fc.A[0].Key() == rk || (fc.S == "eq" && fc.A[0].Key() == t.Key())) {
					found = true
				}
			}
			if found {
				continue
			}
		}
		return t
	}
	return t
}

func init() {
	customPreds["rdErr"] = func(st *fstate, a []*Term) bool {
		o := errOrigin(st, a[0])
		return o != nil && o.K == "call" && (o.S == "oidc.ErrInvalidRequestRedirectURI" || rdFuncs[o.S])
	}
	// errOrig(e, oidc.ErrX): the error value e was built by that constructor (through With* decorators, local variables
	// and the results of helpers interpreted in place)
	customPreds["errOrig"] = func(st *fstate, a []*Term) bool {
		if len(a) != 2 {
			return false
		}
		o := errOrigin(st, a[0])
		return o != nil && o.K == "call" && nameMatches(a[1].S, o.S)
	}
	customPreds["gerr"] = func(st *fstate, a []*Term) bool {
		o := errOrigin(st, a[0])
		return o != nil && o.K == "call" && gerrFuncs[o.S]
	}
	const registered = "(member($uri, $client.RedirectURIs()) || (is($client, HasRedirectGlobs) && some(_.RedirectURIGlobs(), true(res(0, doublestar.Match(ELEM, $uri))))))"
	const validated = "ok(op.ValidateAuthReqRedirectURI($client, $authReq.RedirectURI, $authReq.ResponseType))"
	obs := []Ob{
		// --- matching: only ==, opted-in glob, loopback equalURI
		{ID: "E1.redirect.registered.accept", Fn: "op.checkURIAgainstRedirects", P: []string{"client", "uri"}, Kind: "ret ok", Min: 2, Max: 2, Req: []string{registered}},
		{ID: "E1.redirect.registered.reject", Fn: "op.checkURIAgainstRedirects", P: []string{"client", "uri"}, Kind: "ret fail", Min: 2, Req: []string{"rdErr($r0)"},
			Why: "an error that leaves redirect validation must be redirect-disabled, otherwise it is redirected to the URI that just failed validation"},
		{ID: "E1.redirect.validate.accept", Fn: "op.ValidateAuthReqRedirectURI", P: []string{"client", "uri", "responseType"}, Kind: "ret ok", Min: 4, Max: 4,
			Why: "scheme rules: https if registered; http only for dev mode or confidential code flow; native clients by their own rule",
			Req: []string{`neq($uri, "")`,
				"(eq($client.ApplicationType(), op.ApplicationTypeNative) && ok(op.validateAuthReqRedirectURINative($client, $uri)))" +
					` || (neq($client.ApplicationType(), op.ApplicationTypeNative) && true(strings.HasPrefix($uri, "https://")) && ok(op.checkURIAgainstRedirects($client, $uri)))` +
					` || (neq($client.ApplicationType(), op.ApplicationTypeNative) && ok(op.checkURIAgainstRedirects($client, $uri)) && true(strings.HasPrefix($uri, "http://")) && (true($client.DevMode()) || (eq($responseType, oidc.ResponseTypeCode) && true(op.IsConfidentialType($client)))))`}},
		{ID: "E1.redirect.validate.reject", Fn: "op.ValidateAuthReqRedirectURI", P: []string{"client", "uri", "responseType"}, Kind: "ret fail", Min: 5, Req: []string{"rdErr($r0)"}},
		// accepted exactly when registered and (dev mode, https, loopback or a custom scheme), or not registered but loopback and
		// equal in path and query to a registered loopback URI; stated on the success outcome, however the code spells it
		{ID: "E1.redirect.native.accept", Fn: "op.validateAuthReqRedirectURINative", P: []string{"client", "uri"}, Kind: "ret ok",
			Req: []string{
				"def($lb, op.HTTPLoopbackOrLocalhost($uri), 1)",
				"(ok(op.checkURIAgainstRedirects($client, $uri)) && (true($client.DevMode()) || true(strings.HasPrefix($uri, \"https://\")) || true($lb) || (false(strings.HasPrefix($uri, \"http://\")) && false(strings.HasPrefix($uri, \"https://\")))))" +
					" || (fail(op.checkURIAgainstRedirects($client, $uri)) && true($lb) && some($client.RedirectURIs(), true(op.equalURI(res(0, op.HTTPLoopbackOrLocalhost($uri)), res(0, op.HTTPLoopbackOrLocalhost(ELEM))))) && some($client.RedirectURIs(), true(res(1, op.HTTPLoopbackOrLocalhost(ELEM)))))",
			}},
		{ID: "E1.redirect.native.reject", Fn: "op.validateAuthReqRedirectURINative", P: []string{"client", "uri"}, Kind: "ret fail", Min: 3, Req: []string{"rdErr($r0)"}},
		{ID: "E7.redirect.equaluri", Fn: "op.equalURI", P: []string{"a", "b"}, Kind: "ret any", Pat: "ret(($a.Path == $b.Path) && ($a.RawQuery == $b.RawQuery))", Max: 1, Only: true},
		{ID: "E7.redirect.equaluri.only", Fn: "op.equalURI", Kind: "ret any", Max: 1},
		{ID: "E1.redirect.loopback", Fn: "op.HTTPLoopbackOrLocalhost", P: []string{"rawURL"}, Kind: "ret any", Not: "ret(nil, false)", Max: 1,
			Pat: `ret($p, ($h == "localhost") || net.ParseIP($h).IsLoopback())`,
			Req: []string{"def($p, url.Parse($rawURL), 0)", "ok(url.Parse($rawURL))", `eq($p.Scheme, "http") || eq($p.Scheme, "https")`, "def($h, $p.Hostname())"}},
		{ID: "E7.redirect.rd-constructor", Fn: "oidc.init:ErrInvalidRequestRedirectURI$1", Kind: "ret any", Pat: "ret(&Error{redirectDisabled: true})", Max: 1, Only: true},
		{ID: "E7.redirect.rd-preserved.desc", Fn: "oidc.(*Error).WithDescription", P: []string{"e"}, Kind: "ret any", Pat: "ret($e)", Max: 1, Only: true},
		{ID: "E7.redirect.rd-preserved.parent", Fn: "oidc.(*Error).WithParent", P: []string{"e"}, Kind: "ret any", Pat: "ret($e)", Max: 1, Only: true},
		{ID: "E7.redirect.rd-getter", Fn: "oidc.(*Error).IsRedirectDisabled", P: []string{"e"}, Kind: "ret any", Pat: "ret($e.redirectDisabled)", Max: 1, Only: true},

		// --- validators: an error that AuthRequestError would redirect arises only after the URI was accepted
		{ID: "E1.redirect.gerr.client", Fn: "op.ValidateAuthRequestClient", P: []string{"ctx", "authReq", "client", "verifier"}, Kind: "ret fail", Min: 4,
			Why: "error-side guarantee: redirect-disabled, or raised after ValidateAuthReqRedirectURI accepted the URI",
			Req: []string{"rdErr($r1) || " + validated}},
		{ID: "E1.redirect.gerr.client.ok", Fn: "op.ValidateAuthRequestClient", P: []string{"ctx", "authReq", "client", "verifier"}, Kind: "ret ok",
			Req: []string{validated, "ok(op.ValidateAuthReqResponseType($client, $authReq.ResponseType))"}},
		{ID: "E1.redirect.gerr.deprecated", Fn: "op.ValidateAuthRequest", P: []string{"ctx", "authReq", "storage", "verifier"}, Kind: "ret fail", Min: 2,
			Req: []string{"rdErr($r1) || gerr($r1)"}},
		{ID: "E1.redirect.gerr.closure", Fn: "op.Authorize$1", P: []string{"ctx", "authReq", "storage", "verifier"}, Kind: "ret fail", Min: 2,
			Req: []string{"rdErr($r1) || gerr($r1)"}},
		{ID: "E1.redirect.gerr.closure.client", Fn: "op.Authorize$1", P: []string{"ctx", "authReq", "storage", "verifier"}, Kind: "ret any", Pat: "ret(res(0, op.ValidateAuthRequestClient(_, $authReq, $client, _)), _)", Max: 1,
			Req: []string{"def($client, _.GetClientByClientID(_, $authReq.ClientID), 0)", "ok(_.GetClientByClientID(_, $authReq.ClientID))"}},

		// --- Provider router
		{ID: "E1.redirect.authorize.error-redirects", Fn: "op.Authorize", Kind: "call", Pat: "op.AuthRequestError(_, _, $x, $e, _)", Not: "op.AuthRequestError(_, _, nil, __)", Min: 3, Max: 3,
			Why: "an auth request is handed to the error redirector only after validation ran on it: either it succeeded, or the error is validation's own (redirect-disabled unless the URI was accepted)",
			Req: []string{"ok($validation(_, $x, __)) || (def($e, $validation(_, $x, __), 1) && fail($validation(_, $x, __)))", "def($x, op.ParseAuthorizeRequest(__), 0)"}},
		{ID: "E1.redirect.authorize.store", Fn: "op.Authorize", Kind: "call", Pat: "_.CreateAuthRequest(_, $x, _)", Max: 1, Req: []string{"ok($validation(_, $x, __))"}},
		{ID: "E1.redirect.authorize.login", Fn: "op.Authorize", Kind: "call", Pat: "op.RedirectToLogin(__)", Max: 1, Req: []string{"ok($validation(_, $x, __))", "ok(_.CreateAuthRequest(_, $x, _))"}},
		{ID: "E1.redirect.callback.stored-only", Fn: "op.AuthorizeCallback", Kind: "call", Pat: "op.AuthRequestError(_, _, $x, __)", Not: "op.AuthRequestError(_, _, nil, __)", Max: 1,
			Req: []string{"def($x, _.AuthRequestByID(_, _), 0)", "ok(_.AuthRequestByID(_, _))"}},
		{ID: "E1.redirect.error-redirector", Fn: "op.AuthRequestError", P: []string{"w", "r", "authReq", "err", "authorizer"}, Kind: "call", Pat: "http.Redirect(_, _, $url, _)", Max: 1,
			Why: "the error redirect goes to the request's own redirect URI, only when there is one and the error is not redirect-disabled",
			Req: []string{"nonnil($authReq)", `neq($authReq.GetRedirectURI(), "")`, "false($e.IsRedirectDisabled())",
				"def($url, op.AuthResponseURL($authReq.GetRedirectURI(), $authReq.GetResponseType(), _, $e, _), 0)", "ok(op.AuthResponseURL($authReq.GetRedirectURI(), $authReq.GetResponseType(), _, $e, _))"}},
		{ID: "E1.redirect.error-redirector.error-is-callers", Fn: "op.AuthRequestError", P: []string{"w", "r", "authReq", "err", "authorizer"}, Kind: "call", Pat: "op.AuthResponseURL($authReq.GetRedirectURI(), _, _, $e, _)", Max: 1,
			Req: []string{"def($e, oidc.DefaultToServerError($err, _))", "false($e.IsRedirectDisabled())"}},
		{ID: "E1.redirect.try-error-redirect", Fn: "op.TryErrorRedirect", P: []string{"ctx", "authReq", "parent", "encoder", "logger"}, Kind: "ret ok", Pat: "ret(op.NewRedirect($url), nil)", Max: 1,
			Req: []string{"nonnil($authReq)", `neq($authReq.GetRedirectURI(), "")`, "false($e.IsRedirectDisabled())", "def($e, oidc.DefaultToServerError(__))",
				"def($url, op.AuthResponseURL($authReq.GetRedirectURI(), $authReq.GetResponseType(), _, $e, _), 0)", "ok(op.AuthResponseURL($authReq.GetRedirectURI(), $authReq.GetResponseType(), _, $e, _))"}},
		{ID: "E1.redirect.error-normaliser-keeps-error", Fn: "oidc.DefaultToServerError", P: []string{"err", "description"}, Kind: "ret any",
			Why: "an error that already is an *oidc.Error is handed back itself (with its redirect-disabled mark); only other errors are wrapped into a new server_error",
			Req: []string{"notErrAs($err, _) || (errAs($err, $t) && same($r0, $t))"}},
		{ID: "E1.redirect.try-error-redirect.only", Fn: "op.TryErrorRedirect", Kind: "ret ok", Max: 1},
		// success responses use the stored request's URI
		{ID: "E8.redirect.code-response", Fn: "op.AuthResponseCode", P: []string{"w", "r", "authReq", "authorizer"}, Kind: "call", Pat: "http.Redirect(_, _, $cb, _)", Max: 1,
			Req: []string{"def($cb, op.AuthResponseURL($authReq.GetRedirectURI(), $authReq.GetResponseType(), $authReq.GetResponseMode(), _, _), 0)", "ok(op.AuthResponseURL($authReq.GetRedirectURI(), __))"}},
		{ID: "E8.redirect.code-response.form", Fn: "op.AuthResponseCode", P: []string{"w", "r", "authReq", "authorizer"}, Kind: "call", Pat: "op.AuthResponseFormPost(_, $authReq.GetRedirectURI(), __)", Max: 1},
		{ID: "E8.redirect.token-response", Fn: "op.AuthResponseToken", P: []string{"w", "r", "authReq", "authorizer", "client"}, Kind: "call", Pat: "http.Redirect(_, _, $cb, _)", Max: 1,
			Req: []string{"def($cb, op.AuthResponseURL($authReq.GetRedirectURI(), $authReq.GetResponseType(), $authReq.GetResponseMode(), _, _), 0)", "ok(op.AuthResponseURL($authReq.GetRedirectURI(), __))"}},
		{ID: "E8.redirect.token-response.form", Fn: "op.AuthResponseToken", P: []string{"w", "r", "authReq", "authorizer", "client"}, Kind: "call", Pat: "op.AuthResponseFormPost(_, $authReq.GetRedirectURI(), __)", Max: 1},

		// --- Server router
		{ID: "E1.redirect.server.authorize", Fn: "op.(*webServer).authorize", P: []string{"s", "ctx", "r"}, Kind: "ret any", Pat: "ret(res(0, $s.server.Authorize(_, $cr)), _)", Max: 1,
			Why: "Server.Authorize (whose LegacyServer implementation may redirect errors) runs only on a request whose redirect URI and response type were accepted for its client",
			Req: []string{"def($cr, $s.server.VerifyAuthRequest(_, $r), 0)", "ok($s.server.VerifyAuthRequest(_, $r))", `neq($cr.Data.RedirectURI, "")`,
				"ok(op.ValidateAuthReqRedirectURI($cr.Client, $cr.Data.RedirectURI, $cr.Data.ResponseType))", "ok(op.ValidateAuthReqResponseType($cr.Client, $cr.Data.ResponseType))"}},
		{ID: "E1.redirect.server.authorize.only", Fn: "op.(*webServer).authorize", Kind: "ret ok", Max: 1},
		{ID: "E1.redirect.legacy-server.verify", Fn: "op.(*LegacyServer).VerifyAuthRequest", P: []string{"s", "ctx", "r"}, Kind: "ret ok", Pat: "ret(&ClientRequest{Request: $r, Client: $client}, nil)", Max: 1,
			Req: []string{"def($client, _.GetClientByClientID(_, $r.Data.ClientID), 0)", "ok(_.GetClientByClientID(_, $r.Data.ClientID))", `neq($r.Data.ClientID, "")`}},
	}
	for _, o := range obs {
		switch o.ID {
		case "E1.redirect.authorize.error-redirects", "E1.redirect.error-redirector", "E1.redirect.error-redirector.error-is-callers",
			"E1.redirect.try-error-redirect", "E1.redirect.error-normaliser-keeps-error":
			// C10: "an error redirect [only] to the already validated redirect URI" when the storage fails
			sharedObs["C10"] = append(sharedObs["C10"], o)
		case "E8.redirect.code-response", "E8.redirect.token-response":
			// C11: "parameters arrive ... with exactly the values the provider produced": what is redirected to is the URL
			// AuthResponseURL built for this request, not a re-parsed / re-encoded derivative of it
			sharedObs["C11"] = append(sharedObs["C11"], o)
		}
	}
	register(&PropSpec{
		ID: "C03",
		Explanation: "Decides, for all paths of both routers: (1) the three matching functions accept only slices.Contains equality, a doublestar match of a glob of a client that implements HasRedirectGlobs, or equalURI (Path and RawQuery equality) between loopback URLs, under the stated scheme rules for web / native / dev-mode / confidential clients (accept sets with both polarities), and they call nothing outside a reviewed allow-list of callees; (2) every error leaving redirect validation is built by ErrInvalidRequestRedirectURI (redirect-disabled), and every other validation error arises only after ValidateAuthReqRedirectURI accepted the request's URI (error-side guarantee, propagated through ValidateAuthRequestClient / ValidateAuthRequest / the closure in Authorize); (3) op.Authorize hands a non-nil request to AuthRequestError only after validation ran on that very request, stores and redirects to login only after it succeeded; AuthorizeCallback redirects only for a request loaded from storage; (4) AuthRequestError / TryErrorRedirect redirect only for a non-nil request with a non-empty URI and a non-redirect-disabled error, to AuthResponseURL of the request's own URI; success responses use authReq.GetRedirectURI(); (5) webServer.authorize reaches Server.Authorize only after URI and response-type validation for the verified client. Does not decide the languages accepted by doublestar.Match / url.Parse.",
		RuleText:    "obligation = (rule, function, sink site); allow-list rows; non-trivial when guard facts were needed",
		Assumptions: []string{"a custom AuthorizeValidator supplied by the application validates the redirect URI itself", "requests returned by Storage.AuthRequestByID were stored by the provider after validation"},
		Trusted:     []string{"go/types, go/cfg (x/tools v0.50.0)", "doublestar.Match", "net/url", "Storage implementation"},
		Level:       "Sound static check (all paths, both routers) that every redirect sink is dominated by URI validation for the request's client or uses a stored request, that validation errors cannot be redirected, and that matching uses only the three stated operators under the stated scheme rules.",
		Note:        "Trusted: go/types+go/cfg, doublestar, net/url. The error-side guarantee is propagated by repository-specific predicates rdErr/gerr over value origins.",
		Technique:   "static analysis: must-facts dataflow over go/cfg with error-origin predicates, accept-set duals, callee allow-lists",
		Rules:       []string{"E1"},
		Run: func(c *Ctx) {
			RunE1(c, "C03", obs)
			RunAllowedCallees(c, "E7.redirect.match-operators",
				[]string{"op.checkURIAgainstRedirects", "op.ValidateAuthReqRedirectURI", "op.validateAuthReqRedirectURINative", "op.equalURI", "op.HTTPLoopbackOrLocalhost", "op.ValidateEndSessionPostLogoutRedirectURI"},
				[]string{"slices.Contains", "slices.ContainsFunc", "slices.Index", "slices.IndexFunc", "doublestar.Match", "path.Match", "strings.HasPrefix", "url.Parse", "net.ParseIP", "IsLoopback", "Hostname",
					"RedirectURIs", "RedirectURIGlobs", "PostLogoutRedirectURIs", "PostLogoutRedirectURIGlobs", "ApplicationType", "DevMode",
					"op.IsConfidentialType", "op.checkURIAgainstRedirects", "op.validateAuthReqRedirectURINative", "op.HTTPLoopbackOrLocalhost", "op.equalURI",
					"oidc.ErrInvalidRequestRedirectURI", "oidc.ErrServerError", "oidc.ErrInvalidRequest", "WithDescription", "WithParent"},
				"redirect matching may use only ==, opted-in globs and loopback equalURI")
			RunCallers(c, "E1.redirect.error-redirector-table", "op.AuthRequestError",
				[]string{"op.Authorize", "op.AuthorizeCallback", "op.AuthResponse", "op.AuthResponseCode", "op.AuthResponseToken"}, "callers of the error redirector need an obligation; AuthResponse* receive the stored request")
			RunCallers(c, "E1.redirect.try-table", "op.TryErrorRedirect", []string{"op.(*LegacyServer).Authorize"}, "the Server-side error redirector runs after webServer.authorize's validation")
			RunCallers(c, "E1.redirect.response-table", "op.AuthResponse", []string{"op.AuthorizeCallback"}, "success responses are produced for stored requests only")
		},
	})
}
