package main

// E5 — error discipline.  R-discard: a value of an error type that is built and then dropped (expression statement),
// or an error result assigned to the blank identifier from an in-module / storage call.

import (
	"fmt"
	"go/ast"
	"go/types"
	"strings"

	"golang.org/x/tools/go/types/typeutil"
)

func errorLike(t types.Type) bool {
	if t == nil {
		return false
	}
	et := types.Universe.Lookup("error").Type()
	if types.Identical(t, et) {
		return true
	}
	iface := et.Underlying().(*types.Interface)
	if types.Implements(t, iface) {
		return true
	}
	if _, isPtr := t.(*types.Pointer); !isPtr && types.Implements(types.NewPointer(t), iface) {
		return true
	}
	return false
}

// RunDiscard reports error values that are computed and dropped, in the given packages (short names).
func RunDiscard(c *Ctx, prop string, pkgs []string) {
	in := map[string]bool{}
	for _, p := range pkgs {
		in[p] = true
	}
	n := 0
	for _, fi := range c.P.Funcs {
		if fi.Body == nil || (!in[shortPkg(fi.Pkg.PkgPath)] && !fi.Ctl) {
			continue
		}
		info := fi.Pkg.TypesInfo
		ord := 0
		ast.Inspect(fi.Body, func(nd ast.Node) bool {
			if lit, ok := nd.(*ast.FuncLit); ok && lit != fi.Lit {
				return false
			}
			switch s := nd.(type) {
			case *ast.ExprStmt:
				call, ok := unparen(s.X).(*ast.CallExpr)
				if !ok {
					return true
				}
				tv, ok := info.Types[call]
				if !ok {
					return true
				}
				// single error-like result dropped
				var results []types.Type
				if tup, ok := tv.Type.(*types.Tuple); ok {
					for i := 0; i < tup.Len(); i++ {
						results = append(results, tup.At(i).Type())
					}
				} else if tv.Type != nil {
					results = []types.Type{tv.Type}
				}
				hasErr := false
				for _, r := range results {
					if errorLike(r) {
						hasErr = true
					}
				}
				if !hasErr {
					return true
				}
				fn, _ := typeutil.Callee(info, call).(*types.Func)
				name := "dynamic call"
				mod := false
				if fn != nil {
					name = calleeName(fn)
					mod = fn.Pkg() != nil && inModule(fn.Pkg().Path())
				} else {
					// package-level func variables of the module (oidc.ErrInvalidRequest) and method chains on them
					mod = true
				}
				if fn != nil && !mod {
					// calls on in-module error builders: e.WithDescription(...) as a statement
					if sig, ok := fn.Type().(*types.Signature); ok && sig.Recv() != nil {
						mod = false
					}
					// stdlib / third-party calls whose error is ignored are outside this rule except writes handled by E2
					return true
				}
				n++
				ord++
				c.R.Obl(Obligation{Rule: "E5.R-discard", Func: fi.Name, Construct: fmt.Sprintf("dropped result of %s#%d", name, ord), Pos: c.P.Position(call.Pos()), Discharged: false, Nontrivial: true, Ctl: fi.Ctl})
				c.R.Find(Finding{Rule: "E5.R-discard", Func: fi.Name, Construct: "error value built and dropped: " + name, Pos: c.P.Position(call.Pos()),
					Msg: fmt.Sprintf("the error-typed result of %s is computed and discarded (neither returned nor written): the failure it describes is silently ignored", types.ExprString(call)), Ctl: fi.Ctl})
			}
			return true
		})
		c.R.Obl(Obligation{Rule: "E5.R-discard", Func: fi.Name, Construct: "no dropped error values", Pos: c.P.Position(fi.Pos()), Discharged: true, Nontrivial: false, Ctl: fi.Ctl})
	}
	_ = n
}

// ------------------------------------------------------------------------------------------------
// R-storage (C10): no error of a call into the pluggable storage is dropped, and nothing is granted on its error edge.

var storageDeclFiles = map[string]bool{"storage.go": true, "keys.go": true, "discovery.go": true, "verifier_jwt_profile.go": true, "probes.go": false}

func isStorageMethod(c *Ctx, fn *types.Func) bool {
	if fn == nil || fn.Pkg() == nil || shortPkg(fn.Pkg().Path()) != "op" {
		return false
	}
	sig, _ := fn.Type().(*types.Signature)
	if sig == nil || sig.Recv() == nil || !types.IsInterface(sig.Recv().Type()) {
		return false
	}
	file := c.P.Fset.Position(fn.Pos()).Filename
	base := file[strings.LastIndex(file, "/")+1:]
	return storageDeclFiles[base]
}

// grant sinks: calls that issue tokens or deliver a success document
var grantSinkCalls = map[string]bool{
	"op.CreateTokenResponse": true, "op.CreateAccessToken": true, "op.CreateIDToken": true, "op.CreateJWT": true, "op.CreateBearerToken": true,
	"op.CreateDeviceTokenResponse": true, "op.CreateJWTTokenResponse": true, "op.CreateClientCredentialsTokenResponse": true, "op.CreateTokenExchangeResponse": true,
	"op.AuthResponse": true, "op.AuthResponseCode": true, "op.AuthResponseToken": true, "op.AuthResponseFormPost": true, "op.RedirectToLogin": true,
	"op.NewResponse": true, "crypto.Sign": true,
}

type storageException struct{ fn, call, why string }

var storageFallbacks = []storageException{
	{"op.GetTokenIDAndSubjectFromToken", "TokenRequestByRefreshToken", "a refresh token unknown to the storage falls through to the storage's own TokenExchangeTokensVerifierStorage; success then rests on that second, successful storage call"},
	{"op.(*LegacyServer).Introspect", "SetIntrospectionFromToken", "the still-inactive response (Active is never set on this edge, C08) is returned: 'inactive' is the mandated answer"},
}

func RunStorageErrors(c *Ctx) {
	e := c.e1()
	allowed := map[string]string{}
	usedAllowed := map[string]bool{}
	for _, x := range storageFallbacks {
		allowed[x.fn+"|"+x.call] = x.why
	}
	nCalls := 0
	for _, fi := range c.P.Funcs {
		if fi.Body == nil || (shortPkg(fi.Pkg.PkgPath) != "op" && !fi.Ctl) {
			continue
		}
		info := fi.Pkg.TypesInfo
		// 1. dropped storage errors (expression statements / blank assignments)
		pm := buildParents(fi.Body)
		type scall struct {
			call *ast.CallExpr
			fn   *types.Func
		}
		var calls []scall
		ast.Inspect(fi.Body, func(n ast.Node) bool {
			if lit, ok := n.(*ast.FuncLit); ok && lit != fi.Lit {
				return false
			}
			call, ok := n.(*ast.CallExpr)
			if !ok {
				return true
			}
			fn, _ := typeutil.Callee(info, call).(*types.Func)
			if fn == nil || (!isStorageMethod(c, fn) && !(fi.Ctl && fn.Name() == "ctlStorageCall")) {
				return true
			}
			calls = append(calls, scall{call, fn})
			return true
		})
		if len(calls) == 0 {
			continue
		}
		var f *e1func
		for _, sc := range calls {
			sig := sc.fn.Type().(*types.Signature)
			sidx, _ := statusIndex(sig)
			hasErr := false
			for i := 0; i < sig.Results().Len(); i++ {
				if isErrorType(sig.Results().At(i).Type()) {
					hasErr = true
					sidx = i
				}
			}
			if !hasErr {
				continue
			}
			nCalls++
			construct := "storage call " + sc.fn.Name()
			pos := c.P.Position(sc.call.Pos())
			// how is the result consumed?
			dropped := ""
			switch p := pm[sc.call].(type) {
			case *ast.ExprStmt:
				dropped = "its results are discarded"
			case *ast.AssignStmt:
				if len(p.Rhs) == 1 && sidx < len(p.Lhs) {
					if id, ok := p.Lhs[sidx].(*ast.Ident); ok && id.Name == "_" {
						dropped = "its error is assigned to the blank identifier"
					}
				}
			case *ast.GoStmt, *ast.DeferStmt:
				dropped = "it runs in a go/defer statement and its error is lost"
			}
			if dropped != "" {
				c.R.Obl(Obligation{Rule: "E5.R-storage", Func: fi.Name, Construct: construct + " (error consumed)", Pos: pos, Discharged: false, Nontrivial: true, Ctl: fi.Ctl})
				c.R.Find(Finding{Rule: "E5.R-storage", Func: fi.Name, Construct: "dropped error of " + construct, Pos: pos,
					Msg: fmt.Sprintf("the error of %s is dropped (%s): a storage failure at this point would go unnoticed", types.ExprString(sc.call), dropped), Ctl: fi.Ctl})
				continue
			}
			// 1b. the error must be examined (read) on every path before it is overwritten or the function ends
			if p, ok := pm[sc.call].(*ast.AssignStmt); ok && len(p.Rhs) == 1 && sidx < len(p.Lhs) {
				if id, ok := p.Lhs[sidx].(*ast.Ident); ok && id.Name != "_" {
					v := info.Defs[id]
					if v == nil {
						v = info.Uses[id]
					}
					if v != nil {
						if where := errUnexamined(fi, p, v); where != "" {
							c.R.Obl(Obligation{Rule: "E5.R-storage", Func: fi.Name, Construct: construct + " (error examined)", Pos: pos, Discharged: false, Nontrivial: true, Ctl: fi.Ctl})
							c.R.Find(Finding{Rule: "E5.R-storage", Func: fi.Name, Construct: "unexamined error of " + construct, Pos: pos,
								Msg: fmt.Sprintf("the error of %s is stored in %s but %s before anything reads it: a storage failure at this point goes unnoticed", types.ExprString(sc.call), v.Name(), where), Ctl: fi.Ctl})
							continue
						}
					}
				}
			}
			// 1c. a storage call inside a deferred closure: its error reaches the caller only through a named result of the
			// enclosing function (an assignment to any other captured variable happens after the return values were evaluated)
			if fi.Lit != nil && fi.Parent != nil && fi.Parent.Body != nil && isDeferredLit(fi.Parent, fi.Lit) {
				if p, ok := pm[sc.call].(*ast.AssignStmt); ok && len(p.Rhs) == 1 && sidx < len(p.Lhs) {
					if id, ok := p.Lhs[sidx].(*ast.Ident); ok && id.Name != "_" {
						v := info.Defs[id]
						if v == nil {
							v = info.Uses[id]
						}
						if v != nil && !flowsToNamedResult(fi, v) {
							c.R.Obl(Obligation{Rule: "E5.R-storage", Func: fi.Name, Construct: construct + " (deferred: error reaches a named result)", Pos: pos, Discharged: false, Nontrivial: true, Ctl: fi.Ctl})
							c.R.Find(Finding{Rule: "E5.R-storage", Func: fi.Name, Construct: "lost error of deferred " + construct, Pos: pos,
								Msg: fmt.Sprintf("%s runs in a deferred closure and its error is not assigned to a named result of the enclosing function: the return values are already evaluated, a storage failure at this point goes unnoticed", types.ExprString(sc.call)), Ctl: fi.Ctl})
							continue
						}
					}
				}
			}
			// 2. nothing is granted on the error edge
			if f == nil {
				f = e.analyse(fi)
			}
			if f.widened {
				// the path-sensitive state set was collapsed: a "fail" fact may have been lost, the rule cannot decide
				c.R.Find(Finding{Rule: "E5.R-storage", Func: fi.Name, Construct: "undecided (state explosion) for " + construct, Pos: pos,
					Msg: "the path-state set of " + fi.Name + " exceeded the engine's cap and was widened; the error-edge rule cannot be decided for this function (raise e1StateCap or split the function)", Ctl: fi.Ctl})
				continue
			}
			ct := f.tb.callTerm(sc.call)
			failKey := fact("fail", ct).Key()
			var bad *e1site
			var badState *fstate
			for _, s := range f.sites {
				isSink := false
				switch s.kind {
				case "call":
					isSink = grantSinkCalls[s.term.S] && s.term.K == "call"
					if s.term.K == "call" && s.term.S == "httphelper.MarshalJSON" && len(s.term.A) == 2 && s.term.A[1].K != "nil" {
						isSink = true
						// the introspection document is inactive unless Active was stored (its own sink)
						if ce, ok := s.node.(*ast.CallExpr); ok && len(ce.Args) == 2 {
							if t := info.TypeOf(ce.Args[1]); t != nil && strings.HasSuffix(typeStr(t), "oidc.IntrospectionResponse") {
								isSink = false
							}
						}
					}
				case "store":
					if len(s.term.A) == 2 && s.term.A[0].K == "sel" && s.term.A[0].S == "Active" && s.term.A[1].K == "const" && s.term.A[1].S == "true" {
						isSink = true
					}
				case "ret":
					isSink = f.errIdx >= 0 // success returns of status-returning functions (checked per state below)
					// an error redirect to the validated redirect URI is one of the permitted error answers
					if len(s.term.A) > 0 && s.term.A[0].K == "res" && len(s.term.A[0].A) == 1 && s.term.A[0].A[0].K == "call" && s.term.A[0].A[0].S == "op.TryErrorRedirect" {
						isSink = false
					}
				}
				if !isSink {
					continue
				}
				for i, st := range s.states {
					if s.kind == "ret" && !s.ok[i] {
						continue
					}
					if _, failed := st.facts[failKey]; !failed {
						continue
					}
					// sentinel-classified errors (errors.Is(err, X) edge) are an explicit decision of the code
					sentinel := false
					for _, fc := range st.facts {
						if fc.S == "errIs" && len(fc.A) == 2 && fc.A[0].Key() == ct.Key() {
							sentinel = true
						}
					}
					if sentinel {
						continue
					}
					bad, badState = s, st
					break
				}
				if bad != nil {
					break
				}
			}
			ak := fi.Name + "|" + sc.fn.Name()
			if bad != nil {
				if why, ok := allowed[ak]; ok {
					usedAllowed[ak] = true
					c.R.Obl(Obligation{Rule: "E5.R-storage", Func: fi.Name, Construct: construct + " (reviewed fallback)", Pos: pos, Discharged: true, Nontrivial: true, How: []string{why}, Ctl: fi.Ctl})
					continue
				}
				c.R.Obl(Obligation{Rule: "E5.R-storage", Func: fi.Name, Construct: construct + " (error edge grants nothing)", Pos: pos, Discharged: false, Nontrivial: true, Ctl: fi.Ctl})
				c.R.Find(Finding{Rule: "E5.R-storage", Func: fi.Name, Construct: "grant on the error edge of " + construct, Pos: c.P.Position(bad.pos),
					Msg:  fmt.Sprintf("after %s failed, `%s` is still reachable in %s: a storage failure must end the request with an error and grant nothing", types.ExprString(sc.call), bad.term, fi.Name),
					Path: append([]string{"entry"}, append(badState.trail(), "sink@"+c.P.Position(bad.pos))...), Ctl: fi.Ctl})
				continue
			}
			c.R.Obl(Obligation{Rule: "E5.R-storage", Func: fi.Name, Construct: construct + " (error edge grants nothing)", Pos: pos, Discharged: true, Nontrivial: true,
				How: []string{"no token-creating call, success document, Active=true store or success return is reachable in a path state carrying fail(" + ct.String() + ")"}, Ctl: fi.Ctl})
		}
	}
	// 2b. storage calls made inside helpers that the validated tree does not have are interpreted in place in their callers
	// (E1): a caller that goes on to a grant sink after such a call failed - a retry, a fallback to remembered data, a second
	// attempt - is the same violation, seen through the event fact didFail(<method>).
	{
		helpers := c.helpers()
		storageIn := map[*types.Func]bool{} // post-baseline helpers that (transitively) call into the storage
		methods := map[string]bool{}
		for iter := 0; iter < 3; iter++ {
			for _, fi := range c.P.Funcs {
				if fi.Body == nil || fi.Obj == nil || helpers[fi.Obj] == nil || storageIn[fi.Obj] {
					continue
				}
				info := fi.Pkg.TypesInfo
				ast.Inspect(fi.Body, func(n ast.Node) bool {
					if call, ok := n.(*ast.CallExpr); ok {
						if fn, _ := typeutil.Callee(info, call).(*types.Func); fn != nil {
							if isStorageMethod(c, fn) {
								storageIn[fi.Obj] = true
								methods[fn.Name()] = true
							} else if storageIn[fn.Origin()] {
								storageIn[fi.Obj] = true
							}
						}
					}
					return true
				})
			}
		}
		if len(storageIn) > 0 {
			for _, fi := range c.P.Funcs {
				if fi.Body == nil || fi.Ctl || fi.Lit != nil || shortPkg(fi.Pkg.PkgPath) != "op" {
					continue
				}
				info := fi.Pkg.TypesInfo
				callsHelper := false
				ast.Inspect(fi.Body, func(n ast.Node) bool {
					if call, ok := n.(*ast.CallExpr); ok {
						if fn, _ := typeutil.Callee(info, call).(*types.Func); fn != nil && storageIn[fn.Origin()] {
							callsHelper = true
						}
					}
					return !callsHelper
				})
				if !callsHelper {
					continue
				}
				f := e.analyse(fi)
				if f.widened {
					continue
				}
				for _, st0 := range f.sites {
					isSink := false
					switch st0.kind {
					case "call":
						isSink = grantSinkCalls[st0.term.S] && st0.term.K == "call"
						if st0.term.K == "call" && st0.term.S == "httphelper.MarshalJSON" && len(st0.term.A) == 2 && st0.term.A[1].K != "nil" {
							isSink = true
							if ce, ok := st0.node.(*ast.CallExpr); ok && len(ce.Args) == 2 {
								if t := fi.Pkg.TypesInfo.TypeOf(ce.Args[1]); t != nil && strings.HasSuffix(typeStr(t), "oidc.IntrospectionResponse") {
									isSink = false
								}
							}
						}
					case "store":
						if len(st0.term.A) == 2 && st0.term.A[0].K == "sel" && st0.term.A[0].S == "Active" && st0.term.A[1].K == "const" && st0.term.A[1].S == "true" {
							isSink = true
						}
					case "ret":
						isSink = f.errIdx >= 0
					}
					if !isSink {
						continue
					}
					reported := false
					for i, st := range st0.states {
						if reported || (st0.kind == "ret" && !st0.ok[i]) {
							continue
						}
						for _, fc := range st.facts {
							if fc.S != "didFail" || len(fc.A) != 1 || !methods[fc.A[0].S] {
								continue
							}
							m := fc.A[0].S
							// a failure the code classified with errors.Is(err, <sentinel>) is an explicit decision
							sentinel := false
							for _, g := range st.facts {
								if g.S == "errIs" && len(g.A) == 2 {
									g.A[0].walk(func(x *Term) bool {
										if x.K == "mcall" && x.S == m {
											sentinel = true
										}
										return !sentinel
									})
								}
							}
							if st.has(fact("didErrIs", mk("const", m))) {
								sentinel = true
							}
							if sentinel {
								continue
							}
							if _, ok := allowed[fi.Name+"|"+m]; ok {
								usedAllowed[fi.Name+"|"+m] = true
								continue
							}
							reported = true
							c.R.Obl(Obligation{Rule: "E5.R-storage", Func: fi.Name, Construct: "storage call " + m + " in a helper (error edge grants nothing)", Pos: c.P.Position(st0.pos), Discharged: false, Nontrivial: true})
							c.R.Find(Finding{Rule: "E5.R-storage", Func: fi.Name, Construct: "grant after a failed " + m + " (through a helper)", Pos: c.P.Position(st0.pos),
								Msg:  fmt.Sprintf("after a call of Storage.%s failed (inside a helper of %s), `%s` is still reachable: a storage failure must end the request with an error and grant nothing - no retry, no remembered result", m, fi.Name, st0.term),
								Path: append([]string{"entry"}, append(st.trail(), "sink@"+c.P.Position(st0.pos))...)})
							break
						}
					}
				}
			}
		}
	}
	c.R.Extra["storage_call_sites"] = nCalls
	for k := range allowed {
		if !usedAllowed[k] {
			c.R.Extra["storage_fallback_unused:"+k] = true
		}
	}
}


// errUnexamined: starting after the statement `def` (which assigns v), is there a CFG path on which v is
// overwritten, or the function ends, before any node reads v?  Returns a description of the first such event, or "".
func errUnexamined(fi *FuncInfo, def ast.Stmt, v types.Object) string {
	g := fi.CFG()
	if g == nil {
		return ""
	}
	info := fi.Pkg.TypesInfo
	// the other results of the same call: testing one of them in a condition examines the call's outcome too
	siblings := map[types.Object]bool{}
	if as, ok := def.(*ast.AssignStmt); ok {
		for _, l := range as.Lhs {
			if id, ok := unparen(l).(*ast.Ident); ok && id.Name != "_" {
				o := info.Defs[id]
				if o == nil {
					o = info.Uses[id]
				}
				if o != nil && o != v {
					siblings[o] = true
				}
			}
		}
	}
	reads := func(n ast.Node) bool {
		found := false
		var lhs map[*ast.Ident]bool
		if as, ok := n.(*ast.AssignStmt); ok {
			lhs = map[*ast.Ident]bool{}
			for _, l := range as.Lhs {
				if id, ok := unparen(l).(*ast.Ident); ok {
					lhs[id] = true
				}
			}
		}
		_, isCond := n.(ast.Expr)
		ast.Inspect(n, func(m ast.Node) bool {
			if id, ok := m.(*ast.Ident); ok && !lhs[id] {
				if info.Uses[id] == v || (isCond && siblings[info.Uses[id]]) {
					found = true
				}
			}
			return !found
		})
		return found
	}
	writes := func(n ast.Node) bool {
		if as, ok := n.(*ast.AssignStmt); ok {
			for _, l := range as.Lhs {
				if id, ok := unparen(l).(*ast.Ident); ok && (info.Uses[id] == v || info.Defs[id] == v) {
					return true
				}
			}
		}
		return false
	}
	// named results are read by a bare return / at function exit
	isResult := false
	if fi.Sig != nil {
		for i := 0; i < fi.Sig.Results().Len(); i++ {
			if fi.Sig.Results().At(i) == v {
				isResult = true
			}
		}
	}
	// locate the defining node
	startB, startI := -1, -1
	for _, b := range g.Blocks {
		for i, n := range b.Nodes {
			if n == ast.Node(def) {
				startB, startI = int(b.Index), i
			}
		}
	}
	if startB < 0 {
		return ""
	}
	type item struct{ b, i int }
	seen := map[int]bool{}
	var walk func(b, i int) string
	walk = func(bi, from int) string {
		b := g.Blocks[bi]
		for i := from; i < len(b.Nodes); i++ {
			n := b.Nodes[i]
			if reads(n) {
				return ""
			}
			if rs, ok := n.(*ast.ReturnStmt); ok {
				if isResult && len(rs.Results) == 0 {
					return ""
				}
				return fmt.Sprintf("the function returns at line %d", fi.Pkg.Fset.Position(rs.Pos()).Line)
			}
			if writes(n) {
				return fmt.Sprintf("is overwritten at line %d", fi.Pkg.Fset.Position(n.Pos()).Line)
			}
		}
		if len(b.Succs) == 0 {
			if isResult {
				return ""
			}
			return "the function ends"
		}
		for _, s := range b.Succs {
			if seen[int(s.Index)] {
				continue
			}
			seen[int(s.Index)] = true
			if w := walk(int(s.Index), 0); w != "" {
				return w
			}
		}
		return ""
	}
	return walk(startB, startI+1)
}

// RunErrorsExamined (E5.R-examined): the error result of any call that is stored in a variable must be read on every
// path before that variable is overwritten or the function ends (a guard that silently disappears leaves the
// accompanying results - often nil - in use).
func RunErrorsExamined(c *Ctx, pkgs []string) {
	in := map[string]bool{}
	for _, p := range pkgs {
		in[p] = true
	}
	n := 0
	for _, fi := range c.P.Funcs {
		if fi.Body == nil || (!in[shortPkg(fi.Pkg.PkgPath)] && !fi.Ctl) {
			continue
		}
		info := fi.Pkg.TypesInfo
		ast.Inspect(fi.Body, func(nd ast.Node) bool {
			if lit, ok := nd.(*ast.FuncLit); ok && lit != fi.Lit {
				return false
			}
			as, ok := nd.(*ast.AssignStmt)
			if !ok || len(as.Rhs) != 1 {
				return true
			}
			call, ok := unparen(as.Rhs[0]).(*ast.CallExpr)
			if !ok {
				return true
			}
			// an error value that is *built* (oidc.ErrX().With..., fmt.Errorf, errors.New) is not the outcome of an operation
			// that may have failed: keeping it in a variable for a later return is not an ignored failure
			{
				tb := &termBuilder{info: info, inl: map[types.Object]ast.Expr{}, fset: c.P.Fset}
				if (&e1func{}).neverNil(tb.callTerm(call), nil) {
					return true
				}
			}
			for _, l := range as.Lhs {
				id, ok := unparen(l).(*ast.Ident)
				if !ok || id.Name == "_" {
					continue
				}
				v := info.Defs[id]
				if v == nil {
					v = info.Uses[id]
				}
				if v == nil || !isErrorType(v.Type()) {
					continue
				}
				n++
				where := errUnexamined(fi, as, v)
				c.R.Obl(Obligation{Rule: "E5.R-examined", Func: fi.Name, Construct: "error of " + types.ExprString(call.Fun), Pos: c.P.Position(call.Pos()), Discharged: where == "", Nontrivial: true, Ctl: fi.Ctl})
				if where != "" {
					c.R.Find(Finding{Rule: "E5.R-examined", Func: fi.Name, Construct: "unexamined error of " + types.ExprString(call.Fun), Pos: c.P.Position(call.Pos()),
						Msg: fmt.Sprintf("the error of %s is stored in %s but %s before anything reads it: the failure is silently ignored and the other results (possibly nil) stay in use", types.ExprString(call), v.Name(), where), Ctl: fi.Ctl})
				}
			}
			return true
		})
	}
	c.R.Extra["error_assignments_examined"] = n
}

// isDeferredLit: lit is the function of a `defer func(){...}()` statement of parent.
func isDeferredLit(parent *FuncInfo, lit *ast.FuncLit) bool {
	found := false
	ast.Inspect(parent.Body, func(n ast.Node) bool {
		if d, ok := n.(*ast.DeferStmt); ok && unparen(d.Call.Fun) == ast.Expr(lit) {
			found = true
		}
		return !found
	})
	return found
}

// flowsToNamedResult: inside closure fi, the error variable v is assigned (directly, wrapped in a call, or through one
// more local) to a named result of an enclosing function.
func flowsToNamedResult(fi *FuncInfo, v types.Object) bool {
	info := fi.Pkg.TypesInfo
	named := map[types.Object]bool{}
	for f := fi.Parent; f != nil; f = f.Parent {
		if f.Sig == nil {
			continue
		}
		for i := 0; i < f.Sig.Results().Len(); i++ {
			if r := f.Sig.Results().At(i); r.Name() != "" && r.Name() != "_" {
				named[r] = true
			}
		}
	}
	carriers := map[types.Object]bool{v: true}
	mentions := func(e ast.Expr) bool {
		hit := false
		ast.Inspect(e, func(n ast.Node) bool {
			if id, ok := n.(*ast.Ident); ok && carriers[info.Uses[id]] {
				hit = true
			}
			return !hit
		})
		return hit
	}
	for round := 0; round < 3; round++ {
		done := false
		ast.Inspect(fi.Body, func(n ast.Node) bool {
			as, ok := n.(*ast.AssignStmt)
			if !ok || len(as.Lhs) != len(as.Rhs) {
				return true
			}
			for i, l := range as.Lhs {
				id, ok := unparen(l).(*ast.Ident)
				if !ok || !mentions(as.Rhs[i]) {
					continue
				}
				o := info.Uses[id]
				if o == nil {
					o = info.Defs[id]
				}
				if named[o] {
					done = true
				} else if o != nil {
					carriers[o] = true
				}
			}
			return true
		})
		if done {
			return true
		}
	}
	return false
}
