package main

// E5 — error discipline.  R-discard: a value of an error type that is built and then dropped (expression statement),
// or an error result assigned to the blank identifier from an in-module / storage call.

import (
	"fmt"
	"go/ast"
	"go/types"

	"golang.org/x/tools/go/types/typeutil"
)

func errorLike(t types.Type) bool {
	if t == nil {
		return false
	}
	et := types.Universe.Lookup("error").Type()
	if types.Identical(t, et) {
		return true
	}
	iface := et.Underlying().(*types.Interface)
	if types.Implements(t, iface) {
		return true
	}
	if _, isPtr := t.(*types.Pointer); !isPtr && types.Implements(types.NewPointer(t), iface) {
		return true
	}
	return false
}

// RunDiscard reports error values that are computed and dropped, in the given packages (short names).
func RunDiscard(c *Ctx, prop string, pkgs []string) {
	in := map[string]bool{}
	for _, p := range pkgs {
		in[p] = true
	}
	n := 0
	for _, fi := range c.P.Funcs {
		if fi.Body == nil || (!in[shortPkg(fi.Pkg.PkgPath)] && !fi.Ctl) {
			continue
		}
		info := fi.Pkg.TypesInfo
		ord := 0
		ast.Inspect(fi.Body, func(nd ast.Node) bool {
			if lit, ok := nd.(*ast.FuncLit); ok && lit != fi.Lit {
				return false
			}
			switch s := nd.(type) {
			case *ast.ExprStmt:
				call, ok := unparen(s.X).(*ast.CallExpr)
				if !ok {
					return true
				}
				tv, ok := info.Types[call]
				if !ok {
					return true
				}
				// single error-like result dropped
				var results []types.Type
				if tup, ok := tv.Type.(*types.Tuple); ok {
					for i := 0; i < tup.Len(); i++ {
						results = append(results, tup.At(i).Type())
					}
				} else if tv.Type != nil {
					results = []types.Type{tv.Type}
				}
				hasErr := false
				for _, r := range results {
					if errorLike(r) {
						hasErr = true
					}
				}
				if !hasErr {
					return true
				}
				fn, _ := typeutil.Callee(info, call).(*types.Func)
				name := "dynamic call"
				mod := false
				if fn != nil {
					name = calleeName(fn)
					mod = fn.Pkg() != nil && inModule(fn.Pkg().Path())
				} else {
					// package-level func variables of the module (oidc.ErrInvalidRequest) and method chains on them
					mod = true
				}
				if fn != nil && !mod {
					// calls on in-module error builders: e.WithDescription(...) as a statement
					if sig, ok := fn.Type().(*types.Signature); ok && sig.Recv() != nil {
						mod = false
					}
					// stdlib / third-party calls whose error is ignored are outside this rule except writes handled by E2
					return true
				}
				n++
				ord++
				c.R.Obl(Obligation{Rule: "E5.R-discard", Func: fi.Name, Construct: fmt.Sprintf("dropped result of %s#%d", name, ord), Pos: c.P.Position(call.Pos()), Discharged: false, Nontrivial: true, Ctl: fi.Ctl})
				c.R.Find(Finding{Rule: "E5.R-discard", Func: fi.Name, Construct: "error value built and dropped: " + name, Pos: c.P.Position(call.Pos()),
					Msg: fmt.Sprintf("the error-typed result of %s is computed and discarded (neither returned nor written): the failure it describes is silently ignored", types.ExprString(call)), Ctl: fi.Ctl})
			}
			return true
		})
		c.R.Obl(Obligation{Rule: "E5.R-discard", Func: fi.Name, Construct: "no dropped error values", Pos: c.P.Position(fi.Pos()), Discharged: true, Nontrivial: false, Ctl: fi.Ctl})
	}
	_ = n
}
