package main

// Specification tables for E1/E8: obligations (facts required at sinks) and their evaluation.

import (
	"fmt"
	"go/types"
	"os"
	"sort"
	"strings"
)

// Ob: in function Fn, every site matching the sink must carry the required clauses on every path.
type Ob struct {
	ID     string   // rule id, e.g. "E1.code.client-bound"
	Fn     string   // FuncInfo name
	P      []string // positional pattern-variable names: receiver first (methods), then parameters
	Kind   string   // "call" | "ret ok" | "ret fail" | "ret any" | "store" | "backedge" | "go"
	Pat    string   // sink pattern (call pattern, ret(...), store(lhs, rhs), backedge(x), go(call))
	Not    string   // optional: sites also matching this pattern are excluded
	Nots   []string // further exclusion patterns
	Min    int      // minimum number of matching sites (default 1)
	Max    int      // maximum (0 = unbounded)
	Req    []string // clauses
	Req0   string   // one more clause, evaluated first (readability of long binding patterns)
	When   []string // selector clauses: the obligation is about the path states of a matching site in which these hold
	Opt    bool     // Min = 0 allowed
	Forbid bool     // every matching site is a violation (expected count zero)
	MutOK  []string // parameters (names from P) that the function may legitimately rebind before the sink
	Why    string
	Only   bool   // kind ret with Pat: every return of that status must have the shape (the function computes nothing else)
	Arity  int    // when set: the obligation is one spelling for a function with that many parameters (receiver included); others count as unmatched
	AltOf  string // obligations with the same AltOf are alternative spellings of one requirement: at least one of them must match a site
}

var allGuars []*Guar

// guarAlso: guarantees whose proof obligation is also part of the verdict of further properties (the property text of
// those properties states the same clause, e.g. C08 "introspection requires the authenticated caller").
var guarAlso = map[string][]string{}

// sharedObs: obligations owned by one property and re-evaluated as part of another (same reason).
var sharedObs = map[string][]Ob{}

func guar(prop, fn string, p []string, facts ...string) {
	allGuars = append(allGuars, &Guar{Prop: prop, Fn: fn, P: p, Facts: facts})
}

// guarP: abstract facts for callers, concrete proof obligations for the function itself.
func guarP(prop, fn string, p []string, facts []string, proof []string) {
	allGuars = append(allGuars, &Guar{Prop: prop, Fn: fn, P: p, Facts: facts, Proof: proof})
}

func paramTerms(fi *FuncInfo, names []string) Bind {
	b := Bind{}
	if fi.Sig == nil {
		return b
	}
	var vars []*types.Var
	if r := fi.Sig.Recv(); r != nil {
		vars = append(vars, r)
	}
	for i := 0; i < fi.Sig.Params().Len(); i++ {
		vars = append(vars, fi.Sig.Params().At(i))
	}
	for i := 0; i < fi.Sig.Results().Len(); i++ {
		if r := fi.Sig.Results().At(i); r.Name() != "" && r.Name() != "_" {
			vars = append(vars, r)
		}
	}
	for i, n := range names {
		if n == "" || i >= len(vars) {
			continue
		}
		b[n] = &Term{K: "var", S: vars[i].Name(), Obj: vars[i]}
	}
	return b
}

func headOf(t *Term) string {
	switch t.K {
	case "call", "mcall":
		return t.S
	case "dyn":
		return "dyn " + t.A[0].String()
	case "ret":
		return "return"
	case "store":
		return "store " + t.A[0].String()
	case "backedge":
		return "loop over " + t.A[0].String()
	case "go":
		return "go " + headOf(t.A[0])
	}
	return t.K
}

// RunE1 evaluates obligations (and the guarantees owned by the property) and reports.
func RunE1(c *Ctx, prop string, obs []Ob) {
	e := c.e1()
	// obligations owned by another property whose clause this property states as well
	{
		seen := map[string]bool{}
		merged := []Ob{}
		for _, o := range append(append([]Ob{}, obs...), sharedObs[prop]...) {
			k := o.ID + "|" + o.Fn + "|" + o.Pat
			if seen[k] {
				continue
			}
			seen[k] = true
			merged = append(merged, o)
		}
		obs = merged
	}
	// guarantees owned by this property are verified as obligations on success returns
	for _, g := range allGuars {
		if g.Prop != prop && !contains(guarAlso[g.Fn], prop) {
			continue
		}
		req := g.Proof
		if req == nil {
			req = g.Facts
		}
		if len(req) == 0 {
			continue // proved by dedicated obligations of the owning property
		}
		if c.P.Fn(g.Fn) == nil && softAnchor(g.Fn) {
			// the guaranteed helper no longer exists: its callers prove the definition of its predicates where they need them
			c.R.Extra["guarantee_holder_gone:"+g.Fn] = true
			continue
		}
		// the function establishes its predicates either by the concrete proof or by obtaining them from another guaranteed
		// function it delegates to
		either := func(facts, proof []string) []string {
			if len(facts) == 0 || len(proof) == 0 {
				return proof
			}
			abstract := true
			for _, fsrc := range facts {
				if factPreds[mustFactPattern(fsrc).S] {
					abstract = false
				}
			}
			if !abstract {
				return proof
			}
			return []string{"(" + strings.Join(facts, " && ") + ") || ((" + strings.Join(proof, ") && (") + "))"}
		}
		obs = append(obs, Ob{ID: "E1.guarantee", Fn: g.Fn, P: g.P, Kind: "ret ok", Req: either(g.Facts, req), Why: "callers assume these facts on the success edge of " + g.Fn})
		if len(g.FailProof) > 0 {
			obs = append(obs, Ob{ID: "E1.guarantee.fail", Fn: g.Fn, P: g.P, Kind: "ret fail", Req: either(g.FailFacts, g.FailProof), Why: "callers assume these facts on the failure edge of " + g.Fn})
		}
	}
	obs = append(obs, leafObs(prop)...)
	obs = append(obs, e1Controls()...)
	// functions the tables talk about are analysed modularly; every other in-module callee is a helper whose body is
	// interpreted in place (e1_inline.go)
	fresh := false
	nrel := len(e.relevant)
	for _, ob := range obs {
		if !e.anchors[ob.Fn] {
			e.anchors[ob.Fn] = true
			fresh = true
		}
		e.addRelevant(ob.Req...)
		e.addRelevant(ob.When...)
		e.addRelevant(ob.Req0)
	}
	if len(e.relevant) != nrel {
		fresh = true
	}
	if fresh {
		e.cache = map[*FuncInfo]*e1func{}
		e.inferred, e.inferring = nil, nil
	}
	altMatched := map[string]int{}
	altFirst := map[string]Ob{}
	for _, ob := range obs {
		if ob.AltOf != "" {
			if _, ok := altFirst[ob.AltOf]; !ok {
				altFirst[ob.AltOf] = ob
			}
			ob.Opt = true
			ob.Min = 0
			altMatched[ob.AltOf] += evalOb(c, e, ob)
			continue
		}
		evalOb(c, e, ob)
	}
	for g, n := range altMatched {
		ob := altFirst[g]
		fi := c.P.Fn(ob.Fn)
		pos := "-"
		if fi != nil {
			pos = c.P.Position(fi.Pos())
		}
		c.R.Obl(Obligation{Rule: g, Func: ob.Fn, Construct: "one of the accepted spellings is present", Pos: pos, Discharged: n > 0, Nontrivial: true})
		if n == 0 {
			c.R.Find(Finding{Rule: g, Func: ob.Fn, Construct: "required shape absent (all alternatives)", Pos: pos,
				Msg: fmt.Sprintf("%s contains none of the accepted spellings of requirement %s%s (e.g. `%s %s`): the values are no longer routed this way", ob.Fn, g, whySuffix(ob.Why), ob.Kind, ob.Pat)})
		}
	}
}

func (c *Ctx) e1() *e1 {
	if c.e1eng == nil {
		c.e1eng = newE1(c, allGuars)
	}
	return c.e1eng
}

func evalOb(c *Ctx, e *e1, ob Ob) (nMatched int) {
	fi := c.P.Fn(ob.Fn)
	if (fi == nil || fi.Body == nil) && softAnchor(ob.Fn) && !strings.Contains(ob.Fn, "zzverifctl") {
		// An internal helper the tables describe no longer exists (inlined into its callers, split, or renamed with another
		// signature).  Its sinks now sit in other functions of the package: a sink obligation is evaluated wherever the sink
		// pattern occurs (parameters unbound); an obligation about the helper's own returns has no subject any more - what its
		// callers relied on is proved at their sites through the definitions of the abstract predicates.
		kind := strings.Fields(ob.Kind)[0]
		c.R.Extra["obligation_holder_gone:"+ob.Fn] = true
		if kind == "ret" || ob.Pat == "" {
			return 1
		}
		pkg := ob.Fn
		if i := strings.Index(pkg, "."); i >= 0 {
			pkg = pkg[:i]
		}
		total := 0
		for _, g := range c.P.Funcs {
			if g.Decl == nil || g.Ctl || g.Body == nil || shortPkg(g.Pkg.PkgPath) != pkg {
				continue
			}
			ob2 := ob
			ob2.Fn, ob2.P, ob2.Opt, ob2.Min, ob2.Max, ob2.MutOK = g.Name, nil, true, 0, 0, nil
			total += evalOb(c, e, ob2)
		}
		if total == 0 && !ob.Forbid && !ob.Opt && ob.AltOf == "" {
			c.R.Find(Finding{Rule: ob.ID, Func: ob.Fn, Construct: "required shape absent: " + ob.Kind + " " + ob.Pat, Pos: "-",
				Msg: fmt.Sprintf("%s no longer exists and no function of package %s contains a site of the shape `%s %s`%s: the values are no longer routed this way", ob.Fn, pkg, ob.Kind, ob.Pat, whySuffix(ob.Why))})
		}
		return total
	}
	if fi == nil || fi.Body == nil {
		c.R.Fail("anchor-unresolved", ob.Fn, ob.ID, fmt.Sprintf("function %s named by rule %s not found in the tree: re-point the specification", ob.Fn, ob.ID))
		return 0
	}
	if ob.Arity != 0 && fi.Sig != nil {
		n := fi.Sig.Params().Len()
		if fi.Sig.Recv() != nil {
			n++
		}
		if n != ob.Arity {
			return 0
		}
	}
	f := e.analyse(fi)
	var pat *Term
	var nots []*Term
	if ob.Pat != "" {
		pat = mustPattern(ob.Pat)
	}
	if ob.Not != "" {
		nots = append(nots, mustPattern(ob.Not))
	}
	for _, n := range ob.Nots {
		nots = append(nots, mustPattern(n))
	}
	var clauses []Clause
	if ob.Req0 != "" {
		clauses = append(clauses, mustClause(ob.Req0))
	}
	for _, r := range ob.Req {
		clauses = append(clauses, mustClause(r))
	}
	var when []Clause
	for _, w := range ob.When {
		when = append(when, mustClause(w))
	}
	base := paramTerms(fi, ob.P)
	kind := strings.Fields(ob.Kind)[0]
	// the value that is checked must be the caller's value: parameters the rule talks about are not rebound
	if len(clauses) > 0 && !ob.Forbid {
		used := strings.Join(ob.Req, " ") + " " + ob.Req0 + " " + ob.Pat
		nparams := 0
		if fi.Sig != nil {
			nparams = fi.Sig.Params().Len()
			if fi.Sig.Recv() != nil {
				nparams++
			}
		}
		for i, name := range ob.P {
			if name == "" || contains(ob.MutOK, name) || i >= nparams {
				continue
			}
			v, bound := base[name]
			if !bound || !strings.Contains(used, "$"+name) {
				continue
			}
			if rebindable(v.Obj.Type()) {
				continue
			}
			_ = i
			clauses = append(clauses, mustClause("orig($"+name+")"))
		}
	}
	matched := 0
	defer func() { nMatched = matched }()
	ord := map[string]int{}
	_ = ob.Max
	var otherRets []*e1site // returns of the obligation's status that do not have the required shape
	for _, s := range f.sites {
		if s.kind != kind {
			continue
		}
		// variants: the bindings under which this site matches the sink pattern, each with the path states it holds for.
		// The spelled term is tried first (all states); otherwise every state is tried with the candidate spellings of the
		// value the sink receives on *that* path (temporaries replaced by their definitions, helper calls by the value they
		// returned): `return err` after a helper that returned ErrX on one path and ErrY on another is two different sinks.
		type variant struct {
			b   Bind
			idx []int
		}
		var variants []variant
		allIdx := make([]int, len(s.states))
		for i := range s.states {
			allIdx[i] = i
		}
		candCache := map[int][]*Term{}
		candsOf := func(i int) []*Term {
			if c, ok := candCache[i]; ok {
				return c
			}
			st := s.term
			cands := f.expandDefs(s.states[i], st)
			if r := expandReturned(s.states[i], st); r != nil {
				cands = append(cands, r)
				cands = append(cands, f.expandDefs(s.states[i], r)...)
			}
			// definitions first, then the value the defining helper call returned on this path
			for _, d := range append([]*Term{}, cands...) {
				if r := expandReturned(s.states[i], d); r != nil {
					cands = append(cands, r)
				}
			}
			// a variable that equals a package-level value on this path (`return err` with eq(err, ErrX))
			if r := expandVarEq(s.states[i], st); r != nil {
				cands = append(cands, r)
			}
			if nf := normalForm(s.states[i], st); nf != nil {
				cands = append(cands, nf)
			}
			cands = append(cands, rewriteClosure(s.states[i], st, 160)...)
			candCache[i] = cands
			return cands
		}
		if pat == nil {
			variants = []variant{{base.clone(), allIdx}}
		} else {
			st := s.term
			b0 := base.clone()
			if unify(pat, st, b0) {
				variants = []variant{{b0, allIdx}}
			} else {
				byKey := map[string]int{}
				for i := range s.states {
					cands := candsOf(i)
					for _, x := range cands {
						nb := base.clone()
						if unify(pat, x, nb) {
							k := bindKey(nb)
							if vi, ok := byKey[k]; ok {
								variants[vi].idx = append(variants[vi].idx, i)
							} else {
								byKey[k] = len(variants)
								variants = append(variants, variant{nb, []int{i}})
							}
							break
						}
					}
				}
				if len(variants) == 0 {
					if os.Getenv("E1DEBUGOB") == ob.ID {
						fmt.Fprintf(os.Stderr, "  %s: no match %s (chain %q) base=%v\n", ob.ID, st, s.chain, base)
						if os.Getenv("E1DEBUGFACTS") != "" && len(s.states) > 0 && strings.Contains(st.String(), os.Getenv("E1DEBUGFACTS")) {
							for _, k := range s.states[0].sortedKeys() {
								fmt.Fprintf(os.Stderr, "      %s\n", k)
							}
						}
					}
					if kind == "ret" && s.chain == "" {
						for i := range s.states {
							if ob.Kind == "ret any" || (ob.Kind == "ret ok" && s.ok[i]) || (ob.Kind == "ret fail" && !s.ok[i]) {
								otherRets = append(otherRets, s)
								break
							}
						}
					}
					continue
				}
			}
		}
		siteCounted := false
		for _, vr := range variants {
			b := vr.b
			excluded := false
			for _, np := range nots {
				nb := base.clone()
				if unify(np, s.term, nb) {
					excluded = true
				}
			}
			if excluded {
				continue
			}
			if len(nots) > 0 && pat != nil {
				// a state in which the sink receives a value of an excluded shape is not this obligation's business either
				var keep []int
				for _, i := range vr.idx {
					hit := false
					for _, x := range candsOf(i) {
						for _, np := range nots {
							if unify(np, x, base.clone()) {
								hit = true
							}
						}
					}
					if !hit {
						keep = append(keep, i)
					}
				}
				if len(keep) == 0 {
					continue
				}
				vr.idx = keep
			}
			if kind == "ret" {
				for i, op := range s.term.A {
					b[fmt.Sprint("r", i)] = op
				}
			}
			// choose the states this obligation is about
			var states []*fstate
			for _, i := range vr.idx {
				st := s.states[i]
				switch ob.Kind {
				case "ret ok":
					if !s.ok[i] {
						continue
					}
				case "ret fail":
					if s.ok[i] {
						continue
					}
				}
				if len(when) > 0 {
					if r := solve(st, when, b); !r.ok {
						continue
					}
				}
				states = append(states, st)
			}
			if len(states) == 0 {
				continue
			}
			if ob.Forbid {
				if !siteCounted {
					matched++
					siteCounted = true
				}
				c.R.Find(Finding{Rule: ob.ID, Func: fi.Name, Construct: "forbidden " + ob.Kind + " " + headOf(s.term), Pos: c.P.Position(s.pos),
					Msg: fmt.Sprintf("`%s` in %s matches the forbidden pattern `%s`%s", s.term, fi.Name, ob.Pat, whySuffix(ob.Why)), Ctl: fi.Ctl})
				continue
			}
			if !siteCounted {
				matched++
				siteCounted = true
			}
			head := headOf(s.term)
			ord[head]++
			construct := fmt.Sprintf("%s %s#%d", ob.Kind, head, ord[head])
			pos := c.P.Position(s.pos)
			discharged := true
			var how []string
			for _, st := range states {
				res := solve(st, clauses, b)
				if !res.ok {
					discharged = false
					c.R.Find(Finding{Rule: ob.ID, Func: fi.Name, Construct: construct + " lacks " + res.failed, Pos: pos,
						Msg:  fmt.Sprintf("sink `%s` in %s is reachable without `%s`%s", s.term, fi.Name, res.failed, whySuffix(ob.Why)),
						Path: append([]string{"entry"}, append(st.trail(), "sink@"+pos)...), Ctl: fi.Ctl})
					break
				}
				if how == nil {
					how = res.used
				}
			}
			if len(how) > 12 {
				how = how[:12]
			}
			c.R.Obl(Obligation{Rule: ob.ID, Func: fi.Name, Construct: construct, Pos: pos, Discharged: discharged, Nontrivial: len(clauses) > 0 && len(how) > 0,
				How: append([]string{fmt.Sprintf("%d path class(es); requires %s", len(states), strings.Join(ob.Req, " ; "))}, how...), Ctl: fi.Ctl})
			c.R.CallSites++
		}
	}
	min := ob.Min
	if min == 0 && !ob.Opt {
		min = 1
	}
	if len(when) > 0 {
		ob.Max = 0
	}
	if kind == "ret" {
		// every return of that status / shape is held to the clauses: how many return statements there are is not a rule
		if min > 1 {
			min = 1
		}
		if len(clauses) > 0 || ob.Pat != "" {
			ob.Max = 0
		}
	}
	if ob.Forbid {
		c.R.Obl(Obligation{Rule: ob.ID, Func: fi.Name, Construct: "no " + ob.Kind + " " + ob.Pat, Pos: c.P.Position(fi.Pos()), Discharged: matched == 0, Nontrivial: true, Ctl: fi.Ctl})
		return matched
	}
	if matched < min {
		if strings.HasPrefix(ob.ID, "E8.") || strings.HasPrefix(ob.ID, "E7.") || (ob.Why != "" && ob.Pat != "") {
			// a binding / table obligation: the required shape itself is the rule
			c.R.Find(Finding{Rule: ob.ID, Func: fi.Name, Construct: "required shape absent: " + ob.Kind + " " + ob.Pat, Pos: c.P.Position(fi.Pos()),
				Msg: fmt.Sprintf("%s must contain %d site(s) of the shape `%s %s`%s; found %d - the values are no longer routed this way (or the construct was renamed: then re-point the rule)", fi.Name, min, ob.Kind, ob.Pat, whySuffix(ob.Why), matched), Ctl: fi.Ctl})
		} else {
			c.R.Find(Finding{Rule: "vacuity", Func: fi.Name, Construct: ob.ID + " " + ob.Kind + " " + ob.Pat, Pos: c.P.Position(fi.Pos()),
				Msg: fmt.Sprintf("rule %s expects at least %d sink(s) `%s %s` in %s but found %d: the sink moved or was renamed (an obligation that cannot be evaluated is not discharged)", ob.ID, min, ob.Kind, ob.Pat, fi.Name, matched), Ctl: fi.Ctl})
		}
	}
	if kind == "ret" && ob.Pat != "" && ob.Only && !ob.Forbid && matched > 0 {
		// "the function returns exactly this" (Only): a further return of the same status with another shape hands back a value
		// the rule does not describe
		for _, o := range otherRets {
			excluded := false
			for _, np := range nots {
				if unify(np, o.term, base.clone()) {
					excluded = true
				}
			}
			if excluded {
				continue
			}
			c.R.Find(Finding{Rule: ob.ID, Func: fi.Name, Construct: "another " + ob.Kind + " with a different shape: " + headOf(o.term), Pos: c.P.Position(o.pos),
				Msg: fmt.Sprintf("rule %s describes the %s of %s as `%s`%s; `%s` is a further one with another shape", ob.ID, ob.Kind, fi.Name, ob.Pat, whySuffix(ob.Why), o.term), Ctl: fi.Ctl})
		}
	}
	if ob.Max > 0 && matched > ob.Max {
		c.R.Find(Finding{Rule: ob.ID, Func: fi.Name, Construct: "more sinks than specified: " + ob.Kind + " " + ob.Pat, Pos: c.P.Position(fi.Pos()),
			Msg: fmt.Sprintf("rule %s expects at most %d sink(s) `%s %s` in %s but found %d", ob.ID, ob.Max, ob.Kind, ob.Pat, fi.Name, matched), Ctl: fi.Ctl})
	}
	if f.widened {
		c.R.Extra["widened:"+fi.Name] = true
	}
	return matched
}

func whySuffix(w string) string {
	if w == "" {
		return ""
	}
	return " (" + w + ")"
}

// e1Controls: obligations over the control package (checker/controls/e1.go); the Bad_* functions must be
// reported and the Good_* ones must not, on every run.
func e1Controls() []Ob {
	var obs []Ob
	for _, n := range []string{"Bad_E1_missing", "Bad_E1_flipped", "Bad_E1_wrongbinding", "Bad_E1_noreturn", "Bad_E1_overwritten", "Bad_E1_late",
		"Good_E1_init", "Good_E1_assignthentest", "Good_E1_switch", "Good_E1_andand", "Good_E1_negated", "Good_E1_helper", "Bad_E1_leakyhelper"} {
		obs = append(obs, Ob{ID: "E1", Fn: "zzverifctl." + n, P: []string{"r"}, Kind: "call", Pat: "e1sink($r)", Req: []string{"ok(e1check($r.ID, $id))"}})
	}
	obs = append(obs, Ob{ID: "E1", Fn: "zzverifctl.Bad_E1_oror", P: []string{"r"}, Kind: "call", Pat: "e1sink($r)", Req: []string{`neq($r.Client, "")`, "true(e1valid($r.ID))"}})
	obs = append(obs, Ob{ID: "E1", Fn: "zzverifctl.Good_E1_loop", Kind: "call", Pat: "e1sink($r)", Req: []string{"ok(e1check($r.ID, $id))"}})
	// helpers interpreted in place
	for _, n := range []string{"Good_E1_sinkinhelper", "Good_E1_allinhelper", "Bad_E1_sinkinhelper", "Bad_E1_boolhelper", "Good_E1_booltemp"} {
		obs = append(obs, Ob{ID: "E1", Fn: "zzverifctl." + n, P: []string{"r"}, Kind: "call", Pat: "e1sink($r)", Req: []string{"ok(e1check($r.ID, $id))"}})
	}
	// membership / quantified loop facts
	for _, n := range []string{"Good_E1_allrange", "Good_E1_allindex", "Bad_E1_allskips", "Bad_E1_allbreaks"} {
		obs = append(obs, Ob{ID: "E1", Fn: "zzverifctl." + n, P: []string{"r", "ids", "allowed"}, Kind: "call", Pat: "e1sinkAll($r, $ids)", Req: []string{"all($ids, member(ELEM, $allowed))"}})
	}
	return obs
}

// rebindable: parameter types that handlers conventionally rebind (ctx = ..., r = r.WithContext(ctx)).
func rebindable(t types.Type) bool {
	ts := typeStr(t)
	return ts == "context.Context" || ts == "*http.Request"
}

// expandReturned: the term with every call of an interpreted helper replaced by the value recorded for it (eq(call, V)).
func expandReturned(st *fstate, t *Term) *Term {
	vals := map[string]*Term{}
	for _, fc := range st.facts {
		if fc.S == "eq" && len(fc.A) == 2 && (fc.A[0].K == "call" || fc.A[0].K == "mcall" || (fc.A[0].K == "res" && len(fc.A[0].A) == 1 && (fc.A[0].A[0].K == "call" || fc.A[0].A[0].K == "mcall"))) && !mentionsTerm(fc.A[1], fc.A[0]) {
			vals[fc.A[0].Key()] = fc.A[1]
		}
	}
	if len(vals) == 0 {
		return nil
	}
	changed := false
	var rec func(t *Term, top bool) *Term
	rec = func(t *Term, top bool) *Term {
		if !top {
			if v, ok := vals[t.Key()]; ok {
				changed = true
				return v
			}
		}
		if len(t.A) == 0 {
			return t
		}
		n := &Term{K: t.K, S: t.S, Obj: t.Obj}
		for _, a := range t.A {
			n.A = append(n.A, rec(a, false))
		}
		return n
	}
	out := rec(t, true)
	if !changed {
		return nil
	}
	return out
}

// expandVarEq: the term with every variable v replaced by G when the state holds eq(v, G) for a package-level variable
// or constant G (never for other values: a variable "equal to" another local says nothing about what is returned).
func expandVarEq(st *fstate, t *Term) *Term {
	vals := map[string]*Term{}
	for _, fc := range st.facts {
		if fc.S != "eq" || len(fc.A) != 2 || fc.A[0].K != "var" {
			continue
		}
		v := fc.A[1]
		if v.K == "const" || (v.K == "var" && v.Obj != nil && isPkgLevel(v.Obj)) || (v.K == "sel" && len(v.A) == 1 && v.A[0].K == "pkg") {
			vals[fc.A[0].Key()] = v
		}
	}
	if len(vals) == 0 {
		return nil
	}
	changed := false
	var rec func(t *Term) *Term
	rec = func(t *Term) *Term {
		if v, ok := vals[t.Key()]; ok && t.K == "var" {
			changed = true
			return v
		}
		if len(t.A) == 0 {
			return t
		}
		n := &Term{K: t.K, S: t.S, Obj: t.Obj}
		for _, a := range t.A {
			n.A = append(n.A, rec(a))
		}
		return n
	}
	out := rec(t)
	if !changed {
		return nil
	}
	return out
}

// softAnchor: an unexported function or method (an internal helper the tables happen to describe); exported API is never soft.
func softAnchor(name string) bool {
	base := name
	if i := strings.LastIndex(base, "."); i >= 0 {
		base = base[i+1:]
	}
	if i := strings.Index(base, "$"); i >= 0 {
		base = base[:i]
	}
	return base != "" && base[0] >= 'a' && base[0] <= 'z'
}

// rewriteClosure: the spellings of a sink term obtained by replacing, one position at a time, a variable by its (still
// valid) definition, or a variable / call / call result by the value recorded as equal to it on this path.  Breadth
// first, at most four rewrites deep and at most limit terms.
func rewriteClosure(st *fstate, t *Term, limit int) []*Term {
	return rewriteWith(stateAlts(st), t, limit, false)
}

// stateAlts: what a term may be replaced by on this path (definitions still valid, recorded equalities).
func stateAlts(st *fstate) map[string][]*Term {
	alts := map[string][]*Term{}
	for _, k := range sortedKeys(st.facts) {
		fc := st.facts[k]
		switch {
		case fc.S == "def" && len(fc.A) == 2 && (fc.A[0].K == "var" || fc.A[0].K == "call" || fc.A[0].K == "res"):
			// (a call / result term on the left: a returned helper local, renamed to the call that produced it)
			alts[fc.A[0].Key()] = append(alts[fc.A[0].Key()], fc.A[1])
		case fc.S == "def" && len(fc.A) == 3 && fc.A[0].K == "var":
			alts[fc.A[0].Key()] = append(alts[fc.A[0].Key()], mk("res", fc.A[2].S, fc.A[1]))
		case fc.S == "eq" && len(fc.A) == 2 && !mentionsTerm(fc.A[1], fc.A[0]) && fc.A[1].K != "nil" && fc.A[1].K != "const":
			k := fc.A[0].K
			if k == "call" || k == "mcall" || k == "res" || k == "var" {
				alts[fc.A[0].Key()] = append(alts[fc.A[0].Key()], fc.A[1])
			}
		}
	}
	return alts
}

func rewriteWith(alts map[string][]*Term, t *Term, limit int, top bool) []*Term {
	if len(alts) == 0 {
		return nil
	}
	seen := map[string]bool{t.Key(): true}
	var out []*Term
	frontier := []*Term{t}
	// every single-position rewrite of t
	var step func(t *Term, top bool, emit func(*Term))
	step = func(t *Term, top bool, emit func(*Term)) {
		if !top {
			for _, a := range alts[t.Key()] {
				emit(a)
			}
			if t.K == "call" || t.K == "mcall" {
				// the value of a single-result call is also recorded as its result 0
				for _, a := range alts[mk("res", "0", t).Key()] {
					emit(a)
				}
			}
		}
		for i, a := range t.A {
			i := i
			step(a, false, func(na *Term) {
				n := &Term{K: t.K, S: t.S, Obj: t.Obj, A: append([]*Term(nil), t.A...)}
				n.A[i] = na
				emit(n)
			})
		}
	}
	for depth := 0; depth < 4 && len(frontier) > 0 && len(out) < limit; depth++ {
		var next []*Term
		for _, x := range frontier {
			step(x, !top, func(n *Term) {
				if len(out) >= limit || seen[n.Key()] {
					return
				}
				seen[n.Key()] = true
				out = append(out, n)
				next = append(next, n)
			})
		}
		frontier = next
	}
	return out
}

// normalForm: the sink term with every variable replaced by its (still valid) definition, every interpreted helper call
// by the value it returned on this path, field selections of struct literals by the field's value, and field stores
// recorded for a variable that holds a struct literal merged into the literal.  One candidate spelling among others:
// it is what the sink receives when all temporaries, helpers and carrier structs are looked through.
func normalForm(st *fstate, t *Term) *Term {
	alts := stateAlts(st)
	if len(alts) == 0 {
		return nil
	}
	// field values recorded for a variable: eq(x.F, v)
	fields := map[string][][2]*Term{}
	for _, k := range sortedKeys(st.facts) {
		fc := st.facts[k]
		if fc.S == "eq" && len(fc.A) == 2 && fc.A[0].K == "sel" && len(fc.A[0].A) == 1 && (fc.A[0].A[0].K == "var" || fc.A[0].A[0].K == "call" || fc.A[0].A[0].K == "res") {
			x := fc.A[0].A[0].Key()
			fields[x] = append(fields[x], [2]*Term{mk("const", fc.A[0].S), fc.A[1]})
		}
	}
	litOf := func(t *Term) *Term {
		if t.K == "op" && t.S == "&" && len(t.A) == 1 && t.A[0].K == "lit" {
			return t.A[0]
		}
		if t.K == "lit" {
			return t
		}
		return nil
	}
	// new(T) followed by field stores is the literal &T{...} with those fields
	newLit := func(t *Term) *Term {
		if t.K == "call" && t.S == "new" && len(t.A) == 1 && (t.A[0].K == "type" || t.A[0].K == "const" || t.A[0].K == "var") {
			return mk("op", "&", mk("lit", t.A[0].S))
		}
		return nil
	}
	changed := false
	var rec func(t *Term, depth int, top bool) *Term
	rec = func(t *Term, depth int, top bool) *Term {
		n := t
		if len(t.A) > 0 {
			n = &Term{K: t.K, S: t.S, Obj: t.Obj}
			for _, a := range t.A {
				n.A = append(n.A, rec(a, depth, false))
			}
		}
		if n.K == "sel" && len(n.A) == 1 {
			if l := litOf(n.A[0]); l != nil {
				for _, kv := range l.A {
					if kv.K == "kv" && kv.S == n.S && len(kv.A) == 1 {
						changed = true
						return kv.A[0]
					}
				}
			}
		}
		if top || depth > 6 {
			return n
		}
		as := alts[t.Key()]
		if len(as) == 0 && (t.K == "call" || t.K == "mcall") {
			as = alts[mk("res", "0", t).Key()]
		}
		if len(as) == 0 && n != t {
			as = alts[n.Key()]
		}
		if len(as) == 0 {
			return n
		}
		changed = true
		v := rec(as[0], depth+1, false)
		if t.K == "var" || t.K == "call" || t.K == "res" {
			if nl := newLit(v); nl != nil && len(fields[t.Key()]) > 0 {
				v = nl
			}
			if l := litOf(v); l != nil && len(fields[t.Key()]) > 0 {
				nl := &Term{K: l.K, S: l.S, Obj: l.Obj}
				over := map[string]*Term{}
				for _, fv := range fields[t.Key()] {
					over[fv[0].S] = rec(fv[1], depth+1, false)
				}
				for _, kv := range l.A {
					if ov, ok := over[kv.S]; ok && kv.K == "kv" {
						nl.A = append(nl.A, mk("kv", kv.S, ov))
						delete(over, kv.S)
					} else {
						nl.A = append(nl.A, kv)
					}
				}
				var ks []string
				for k := range over {
					ks = append(ks, k)
				}
				sort.Strings(ks)
				for _, k := range ks {
					nl.A = append(nl.A, mk("kv", k, over[k]))
				}
				if v.K == "op" {
					return mk("op", "&", nl)
				}
				return nl
			}
		}
		return v
	}
	out := rec(t, 0, true)
	if !changed {
		return nil
	}
	return out
}

func bindKey(b Bind) string {
	ks := make([]string, 0, len(b))
	for k := range b {
		ks = append(ks, k)
	}
	sort.Strings(ks)
	var sb strings.Builder
	for _, k := range ks {
		sb.WriteString(k)
		sb.WriteString("=")
		if b[k] != nil {
			sb.WriteString(b[k].Key())
		}
		sb.WriteString(";")
	}
	return sb.String()
}
