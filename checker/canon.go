package main

// Name-insensitive keys for reviewed exception tables: a local variable may be renamed, a temporary introduced or
// removed, without the reviewed site becoming a different site.

import (
	"go/ast"
	"go/token"
	"go/types"
	"sort"
	"strings"
)

// localDefs: for every local variable of fi, the right-hand sides assigned to it (tuple assignments: the call, with index).
type localDef struct {
	e   ast.Expr
	idx int // -1: plain value
}

func localDefsOf(fi *FuncInfo) map[types.Object][]localDef {
	info := fi.Pkg.TypesInfo
	defs := map[types.Object][]localDef{}
	root := fi.Root()
	if root.Body == nil {
		return defs
	}
	obj := func(id *ast.Ident) types.Object {
		if o := info.Defs[id]; o != nil {
			return o
		}
		return info.Uses[id]
	}
	ast.Inspect(root.Body, func(n ast.Node) bool {
		switch s := n.(type) {
		case *ast.AssignStmt:
			for i, l := range s.Lhs {
				id, ok := unparen(l).(*ast.Ident)
				if !ok || id.Name == "_" {
					continue
				}
				o := obj(id)
				if o == nil {
					continue
				}
				if len(s.Lhs) == len(s.Rhs) {
					if s.Tok == token.ASSIGN || s.Tok == token.DEFINE {
						defs[o] = append(defs[o], localDef{s.Rhs[i], -1})
					} else {
						// x op= e: depends on both
						defs[o] = append(defs[o], localDef{s.Rhs[i], -1}, localDef{l, -2})
					}
				} else if len(s.Rhs) == 1 {
					defs[o] = append(defs[o], localDef{s.Rhs[0], i})
				}
			}
		case *ast.ValueSpec:
			for i, id := range s.Names {
				o := info.Defs[id]
				if o == nil {
					continue
				}
				if len(s.Values) == len(s.Names) {
					defs[o] = append(defs[o], localDef{s.Values[i], -1})
				} else if len(s.Values) == 1 {
					defs[o] = append(defs[o], localDef{s.Values[0], i})
				}
			}
		case *ast.RangeStmt:
			for _, kv := range []ast.Expr{s.Key, s.Value} {
				if id, ok := kv.(*ast.Ident); ok && id.Name != "_" {
					if o := obj(id); o != nil {
						defs[o] = append(defs[o], localDef{s.X, -3}) // element / index of that range
					}
				}
			}
		}
		return true
	})
	return defs
}

// paramDeps: the parameters (and receiver) of the enclosing declaration an expression may depend on, flow-insensitively.
func paramDeps(fi *FuncInfo, e ast.Expr) []string {
	info := fi.Pkg.TypesInfo
	defs := localDefsOf(fi)
	root := fi.Root()
	// a post-baseline helper with a single call site: its parameters depend on what the caller passes
	if canonSingleCaller != nil {
		if caller, call := canonSingleCaller(root); caller != nil && call != nil && root.Sig != nil && caller.Pkg == fi.Pkg && !root.Sig.Variadic() && len(call.Args) == root.Sig.Params().Len() {
			for o, ds := range localDefsOf(caller) {
				if _, dup := defs[o]; !dup {
					defs[o] = ds
				}
			}
			for i := 0; i < root.Sig.Params().Len(); i++ {
				defs[root.Sig.Params().At(i)] = append(defs[root.Sig.Params().At(i)], localDef{call.Args[i], -1})
			}
			root = caller.Root()
		}
	}
	isParam := map[types.Object]bool{}
	if root.Sig != nil {
		if r := root.Sig.Recv(); r != nil {
			isParam[r] = true
		}
		for i := 0; i < root.Sig.Params().Len(); i++ {
			isParam[root.Sig.Params().At(i)] = true
		}
	}
	out := map[string]bool{}
	seen := map[types.Object]bool{}
	var walk func(n ast.Node)
	walk = func(n ast.Node) {
		ast.Inspect(n, func(m ast.Node) bool {
			if _, ok := m.(*ast.FuncLit); ok {
				return false
			}
			id, ok := m.(*ast.Ident)
			if !ok {
				return true
			}
			v, ok := info.Uses[id].(*types.Var)
			if !ok || v == nil {
				if d, ok := info.Defs[id].(*types.Var); ok {
					v = d
				} else {
					return true
				}
			}
			if v.IsField() || (v.Pkg() != nil && v.Parent() == v.Pkg().Scope()) {
				return true
			}
			if isParam[v] {
				out[v.Name()] = true
				return true
			}
			if seen[v] {
				return true
			}
			seen[v] = true
			for _, d := range defs[v] {
				walk(d.e)
			}
			return true
		})
	}
	walk(e)
	var names []string
	for n := range out {
		names = append(names, n)
	}
	sort.Strings(names)
	return names
}

// canonSingleCaller (set by the checker context): for a helper that the validated tree does not have and that is called
// from exactly one call site (and never used as a value), that caller and call.
var canonSingleCaller func(helper *FuncInfo) (*FuncInfo, *ast.CallExpr)

// canonExpr renders an expression with single-assignment locals replaced by their definitions and the remaining
// locals anonymised; parameters keep their names.
func canonExpr(fi *FuncInfo, e ast.Expr, fset *token.FileSet) string {
	info := fi.Pkg.TypesInfo
	defs := localDefsOf(fi)
	inl := map[types.Object]ast.Expr{}
	inlRes := map[types.Object]localDef{}
	rootSig := fi.Root().Sig
	paramObj := map[types.Object]bool{}
	if rootSig != nil {
		if r := rootSig.Recv(); r != nil {
			paramObj[r] = true
		}
		for i := 0; i < rootSig.Params().Len(); i++ {
			paramObj[rootSig.Params().At(i)] = true
		}
		for i := 0; i < rootSig.Results().Len(); i++ {
			paramObj[rootSig.Results().At(i)] = true
		}
	}
	for o, ds := range defs {
		if len(ds) != 1 || paramObj[o] {
			continue
		}
		if ds[0].idx == -1 {
			inl[o] = ds[0].e
		} else if ds[0].idx >= 0 {
			inlRes[o] = ds[0]
		}
	}
	root := fi.Root()
	// a helper introduced after the validated tree, called from exactly one place: its parameters are spelled as the
	// arguments of that call (with the caller's own single-assignment locals inlined), so that a reviewed site keeps its
	// key when the statement around it is moved into a helper
	if canonSingleCaller != nil {
		if caller, call := canonSingleCaller(root); caller != nil && call != nil && root.Sig != nil && caller.Pkg == fi.Pkg {
			np := root.Sig.Params().Len()
			if !root.Sig.Variadic() && len(call.Args) == np {
				for i := 0; i < np; i++ {
					p := root.Sig.Params().At(i)
					if assignedIn(root, p) {
						continue
					}
					inl[p] = call.Args[i]
				}
				cdefs := localDefsOf(caller)
				cpar := map[types.Object]bool{}
				if cs := caller.Root().Sig; cs != nil {
					for i := 0; i < cs.Params().Len(); i++ {
						cpar[cs.Params().At(i)] = true
					}
				}
				for o, ds := range cdefs {
					if len(ds) != 1 || cpar[o] {
						continue
					}
					if _, dup := inl[o]; dup {
						continue
					}
					if ds[0].idx == -1 {
						inl[o] = ds[0].e
					} else if ds[0].idx >= 0 {
						inlRes[o] = ds[0]
					}
				}
				root = caller.Root()
			}
		}
	}
	tb := &termBuilder{info: info, inl: inl, inlRes: inlRes, fset: fset}
	t := tb.term(e)
	isParam := map[types.Object]bool{}
	// a renamed parameter keeps the name the reviewed tables know it by (same position, unchanged signature)
	tableName := map[types.Object]string{}
	if root.Sig != nil {
		var objs []types.Object
		if r := root.Sig.Recv(); r != nil {
			isParam[r] = true
			objs = append(objs, r)
		}
		for i := 0; i < root.Sig.Params().Len(); i++ {
			isParam[root.Sig.Params().At(i)] = true
			objs = append(objs, root.Sig.Params().At(i))
		}
		if bp := baselineParams[root.Name]; len(bp) == len(objs) && root.Obj != nil && baselineSigs[root.Name] == sigKey(root.Obj) {
			for i, o := range objs {
				if bp[i] != "" && bp[i] != "_" && bp[i] != o.Name() {
					tableName[o] = bp[i]
				}
			}
		}
	}
	var ren func(t *Term) *Term
	ren = func(t *Term) *Term {
		if t.K == "var" {
			if isParam[t.Obj] {
				if n, ok := tableName[t.Obj]; ok {
					return mk("const", n)
				}
				return mk("const", t.S)
			}
			if v, ok := t.Obj.(*types.Var); ok && (v.Kind() == types.ParamVar || v.Kind() == types.RecvVar) {
				return mk("const", t.S) // parameter of an enclosing function literal
			}
			return mk("const", "_")
		}
		if len(t.A) == 0 {
			return t
		}
		n := &Term{K: t.K, S: t.S}
		for _, a := range t.A {
			n.A = append(n.A, ren(a))
		}
		return n
	}
	return strings.ReplaceAll(ren(t).String(), "\n", " ")
}
