package main

import (
	"encoding/json"
	"flag"
	"fmt"
	"go/types"
	"os"
	"path/filepath"
	"regexp"
	"sort"
	"strconv"
	"strings"
)

// Ctx is what a rule run receives.
type Ctx struct {
	P     *Prog
	R     *Reporter
	Tier  string
	Verif string
	e1eng *e1
	helperTab map[*types.Func]*helperInfo
}

// PropSpec describes how one property is decided.
type PropSpec struct {
	ID          string
	Explanation string
	RuleText    string
	Assumptions []string
	Trusted     []string
	Level       string   // MANIFEST level_claimed.text
	Note        string   // MANIFEST level_note
	Technique   string   // MANIFEST technique
	Rules       []string // rule ids this property runs (used to pick controls)
	Floors      []Floor
	Run         func(c *Ctx)
	Thorough    func(c *Ctx) // extra work in the thorough tier
}

var registry = map[string]*PropSpec{}

func register(p *PropSpec) { registry[p.ID] = p }

var nonAlnum = regexp.MustCompile(`[^A-Za-z0-9]`)

func ruleTag(rule string) string { return nonAlnum.ReplaceAllString(rule, "") }

func main() {
	repo := flag.String("repo", "/repo", "repository root")
	prop := flag.String("prop", "", "property id (C01..C20) or 'all'")
	tier := flag.String("tier", "quick", "quick|thorough")
	verif := flag.String("verif", "/verif", "verif directory (evidence/, replay/, known_findings.json)")
	replay := flag.String("replay", "", "replay file: re-evaluate and print that single obligation")
	list := flag.Bool("list", false, "list properties")
	manifest := flag.Bool("manifest", false, "print MANIFEST.json generated from the property registry")
	mchild := flag.Bool("mutant-child", false, "internal: evaluate one source mutant and print a MUTANT line")
	mfile := flag.String("mutant-file", "", "internal")
	mstart := flag.Int("mutant-start", 0, "internal")
	mend := flag.Int("mutant-end", 0, "internal")
	mrepl := flag.String("mutant-repl", "", "internal")
	dump := flag.String("dump", "", "debug: print the E1 facts reaching every sink site of the named function")
	flag.Parse()
	if *dump != "" {
		p, err := Load(LoadOpts{Repo: *repo, Controls: filepath.Join(*verif, "checker", "controls")})
		if err != nil {
			fmt.Fprintln(os.Stderr, err)
			os.Exit(2)
		}
		c := &Ctx{P: p, R: NewReporter("dump", "quick", 0), Verif: *verif}
		fi := p.Fn(*dump)
		if fi == nil {
			fmt.Fprintln(os.Stderr, "no such function; candidates:")
			for _, f := range p.Funcs {
				if strings.Contains(f.Name, *dump) {
					fmt.Fprintln(os.Stderr, "  ", f.Name)
				}
			}
			os.Exit(2)
		}
		fmt.Print(c.e1().analyse(fi).dump())
		return
	}

	if *manifest {
		writeManifest()
		return
	}
	if os.Getenv("E1LISTFUNCS") != "" {
		p, err := Load(LoadOpts{Repo: *repo, Controls: filepath.Join(*verif, "checker", "controls")})
		if err != nil {
			fmt.Fprintln(os.Stderr, err)
			os.Exit(2)
		}
		var names []string
		for _, fi := range p.Funcs {
			if fi.Decl != nil && !fi.Ctl {
				names = append(names, fi.Name+"\t"+sigKey(fi.Obj)+"\t"+strings.Join(paramNames(fi.Sig), ","))
			}
		}
		sort.Strings(names)
		fmt.Println(strings.Join(names, "\n"))
		return
	}
	if os.Getenv("E1SIZES") != "" {
		p, err := Load(LoadOpts{Repo: *repo, Controls: filepath.Join(*verif, "checker", "controls")})
		if err != nil {
			fmt.Fprintln(os.Stderr, err)
			os.Exit(2)
		}
		c := &Ctx{P: p, R: NewReporter("dump", "quick", 0), Verif: *verif}
		for _, fi := range p.Funcs {
			if fi.Body == nil || fi.Decl == nil || fi.Ctl {
				continue
			}
			f := c.e1().analyse(fi)
			mx, rets := 0, 0
			for _, s := range f.sites {
				if len(s.states) > mx {
					mx = len(s.states)
				}
				if s.kind == "ret" {
					rets += len(s.states)
				}
			}
			fmt.Printf("%6d %5d %5d %v %s\n", f.visits, mx, rets, f.widened, fi.Name)
		}
		return
	}
	if *list {
		var ids []string
		for id := range registry {
			ids = append(ids, id)
		}
		sort.Strings(ids)
		for _, id := range ids {
			fmt.Println(id, strings.Join(registry[id].Rules, ","))
		}
		return
	}
	seed := 0
	if s := os.Getenv("VERIF_SEED"); s != "" {
		seed, _ = strconv.Atoi(s)
	}
	if t := os.Getenv("VERIF_TIER"); t != "" && *tier == "" {
		*tier = t
	}
	if *prop == "ALL" && *mchild {
		runMutantChildAll(*repo, *verif, Mutant{File: *mfile, Start: *mstart, End: *mend, Repl: *mrepl})
		return
	}
	if *prop == "ALL" {
		os.Exit(RunGlobalMatrix(*repo, *verif, seed))
	}
	ps := registry[*prop]
	if ps == nil {
		fmt.Fprintf(os.Stderr, "unknown property %q\n", *prop)
		os.Exit(2)
	}
	if *mchild {
		runMutantChild(ps, *repo, *verif, Mutant{File: *mfile, Start: *mstart, End: *mend, Repl: *mrepl})
		return
	}
	os.Exit(runProp(ps, *repo, *verif, *tier, seed, *replay))
}

func runProp(ps *PropSpec, repo, verif, tier string, seed int, replay string) (code int) {
	r := NewReporter(ps.ID, tier, seed)
	r.Explanation, r.RuleText, r.Assumptions, r.Trusted, r.Floors = ps.Explanation, ps.RuleText, ps.Assumptions, ps.Trusted, ps.Floors
	known, err := loadKnown(filepath.Join(verif, "known_findings.json"))
	if err != nil {
		fmt.Fprintln(os.Stderr, "known findings:", err)
		return 2
	}
	defer func() {
		if e := recover(); e != nil {
			// an engine panic is a failed check, never a pass
			r.Fail("engine-panic", "-", fmt.Sprint(e), fmt.Sprintf("engine panicked: %v", e))
			code = r.Finish(verif, known, nil)
			if code == 0 {
				code = 1
			}
		}
	}()
	p, err := Load(LoadOpts{Repo: repo, Controls: filepath.Join(verif, "checker", "controls")})
	if err != nil {
		r.Fail("load-error", "-", "load", err.Error())
		return r.Finish(verif, known, nil)
	}
	n := 0
	for _, pk := range p.Scope {
		if pk.PkgPath != ctlPkgPath {
			n++
		}
	}
	r.Pkgs = n
	if n < 13 {
		r.Fail("vacuity", "-", "packages", fmt.Sprintf("only %d in-scope packages loaded (expected >= 13)", n))
	}
	c := &Ctx{P: p, R: r, Tier: tier, Verif: verif}
	ps.Run(c)
	if tier == "thorough" && ps.Thorough != nil {
		ps.Thorough(c)
	}
	if tier == "thorough" {
		RunMutantMatrix(c, ps, repo, verif, seed)
	}
	// controls: every Bad_<tag>_* / Good_<tag>_* function for the rules this property runs
	ctl := &ctlResult{}
	for _, rule := range ps.Rules {
		tag := ruleTag(rule)
		nbad := 0
		for _, fi := range p.Funcs {
			if !fi.Ctl || fi.Parent != nil {
				continue
			}
			base := fi.Name[strings.LastIndex(fi.Name, ".")+1:]
			if i := strings.Index(fi.Name, "Bad_"+tag+"_"); i >= 0 {
				base = fi.Name[i:]
			} else if i := strings.Index(fi.Name, "Good_"+tag+"_"); i >= 0 {
				base = fi.Name[i:]
			}
			if strings.HasPrefix(base, "Bad_"+tag+"_") {
				ctl.Expect = append(ctl.Expect, ctlExpect{Rule: rule, Func: fi.Name, Bad: true})
				nbad++
			} else if strings.HasPrefix(base, "Good_"+tag+"_") {
				ctl.Expect = append(ctl.Expect, ctlExpect{Rule: rule, Func: fi.Name, Bad: false})
			}
		}
		if nbad == 0 && !noControlNeeded[rule] {
			r.Fail("control-missing", "-", rule, "no positive control (Bad_"+tag+"_*) found for rule "+rule)
		}
	}
	_ = replay
	return r.Finish(verif, known, ctl)
}

// rules whose expected count on the tree is far from zero and that have no synthetic control
var noControlNeeded = map[string]bool{}

var allProps = []string{"C01", "C02", "C03", "C04", "C05", "C06", "C07", "C08", "C09", "C10", "C11", "C12", "C13", "C14", "C15", "C16", "C17", "C18", "C19", "C20"}

func writeManifest() {
	var checks []any
	var na []any
	var served []string
	for _, id := range allProps {
		ps := registry[id]
		if ps == nil || ps.Level == "" {
			na = append(na, map[string]any{"property_id": id, "reason": "structural rules designed (DESIGN.md section 5) but not built yet; nothing is claimed for this property until they are"})
			continue
		}
		served = append(served, id)
		tech := ps.Technique
		if tech == "" {
			tech = "static analysis: repository-specific must-facts dataflow over go/cfg with typed patterns"
		}
		checks = append(checks, map[string]any{
			"property_id":         id,
			"quick_cmd":           "./run.sh " + id + " quick",
			"thorough_cmd":        "./run.sh " + id + " thorough",
			"evidence_file":       "evidence/" + id + ".json",
			"replay_cmd_template": "cat {path}",
			"engine":              "oidcheck",
			"level_claimed":       map[string]any{"category": "other", "text": ps.Level, "design_ref": "DESIGN.md section 5, " + id},
			"level_note":          ps.Note,
			"technique":           tech,
		})
	}
	m := map[string]any{
		"version":   1,
		"setup_cmd": "./setup.sh",
		"hooks": map[string]any{
			"guard":            "verif",
			"enable":           "none needed: the checks are static and read /repo's working tree; no hook commits exist",
			"baseline_off_cmd": "./baseline.sh",
			"source_commits":   []string{},
			"add_only":         true,
		},
		"engines": []any{map[string]any{"name": "oidcheck", "path": "checker", "serves_properties": served,
			"kind_free_text": "repository-specific static analyser (go/packages + go/types + go/cfg + go/ssa), see DESIGN.md"}},
		"checks":         checks,
		"not_applicable": na,
		"notes":          "All checks are static (no zitadel/oidc code is executed). Genuine defects found on the pinned tree were repaired by fix: commits in /repo and are listed in known_findings.json as fixed entries.",
	}
	if na == nil {
		m["not_applicable"] = []any{}
	}
	b, _ := json.MarshalIndent(m, "", " ")
	fmt.Println(string(b))
}
