package main

import (
	"flag"
	"fmt"
	"os"
	"path/filepath"
	"regexp"
	"sort"
	"strconv"
	"strings"
)

// Ctx is what a rule run receives.
type Ctx struct {
	P     *Prog
	R     *Reporter
	Tier  string
	Verif string
	e1eng *e1
}

// PropSpec describes how one property is decided.
type PropSpec struct {
	ID          string
	Explanation string
	RuleText    string
	Assumptions []string
	Trusted     []string
	Rules       []string // rule ids this property runs (used to pick controls)
	Floors      []Floor
	Run         func(c *Ctx)
	Thorough    func(c *Ctx) // extra work in the thorough tier
}

var registry = map[string]*PropSpec{}

func register(p *PropSpec) { registry[p.ID] = p }

var nonAlnum = regexp.MustCompile(`[^A-Za-z0-9]`)

func ruleTag(rule string) string { return nonAlnum.ReplaceAllString(rule, "") }

func main() {
	repo := flag.String("repo", "/repo", "repository root")
	prop := flag.String("prop", "", "property id (C01..C20) or 'all'")
	tier := flag.String("tier", "quick", "quick|thorough")
	verif := flag.String("verif", "/verif", "verif directory (evidence/, replay/, known_findings.json)")
	replay := flag.String("replay", "", "replay file: re-evaluate and print that single obligation")
	list := flag.Bool("list", false, "list properties")
	dump := flag.String("dump", "", "debug: print the E1 facts reaching every sink site of the named function")
	flag.Parse()
	if *dump != "" {
		p, err := Load(LoadOpts{Repo: *repo, Controls: filepath.Join(*verif, "checker", "controls")})
		if err != nil {
			fmt.Fprintln(os.Stderr, err)
			os.Exit(2)
		}
		c := &Ctx{P: p, R: NewReporter("dump", "quick", 0), Verif: *verif}
		fi := p.Fn(*dump)
		if fi == nil {
			fmt.Fprintln(os.Stderr, "no such function; candidates:")
			for _, f := range p.Funcs {
				if strings.Contains(f.Name, *dump) {
					fmt.Fprintln(os.Stderr, "  ", f.Name)
				}
			}
			os.Exit(2)
		}
		fmt.Print(c.e1().analyse(fi).dump())
		return
	}

	if *list {
		var ids []string
		for id := range registry {
			ids = append(ids, id)
		}
		sort.Strings(ids)
		for _, id := range ids {
			fmt.Println(id, strings.Join(registry[id].Rules, ","))
		}
		return
	}
	seed := 0
	if s := os.Getenv("VERIF_SEED"); s != "" {
		seed, _ = strconv.Atoi(s)
	}
	if t := os.Getenv("VERIF_TIER"); t != "" && *tier == "" {
		*tier = t
	}
	ps := registry[*prop]
	if ps == nil {
		fmt.Fprintf(os.Stderr, "unknown property %q\n", *prop)
		os.Exit(2)
	}
	os.Exit(runProp(ps, *repo, *verif, *tier, seed, *replay))
}

func runProp(ps *PropSpec, repo, verif, tier string, seed int, replay string) (code int) {
	r := NewReporter(ps.ID, tier, seed)
	r.Explanation, r.RuleText, r.Assumptions, r.Trusted, r.Floors = ps.Explanation, ps.RuleText, ps.Assumptions, ps.Trusted, ps.Floors
	known, err := loadKnown(filepath.Join(verif, "known_findings.json"))
	if err != nil {
		fmt.Fprintln(os.Stderr, "known findings:", err)
		return 2
	}
	defer func() {
		if e := recover(); e != nil {
			// an engine panic is a failed check, never a pass
			r.Fail("engine-panic", "-", fmt.Sprint(e), fmt.Sprintf("engine panicked: %v", e))
			code = r.Finish(verif, known, nil)
			if code == 0 {
				code = 1
			}
		}
	}()
	p, err := Load(LoadOpts{Repo: repo, Controls: filepath.Join(verif, "checker", "controls")})
	if err != nil {
		r.Fail("load-error", "-", "load", err.Error())
		return r.Finish(verif, known, nil)
	}
	n := 0
	for _, pk := range p.Scope {
		if pk.PkgPath != ctlPkgPath {
			n++
		}
	}
	r.Pkgs = n
	if n < 13 {
		r.Fail("vacuity", "-", "packages", fmt.Sprintf("only %d in-scope packages loaded (expected >= 13)", n))
	}
	c := &Ctx{P: p, R: r, Tier: tier, Verif: verif}
	ps.Run(c)
	if tier == "thorough" && ps.Thorough != nil {
		ps.Thorough(c)
	}
	// controls: every Bad_<tag>_* / Good_<tag>_* function for the rules this property runs
	ctl := &ctlResult{}
	for _, rule := range ps.Rules {
		tag := ruleTag(rule)
		nbad := 0
		for _, fi := range p.Funcs {
			if !fi.Ctl || fi.Parent != nil {
				continue
			}
			base := fi.Name[strings.LastIndex(fi.Name, ".")+1:]
			if strings.HasPrefix(base, "Bad_"+tag+"_") {
				ctl.Expect = append(ctl.Expect, ctlExpect{Rule: rule, Func: fi.Name, Bad: true})
				nbad++
			} else if strings.HasPrefix(base, "Good_"+tag+"_") {
				ctl.Expect = append(ctl.Expect, ctlExpect{Rule: rule, Func: fi.Name, Bad: false})
			}
		}
		if nbad == 0 && !noControlNeeded[rule] {
			r.Fail("control-missing", "-", rule, "no positive control (Bad_"+tag+"_*) found for rule "+rule)
		}
	}
	_ = replay
	return r.Finish(verif, known, ctl)
}

// rules whose expected count on the tree is far from zero and that have no synthetic control
var noControlNeeded = map[string]bool{}
