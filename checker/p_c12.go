package main

// C12 — claims codec: lossless round trip, registered claims win, tolerant decoding (DESIGN §5 C12).

import (
	"fmt"
	"go/ast"
	"go/types"
	"reflect"
	"sort"
	"strings"
)

func init() {
	obs := []Ob{
		// registered claims are overlaid last
		{ID: "E1.merge.registered-last", Fn: "oidc.mergeAndMarshalClaims", P: []string{"registered", "extraClaims"}, Kind: "call", Pat: "json.NewDecoder($buf).Decode(&$merged)", Max: 1,
			Why: "the registered JSON is decoded over the copy of the custom claims, so a registered claim that is set always wins",
			Req: []string{"ok(json.NewEncoder($buf).Encode($registered))", "lt(0, len($extraClaims))",
				"def($merged, maps.Clone($extraClaims)) || (def($merged, make(__)) && all($extraClaims, eq($merged[KEY], ELEM))) || (def($merged, make(__)) && called(maps.Copy($merged, $extraClaims)))"}},
		{ID: "E1.merge.copy-in-loop", Fn: "oidc.mergeAndMarshalClaims", P: []string{"registered", "extraClaims"}, Kind: "store", Pat: "store($merged[$k], $v)", Max: 1, Opt: true,
			Why: "custom claims enter the merged map only as the copy of extraClaims",
			Req: []string{"inloop($v, $extraClaims)"}},
		{ID: "E1.merge.no-write-after-overlay", Fn: "oidc.mergeAndMarshalClaims", P: []string{"registered", "extraClaims"}, Kind: "store", Pat: "store($m[$k], _)", Forbid: true,
			When: []string{"called(json.NewDecoder(_).Decode(&$m))"}, Why: "a claim written after the registered claims were overlaid could replace a registered claim"},
		{ID: "E1.merge.result", Fn: "oidc.mergeAndMarshalClaims", P: []string{"registered", "extraClaims"}, Kind: "ret ok", Pat: "ret($buf.Bytes(), nil)", Max: 1,
			Req: []string{"ok(json.NewEncoder($buf).Encode($registered))", "le(len($extraClaims), 0) || ok(json.NewEncoder($buf).Encode($merged))"}},
		{ID: "E1.jwtreq.registered-last", Fn: "oidc.(*JWTTokenRequest).MarshalJSON", P: []string{"j"}, Kind: "call", Pat: "json.Unmarshal($b, &$j.private)", Max: 1,
			Why: "the registered JSON is decoded over the private claims (registered wins); merging in the other direction lets stale custom copies replace iss/sub/aud/exp",
			Req: []string{"def($b, json.Marshal(conv(_, $j)), 0)", "ok(json.Marshal(conv(_, $j)))", "neq(len($j.private), 0)"}},
		{ID: "E1.unmarshal-multi.all-or-error", Fn: "oidc.unmarshalJSONMulti", P: []string{"data", "destinations"}, Kind: "ret ok",
			Why: "success means every destination was decoded",
			Req: []string{"all($destinations, ok(json.Unmarshal($data, ELEM)))"}},
		// tolerant decoders: every accepted form assigns from the decoded value
		{ID: "E1.audience.forms", Fn: "oidc.(*Audience).UnmarshalJSON", P: []string{"a", "text"}, Kind: "store", Pat: "store($dst[$i], $s)", Max: 1,
			Req: []string{"is($elem, string)", "def($s, $elem.(string), 0)", "inloop($elem, $aud)"}},
		{ID: "E1.time.forms", Fn: "oidc.(*Time).UnmarshalJSON", P: []string{"ts", "data"}, Kind: "ret ok", Min: 1,
			Req: []string{"ok(json.Unmarshal($data, &$v))", "is($v, float64) || (is($v, string) && ok(time.Parse(time.RFC3339, _))) || nil($v)"}},
		{ID: "E1.introspection.username-fallback-only-when-unset", Fn: "oidc.(*IntrospectionResponse).MarshalJSON", P: []string{"i"}, Kind: "store", Pat: "store($i.Username, $i.PreferredUsername)", Opt: true, Max: 1,
			Why: "the registered username claim is replaced by preferred_username only when it is not set (a set registered claim survives encoding)", Req: []string{`eq($i.Username, "")`}},
		{ID: "E1.locales.only-wellformed-entries", Fn: "oidc.ParseLocales", P: []string{"locales"}, Kind: "call", Pat: "append($out, $tag)", Max: 1,
			Why: "tolerant decoding drops an ill-formed or undefined entry; it never keeps a tag the document did not contain (a parsed prefix)",
			Req: []string{"def($tag, language.Parse($locale), 0)", "ok(language.Parse($locale))", "false($tag.IsRoot())", "inloop($locale, $locales)"}},
		{ID: "E1.locales.forms", Fn: "oidc.(*Locales).UnmarshalJSON", P: []string{"l", "data"}, Kind: "ret ok", Min: 1,
			Req: []string{"ok(json.Unmarshal($data, &$dst))", "nil($dst) || is($dst, string) || (is($dst, []any) && ok(gu.AssertInterfaces(_)))"}},
		// AES sealing
		{ID: "E1.aes.decrypt.bounds", Fn: "crypto.DecryptBytesAES", P: []string{"cipherText", "key"}, Kind: "store", Pat: "store($iv, $cipherText[:aes.BlockSize])", Max: 1,
			Why: "a sealed string shorter than one block is rejected before slicing",
			Req: []string{"le(aes.BlockSize, len($cipherText))", "ok(aes.NewCipher(conv(_, $key)))"}},
		{ID: "E8.aes.decrypt.cfb", Fn: "crypto.DecryptBytesAES", P: []string{"cipherText", "key"}, Kind: "call", Pat: "cipher.NewCFBDecrypter($block, $iv)", Max: 1,
			Req: []string{"def($block, aes.NewCipher(conv(_, $key)), 0)", "ok(aes.NewCipher(conv(_, $key)))"}},
		{ID: "E8.aes.encrypt.cfb", Fn: "crypto.EncryptBytesAES", P: []string{"plainText", "key"}, Kind: "call", Pat: "cipher.NewCFBEncrypter($block, $iv)", Max: 1,
			Req: []string{"def($block, aes.NewCipher(conv(_, $key)), 0)", "ok(io.ReadFull(rand.Reader, $iv))", "def($iv, $ct[:aes.BlockSize])", "def($ct, make(_, aes.BlockSize + len($plainText)))"}},
		{ID: "E8.aes.encrypt.stream-into-ciphertext", Fn: "crypto.EncryptBytesAES", P: []string{"plainText", "key"}, Kind: "call", Pat: "$stream.XORKeyStream($ct[aes.BlockSize:], $plainText)", Min: 1, Max: 1,
			Why: "the key stream is applied to the plaintext and written behind the IV of the returned buffer",
			Req: []string{"def($stream, cipher.NewCFBEncrypter(_, _))", "def($ct, make(_, aes.BlockSize + len($plainText)))"}},
		{ID: "E8.aes.encrypt.returns-ciphertext", Fn: "crypto.EncryptBytesAES", P: []string{"plainText", "key"}, Kind: "ret ok", Pat: "ret($ct, nil)", Max: 1,
			Req: []string{"def($ct, make(_, aes.BlockSize + len($plainText)))", "called(_.XORKeyStream(_, $plainText))"}},
		{ID: "E8.space-delimited.split-text", Fn: "oidc.(*SpaceDelimitedArray).UnmarshalText", P: []string{"s", "text"}, Kind: "call", Pat: `strings.Split(conv(string, $text), " ")`, Min: 1, Max: 1},
		{ID: "E8.locales.split-text", Fn: "oidc.(*Locales).UnmarshalText", P: []string{"l", "text"}, Kind: "call", Pat: `oidc.ParseLocales(strings.Split(conv(string, $text), " "))`, Min: 1, Max: 1},
		{ID: "E8.locales.split-json", Fn: "oidc.(*Locales).UnmarshalJSON", P: []string{"l", "data"}, Kind: "call", Pat: `oidc.ParseLocales(strings.Split($v, " "))`, Min: 1, Max: 1,
			Req: []string{"is($dst, string)"}},
		{ID: "E8.space-delimited.split", Fn: "oidc.(*SpaceDelimitedArray).UnmarshalJSON", P: []string{"s", "data"}, Kind: "ret ok", Max: 1,
			Why: "a space-delimited string decodes to its space-separated parts",
			Req: []string{"ok(json.Unmarshal($data, &$str))", `called(strings.Split($str, " "))`}},
		{ID: "E8.aes.encrypt.encoding", Fn: "crypto.EncryptAES", P: []string{"data", "key"}, Kind: "ret ok", Pat: "ret(base64.RawURLEncoding.EncodeToString($enc), nil)", Max: 1,
			Req: []string{"def($enc, crypto.EncryptBytesAES(conv(_, $data), $key), 0)", "ok(crypto.EncryptBytesAES(conv(_, $data), $key))"}},
		// sealing is total: decryption / encryption fail only for the stated reasons (undecodable text, bad key, short text,
		// entropy failure) - never because of what the plaintext looks like
		{ID: "E1.aes.decrypt.fails-only-malformed", Fn: "crypto.DecryptAES", P: []string{"data", "key"}, Kind: "ret fail",
			Req: []string{"fail(base64.RawURLEncoding.DecodeString($data)) || fail(crypto.DecryptBytesAES(_, $key))"}},
		{ID: "E1.aes.decrypt-bytes.fails-only-malformed", Fn: "crypto.DecryptBytesAES", P: []string{"cipherText", "key"}, Kind: "ret fail", MutOK: []string{"cipherText"},
			Req: []string{"fail(aes.NewCipher(conv(_, $key))) || lt(len($cipherText), aes.BlockSize)"}},
		{ID: "E1.aes.encrypt.fails-only-key-or-entropy", Fn: "crypto.EncryptAES", P: []string{"data", "key"}, Kind: "ret fail",
			Req: []string{"fail(crypto.EncryptBytesAES(_, $key))"}},
		{ID: "E1.aes.encrypt-bytes.fails-only-key-or-entropy", Fn: "crypto.EncryptBytesAES", P: []string{"plainText", "key"}, Kind: "ret fail",
			Req: []string{"fail(aes.NewCipher(conv(_, $key))) || fail(io.ReadFull(rand.Reader, _))"}},
		{ID: "E8.aes.decrypt.encoding", Fn: "crypto.DecryptAES", P: []string{"data", "key"}, Kind: "ret ok", Pat: "ret(conv(string, $dec), nil)", Max: 1,
			Req: []string{"def($text, base64.RawURLEncoding.DecodeString($data), 0)", "ok(base64.RawURLEncoding.DecodeString($data))", "def($dec, crypto.DecryptBytesAES($text, $key), 0)", "ok(crypto.DecryptBytesAES($text, $key))"}},
	}
	for _, o := range obs {
		if strings.HasPrefix(o.ID, "E1.unmarshal-multi.") {
			// a decoder that tolerates a mistyped registered claim leaves it at its zero value: every check of C01 then sees "absent"
			sharedObs["C01"] = append(sharedObs["C01"], o)
		}
	}
	register(&PropSpec{
		ID: "C12",
		Explanation: "Decides structurally: no decoder of pkg/oidc, pkg/crypto, pkg/http can panic on its input (unchecked assertions, explicit panics, unproven bounds outside the reviewed table, nullable decode targets, codec recursion: same rules as C09 restricted to the codec packages); mergeAndMarshalClaims decodes the registered JSON over the copy of the custom claims (registered wins) and writes custom claims only in the copy loop before that decode; JWTTokenRequest.MarshalJSON overlays the registered JSON on the private map; every type with a `Claims map[string]any json:\"-\"` field (discovered through go/types, 7 today) has the MarshalJSON/UnmarshalJSON pair calling the helpers with (alias(self), self.Claims) / (data, alias(self), &self.Claims) and the alias types carry no codec methods; unmarshalJSONMulti fails on the first destination that fails; the tolerant decoders accept exactly the documented forms and otherwise return an error or the zero value; AES sealing checks the length before slicing and encrypt/decrypt agree on RawURLEncoding, IV length and CFB mode. Does not decide value equality after a round trip nor 'only under the same key'. Round 3: AES sealing is total (decrypt / encrypt fail only for undecodable text, bad key, short text, entropy failure); ParseLocales keeps only entries that parse as a whole.",
		RuleText:    "obligation = (rule, function or type, construct); non-trivial when a guard fact, sibling row or decode/assert/index site is involved",
		Assumptions: []string{"encoding/json, schema and crypto/aes behave as documented"},
		Trusted:     []string{"go/types, go/cfg (x/tools v0.50.0)", "cmd/compile prove pass", "encoding/json, crypto/aes, crypto/cipher"},
		Level:       "Sound static check of the structural clauses (cannot panic; registered claims overlaid last; sibling codec agreement; AES bounds and symmetry). Round-trip equality of values is not decided.",
		Note:        "Trusted: go/types+go/cfg, compiler bounds report, encoding/json.",
		Technique:   "static analysis: panic-site and nil-flow rules over the typed AST, sibling-agreement table from go/types, must-facts dataflow for ordering and value bindings, method-set rule for values handed to JSON encoders (pointer-receiver MarshalJSON)",
		Rules:       []string{"E1", "E4.R-assert", "E4.R-recursion", "E3.N1", "E8.R-marshal-value"},
		Run: func(c *Ctx) {
			RunE1(c, "C12", obs)
			RunClaimsCodecSiblings(c)
			RunMarshalByValue(c, []string{"oidc", "op", "client", "client/rp", "client/rs", "client/profile", "client/tokenexchange", "http", "crypto"})
			RunE1(c, "", nullRejectingObs())
			nr := map[string]bool{"oidc.ParseToken": true, "http.HttpRequest": true}
			for _, f := range c.R.Findings {
				if f.Rule == "E3.null-rejecting" || f.Rule == "vacuity" {
					delete(nr, f.Func)
				}
			}
			RunN1(c, nr)
			RunAssertPanic(c, []string{"oidc", "crypto", "http"}, c09AssertAllow, nil)
			RunMarshalRecursion(c, []string{"oidc", "op", "client", "client/rp"})
		},
	})
}

// RunClaimsCodecSiblings: every struct type of pkg/oidc with a field `Claims map[string]any` tagged json:"-"
// has the codec pair that routes through the merge helpers with an alias of itself.
func RunClaimsCodecSiblings(c *Ctx) {
	const rule = "E7.codec-siblings"
	pk := c.P.ByPath[pkgPrefix+"oidc"]
	if pk == nil {
		c.R.Fail("anchor-unresolved", "oidc", rule, "package not loaded")
		return
	}
	var typesWithClaims []string
	sc := pk.Types.Scope()
	for _, n := range sc.Names() {
		tn, ok := sc.Lookup(n).(*types.TypeName)
		if !ok || tn.IsAlias() {
			continue
		}
		st, ok := tn.Type().Underlying().(*types.Struct)
		if !ok {
			continue
		}
		for i := 0; i < st.NumFields(); i++ {
			f := st.Field(i)
			if f.Name() != "Claims" {
				continue
			}
			if m, ok := f.Type().Underlying().(*types.Map); !ok || m.Key().String() != "string" {
				continue
			}
			if reflect.StructTag(st.Tag(i)).Get("json") != "-" {
				continue
			}
			// alias types (type xAlias X) share the struct but must not have methods; skip types without methods
			named := tn.Type().(*types.Named)
			if named.NumMethods() == 0 {
				continue
			}
			typesWithClaims = append(typesWithClaims, n)
		}
	}
	sort.Strings(typesWithClaims)
	c.R.Extra["claims_codec_types"] = typesWithClaims
	if len(typesWithClaims) < 7 {
		c.R.Find(Finding{Rule: "vacuity", Func: "oidc", Construct: rule, Pos: "-", Msg: fmt.Sprintf("only %d types with a custom-claims map found (7 reviewed)", len(typesWithClaims))})
	}
	for _, n := range typesWithClaims {
		evalOb(c, c.e1(), Ob{ID: rule + ".marshal", Fn: "oidc.(*" + n + ").MarshalJSON", P: []string{"x"}, Kind: "ret any", Max: 1,
			Pat: "ret(res(0, oidc.mergeAndMarshalClaims(conv(_, $x), $x.Claims)), _)", Why: "custom claims must be merged under the registered ones of the same value"})
		evalOb(c, c.e1(), Ob{ID: rule + ".unmarshal", Fn: "oidc.(*" + n + ").UnmarshalJSON", P: []string{"x", "data"}, Kind: "ret any", Max: 1,
			Pat: "ret(oidc.unmarshalJSONMulti($data, conv(_, $x), &$x.Claims))", Why: "registered and custom claims are decoded from the same document"})
	}
}

// RunMergeOrder: in mergeAndMarshalClaims no element of `merged` is written after the Decode(&merged) call.
func RunMergeOrder(c *Ctx) {
	const rule = "E1.merge.no-write-after-overlay"
	fi := c.P.Fn("oidc.mergeAndMarshalClaims")
	if fi == nil || fi.Body == nil {
		c.R.Fail("anchor-unresolved", "oidc.mergeAndMarshalClaims", rule, "function not found")
		return
	}
	var decodePos ast.Node
	ast.Inspect(fi.Body, func(n ast.Node) bool {
		if call, ok := n.(*ast.CallExpr); ok {
			if sel, ok := call.Fun.(*ast.SelectorExpr); ok && sel.Sel.Name == "Decode" {
				decodePos = call
			}
		}
		return true
	})
	if decodePos == nil {
		c.R.Find(Finding{Rule: "vacuity", Func: fi.Name, Construct: rule, Pos: c.P.Position(fi.Pos()), Msg: "no Decode call found"})
		return
	}
	bad := false
	ast.Inspect(fi.Body, func(n ast.Node) bool {
		as, ok := n.(*ast.AssignStmt)
		if !ok || as.Pos() < decodePos.End() {
			return true
		}
		for _, l := range as.Lhs {
			if ix, ok := unparen(l).(*ast.IndexExpr); ok {
				bad = true
				c.R.Find(Finding{Rule: rule, Func: fi.Name, Construct: "map store after the registered overlay: " + types.ExprString(ix), Pos: c.P.Position(ix.Pos()),
					Msg: "a claim is written after the registered claims were overlaid: custom data could replace a registered claim"})
			}
		}
		return true
	})
	c.R.Obl(Obligation{Rule: rule, Func: fi.Name, Construct: "no map store after Decode(&merged)", Pos: c.P.Position(decodePos.Pos()), Discharged: !bad, Nontrivial: true})
	_ = strings.TrimSpace
}
