package main

// E1 — context-sensitive interpretation of helper calls ("virtual inlining").
//
// A behaviour-preserving edit often moves a few statements into a new unexported helper, or hands a
// group of checks to a function that returns the first error.  The obligations of the specification
// tables talk about the anchored function; they must not care where the statements physically are.
// So when the dataflow of function F reaches a call of an in-module function G that the tables do
// not describe (no guarantee, not an anchor), G's body is interpreted right there: parameters are
// replaced by F's argument terms, G's dataflow starts from F's current path state, G's sink sites
// (calls, stores, go statements) are reported as sites of F, and every return state of G continues
// in F carrying what G established (plus ok/fail of the call, and G's result values).
//
// Soundness: the callee's nodes go through the same transfer functions as F's own nodes; the only
// shortcut is the substitution parameter -> argument term, which is made only for parameters the
// callee never assigns or takes the address of.  Depth is bounded and recursion is cut (the call is
// then treated as an ordinary opaque call: no facts, mutation summary applied).

import (
	_ "embed"
	"fmt"
	"sort"
	"go/ast"
	"go/token"
	"go/types"
	"os"
	"strings"

	"golang.org/x/tools/go/types/typeutil"
)

const e1InlineDepth = 3

// baseline_funcs.txt: the declared functions of pkg/... at the revision the specification tables were validated
// against.  Those functions are analysed modularly (the tables pass with them as they are); a function that is not
// in the list was introduced by a later edit - typically a helper extracted from a function the tables describe - and
// is interpreted in place, so that moving statements into it does not move them out of sight.
//
//go:embed baseline_funcs.txt
var baselineFuncsTxt string

var baselineSigs = map[string]string{}

// baselineParams: receiver and parameter names of the validated tree (the reviewed tables spell expressions with them).
var baselineParams = map[string][]string{}

// paramNames: receiver name first, then the parameters in order.
func paramNames(sig *types.Signature) []string {
	var out []string
	if sig == nil {
		return nil
	}
	if r := sig.Recv(); r != nil {
		out = append(out, r.Name())
	}
	for i := 0; i < sig.Params().Len(); i++ {
		out = append(out, sig.Params().At(i).Name())
	}
	return out
}

var baselineFuncs = func() map[string]bool {
	m := map[string]bool{}
	for _, l := range strings.Split(baselineFuncsTxt, "\n") {
		if l = strings.TrimSpace(l); l != "" {
			name, sig, _ := strings.Cut(l, "\t")
			sig, pn, _ := strings.Cut(sig, "\t")
			m[name] = true
			baselineSigs[name] = sig
			if pn != "" {
				baselineParams[name] = strings.Split(pn, ",")
			}
		}
	}
	return m
}()

// sigKey: receiver type and signature of a declared function, package-qualified (parameter names excluded).
func sigKey(fn *types.Func) string {
	if fn == nil {
		return ""
	}
	sig, _ := fn.Type().(*types.Signature)
	if sig == nil {
		return ""
	}
	var sb strings.Builder
	if r := sig.Recv(); r != nil {
		sb.WriteString("(" + types.TypeString(r.Type(), nil) + ") ")
	}
	tup := func(t *types.Tuple) string {
		var ps []string
		for i := 0; i < t.Len(); i++ {
			ps = append(ps, types.TypeString(t.At(i).Type(), nil))
		}
		return strings.Join(ps, ", ")
	}
	if tp := sig.TypeParams(); tp != nil {
		sb.WriteString(fmt.Sprintf("[%d]", tp.Len()))
	}
	sb.WriteString("func(" + tup(sig.Params()) + ")")
	if sig.Variadic() {
		sb.WriteString("...")
	}
	sb.WriteString(" (" + tup(sig.Results()) + ")")
	return sb.String()
}

// renamedBack: functions recognised as renamed baseline functions -> the qualified name the tables know them by.
var renamedBack = map[*types.Func]string{}
var renamedNotes []string

// resolveRenames: a baseline function that no longer exists, while exactly one function that did not exist then has
// the same package, receiver and signature, was renamed: the tables keep addressing it by its old name.
func resolveRenames(p *Prog) {
	renamedBack = map[*types.Func]string{}
	renamedNotes = nil
	var fresh []*FuncInfo
	for _, fi := range p.Funcs {
		if fi.Decl != nil && fi.Obj != nil && !fi.Ctl && !baselineFuncs[fi.Name] {
			fresh = append(fresh, fi)
		}
	}
	if len(fresh) == 0 {
		return
	}
	var missing []string
	for name := range baselineFuncs {
		if p.FuncByNm[name] == nil {
			missing = append(missing, name)
		}
	}
	sort.Strings(missing)
	pkgOf := func(name string) string {
		if i := strings.Index(name, "."); i >= 0 {
			return name[:i]
		}
		return name
	}
	taken := map[*FuncInfo]bool{}
	for _, old := range missing {
		sig := baselineSigs[old]
		if sig == "" {
			continue
		}
		var cands []*FuncInfo
		for _, fi := range fresh {
			if !taken[fi] && pkgOf(fi.Name) == pkgOf(old) && sigKey(fi.Obj) == sig {
				cands = append(cands, fi)
			}
		}
		// several missing functions with this signature compete for the candidates: only an unambiguous pairing counts
		nOld := 0
		for _, o := range missing {
			if pkgOf(o) == pkgOf(old) && baselineSigs[o] == sig {
				nOld++
			}
		}
		if len(cands) != 1 || nOld != 1 {
			continue
		}
		fi := cands[0]
		taken[fi] = true
		p.FuncByNm[old] = fi
		// qualified name as used in terms: pkg.Name for functions, bare method name for methods
		oldBase := old[strings.LastIndex(old, ".")+1:]
		if fi.Sig != nil && fi.Sig.Recv() != nil {
			renamedBack[fi.Obj] = oldBase
		} else {
			renamedBack[fi.Obj] = pkgShort(fi.Obj.Pkg()) + "." + oldBase
		}
		renamedNotes = append(renamedNotes, old+" -> "+fi.Name)
	}
}

type inlResult struct {
	exits []*fstate
	sites []*e1site
}

// eligibleCalls: calls of node n that are certainly evaluated when n is (not under the right operand of a
// short-circuit operator, not in a literal, not deferred / spawned), in evaluation order.
// asCond: n is a branch condition whose && / || / ! skeleton is evaluated clause by clause by branchExpr,
// so calls in every clause are eligible (each is interpreted when its clause is).
func eligibleCalls(n ast.Node, asCond bool) []*ast.CallExpr {
	switch n.(type) {
	case *ast.DeferStmt, *ast.GoStmt:
		return nil
	}
	var out []*ast.CallExpr
	var walk func(m ast.Node, top bool)
	walk = func(m ast.Node, top bool) {
		switch x := m.(type) {
		case nil:
			return
		case *ast.FuncLit:
			return
		case *ast.ParenExpr:
			walk(x.X, top)
			return
		case *ast.UnaryExpr:
			walk(x.X, top && x.Op == token.NOT)
			return
		case *ast.BinaryExpr:
			if x.Op == token.LAND || x.Op == token.LOR {
				walk(x.X, top)
				if top {
					walk(x.Y, true)
				}
				return
			}
			walk(x.X, false)
			walk(x.Y, false)
			return
		case *ast.CallExpr:
			walk(x.Fun, false)
			for _, a := range x.Args {
				walk(a, false)
			}
			out = append(out, x)
			return
		}
		ast.Inspect(m, func(k ast.Node) bool {
			if k == m {
				return true
			}
			if k == nil {
				return false
			}
			walk(k, false)
			return false
		})
	}
	walk(n, asCond)
	return out
}

func (f *e1func) chainHas(fi *FuncInfo) bool {
	for x := f; x != nil; x = x.parent {
		if x.fi == fi {
			return true
		}
	}
	return false
}

// inlineTargetOf: the helper a call is interpreted as, or nil (opaque call).
func (f *e1func) inlineTargetOf(c *ast.CallExpr) *FuncInfo {
	if t, ok := f.inlTarget[c]; ok {
		return t
	}
	if f.inlTarget == nil {
		f.inlTarget = map[*ast.CallExpr]*FuncInfo{}
	}
	var target *FuncInfo
	defer func() { f.inlTarget[c] = target }()
	if os.Getenv("E1NOINLINE") != "" || f.depth >= e1InlineDepth {
		return nil
	}
	if tv, ok := f.info.Types[c.Fun]; ok && tv.IsType() {
		return nil
	}
	fn, _ := typeutil.Callee(f.info, c).(*types.Func)
	if fn == nil {
		return nil
	}
	callee := f.eng.byObj[fn.Origin()]
	if callee == nil || callee.Body == nil || callee.Sig == nil || callee.Decl == nil {
		return nil
	}
	if callee.Ctl != f.fi.Ctl {
		return nil
	}
	if f.chainHas(callee) {
		return nil
	}
	if !f.eng.inlinable(callee) {
		return nil
	}
	if callee.Sig.Variadic() && !c.Ellipsis.IsValid() {
		// the variadic parameter has no single argument term; still interpretable (it stays an unknown local)
	}
	target = callee
	return target
}

// inlinable: functions the specification tables describe (guarantees, anchors of obligations) keep their
// modular treatment; everything else in the module is a helper.
func (e *e1) inlinable(fi *FuncInfo) bool {
	if _, has := e.guars[fi.Name]; has {
		return false
	}
	if e.anchors[fi.Name] {
		return false
	}
	if e.noInline != nil && e.noInline(fi) {
		return false
	}
	if os.Getenv("E1INLINEALL") == "" && baselineFuncs[fi.Name] {
		return false
	}
	return true
}

func (f *e1func) eligible(n ast.Node, asCond bool) map[*ast.CallExpr]bool {
	type k struct {
		n ast.Node
		c bool
	}
	if f.eligCache == nil {
		f.eligCache = map[any]map[*ast.CallExpr]bool{}
	}
	key := k{n, asCond}
	if m, ok := f.eligCache[key]; ok {
		return m
	}
	m := map[*ast.CallExpr]bool{}
	for _, c := range eligibleCalls(n, asCond) {
		if f.inlineTargetOf(c) != nil {
			m[c] = true
		}
	}
	f.eligCache[key] = m
	return m
}

// inlineNode interprets the helper calls of statement node n for every state; it also returns, for every call
// of n, the states that held just before that call was evaluated (only when n contains a helper call).
func (f *e1func) inlineNode(cur []*fstate, n ast.Node) ([]*fstate, map[*ast.CallExpr][]*fstate) {
	el := f.eligible(n, false)
	if len(el) == 0 {
		return cur, nil
	}
	pre := map[*ast.CallExpr][]*fstate{}
	for _, c := range f.callsOf(n) {
		pre[c] = cur
		if !el[c] {
			continue
		}
		var next []*fstate
		for _, st := range cur {
			next = append(next, f.inlineCall(st, c)...)
		}
		cur = dedupStates(next)
	}
	return cur, pre
}

// inlineLeaf: the same for an atomic condition.
func (f *e1func) inlineLeaf(st *fstate, leaf ast.Expr) []*fstate {
	el := f.eligible(leaf, false)
	if len(el) == 0 {
		return []*fstate{st}
	}
	cur := []*fstate{st}
	for _, c := range f.callsOf(leaf) {
		if !el[c] {
			continue
		}
		var next []*fstate
		for _, s := range cur {
			next = append(next, f.inlineCall(s, c)...)
		}
		cur = dedupStates(next)
	}
	return cur
}

func (f *e1func) isLocalObj(o types.Object) bool {
	if o == nil || f.fi.Decl == nil {
		return false
	}
	return o.Pos() >= f.fi.Decl.Pos() && o.Pos() <= f.fi.Decl.End()
}

func mentionsLocalOf(t *Term, g *e1func) bool {
	hit := false
	t.walk(func(x *Term) bool {
		if x.K == "var" && g.isLocalObj(x.Obj) {
			hit = true
		}
		return !hit
	})
	return hit
}

// replaceTerm returns t with every subterm whose key is fromKey replaced by to (nil if nothing changed).
func replaceTerm(t *Term, fromKey string, to *Term) *Term {
	changed := false
	var rec func(t *Term) *Term
	rec = func(t *Term) *Term {
		if t.Key() == fromKey {
			changed = true
			return to
		}
		if len(t.A) == 0 {
			return t
		}
		var na []*Term
		for i, a := range t.A {
			r := rec(a)
			if r != a && na == nil {
				na = append([]*Term{}, t.A[:i]...)
			}
			if na != nil {
				na = append(na, r)
			}
		}
		if na == nil {
			return t
		}
		return &Term{K: t.K, S: t.S, Obj: t.Obj, A: na}
	}
	out := rec(t)
	if !changed {
		return nil
	}
	return out
}

// inlineCall interprets call c (whose target is a helper) from state st and returns the continuation states.
func (f *e1func) inlineCall(st *fstate, c *ast.CallExpr) []*fstate {
	callee := f.inlineTargetOf(c)
	if callee == nil {
		return []*fstate{st}
	}
	// the same helper call evaluated again on this path (a retry): what is known about the earlier evaluation does not
	// describe this one
	if ct := f.tb.callTerm(c); st.has(fact("ok", ct)) || st.has(fact("fail", ct)) {
		st = st.forgetCall(ct)
	}
	if f.inlMemo == nil {
		f.inlMemo = map[string]*inlResult{}
	}
	key := fmt.Sprintf("%d|%s", c.Pos(), st.Key())
	res, ok := f.inlMemo[key]
	if !ok {
		res = f.runInlined(st, c, callee)
		f.inlMemo[key] = res
	}
	if f.curSites != nil && len(res.sites) > 0 {
		if f.emitted == nil {
			f.emitted = map[string]bool{}
		}
		if !f.emitted[key] {
			f.emitted[key] = true
			*f.curSites = append(*f.curSites, res.sites...)
		}
	}
	return res.exits
}

func (f *e1func) runInlined(st *fstate, c *ast.CallExpr, callee *FuncInfo) *inlResult {
	ct := f.tb.callTerm(c)
	g := &e1func{eng: f.eng, fi: callee, info: callee.Pkg.TypesInfo, caseTag: map[ast.Expr]ast.Expr{}, caseType: map[ast.Expr]ast.Expr{}, tsClause: map[*ast.CaseClause]ast.Expr{},
		closureW: map[types.Object][]types.Object{}, statusOf: map[string]int{}, errIdx: -1, parent: f, depth: f.depth + 1, callPos: c.Pos()}
	g.prepare()
	g.tb.sub = map[types.Object]*Term{}
	// a generic helper: its type parameters stand for the type arguments of this call
	{
		var id *ast.Ident
		fun := unparen(c.Fun)
		if ix, ok := fun.(*ast.IndexExpr); ok {
			fun = unparen(ix.X)
		} else if ix, ok := fun.(*ast.IndexListExpr); ok {
			fun = unparen(ix.X)
		}
		switch x := fun.(type) {
		case *ast.Ident:
			id = x
		case *ast.SelectorExpr:
			id = x.Sel
		}
		if id != nil && callee.Sig != nil && callee.Sig.TypeParams() != nil {
			if inst, ok := f.info.Instances[id]; ok && inst.TypeArgs != nil && inst.TypeArgs.Len() == callee.Sig.TypeParams().Len() {
				g.tb.tsub = map[*types.TypeParam]types.Type{}
				for i := 0; i < inst.TypeArgs.Len(); i++ {
					g.tb.tsub[callee.Sig.TypeParams().At(i)] = inst.TypeArgs.At(i)
				}
			}
		}
	}
	// a fresh activation: nothing is known about the helper's own variables
	entry := st
	{
		var n *fstate
		for k, fc := range st.facts {
			if mentionsLocalOf(fc, g) {
				if n == nil {
					n = st.clone()
				}
				delete(n.facts, k)
			}
		}
		if n != nil {
			n.key = ""
			entry = n
		}
	}
	// parameters
	var params []*types.Var
	var args []ast.Expr
	variadicAt := -1
	sig := callee.Sig
	if r := sig.Recv(); r != nil {
		params = append(params, r)
		var rx ast.Expr
		fun := unparen(c.Fun)
		if ix, ok := fun.(*ast.IndexExpr); ok {
			fun = unparen(ix.X)
		}
		if sel, ok := fun.(*ast.SelectorExpr); ok {
			rx = sel.X
		}
		args = append(args, rx)
	}
	for i := 0; i < sig.Params().Len(); i++ {
		p := sig.Params().At(i)
		params = append(params, p)
		var a ast.Expr
		if sig.Variadic() && i == sig.Params().Len()-1 {
			if c.Ellipsis.IsValid() && i < len(c.Args) {
				a = c.Args[i]
			} else {
				variadicAt = len(args)
			}
		} else if i < len(c.Args) {
			a = c.Args[i]
		}
		args = append(args, a)
	}
	// arguments rooted at an object the helper writes through are not substituted as selector paths (the field may change)
	mutRoots := map[types.Object]bool{}
	for idx := range f.eng.muts[callee] {
		j := idx
		if sig.Recv() != nil {
			j = idx + 1
		}
		if j >= 0 && j < len(args) && args[j] != nil {
			if r, _, ok := accessPath(f.term(args[j])); ok && r != nil {
				mutRoots[r] = true
			}
		}
	}
	var add []*Term
	for i, p := range params {
		if i == variadicAt && p.Name() != "" && p.Name() != "_" && g.assigned[p] == 0 && !g.addrTaken[p] {
			// f(a, b, c) with a variadic last parameter: the parameter is the slice of the extra arguments
			lit := mk("lit", typeStr(p.Type()))
			n := sig.Params().Len() - 1
			for j := n; j < len(c.Args); j++ {
				lit.A = append(lit.A, mk("kv", fmt.Sprint(j-n), f.term(c.Args[j])))
			}
			g.tb.sub[p] = lit
			continue
		}
		if p.Name() == "" || p.Name() == "_" || args[i] == nil {
			continue
		}
		at := f.term(args[i])
		pv := &Term{K: "var", S: p.Name(), Obj: p}
		stable := true
		if r, path, ok := accessPath(at); ok && r != nil && len(path) > 0 && mutRoots[r] {
			stable = false
		}
		if g.assigned[p] == 0 && !g.addrTaken[p] && stable {
			if isBoolType(p.Type()) {
				if g.subCond == nil {
					g.subCond = map[types.Object]subCond{}
				}
				g.subCond[p] = subCond{f, args[i]}
			}
			g.tb.sub[p] = at
		} else {
			add = append(add, fact("def", pv, at))
		}
	}
	// named results start with their zero value
	for i := 0; i < sig.Results().Len(); i++ {
		if r := sig.Results().At(i); r.Name() != "" && r.Name() != "_" {
			add = append(add, zeroFacts(&Term{K: "var", S: r.Name(), Obj: r}, r.Type())...)
		}
	}
	e := &fstate{facts: entry.facts, key: entry.key, from: st, via: fmt.Sprintf("enter %s@L%d", callee.Name, f.eng.c.P.Fset.Position(c.Pos()).Line)}
	if ns := e.with(add...); ns != nil {
		ns.from, ns.via = e.from, e.via
		e = ns
	}
	g.entry = e
	g.run()
	if g.widened {
		f.widened = true
	}
	res := &inlResult{}
	nres := sig.Results().Len()
	chain := fmt.Sprintf("%s>%s@L%d", f.chainStr(), callee.Name, f.eng.c.P.Fset.Position(c.Pos()).Line)
	for _, s := range g.sites {
		if s.kind != "ret" {
			if s.chain == "" {
				s.chain = chain
			}
			res.sites = append(res.sites, s)
			continue
		}
		for i, es := range s.states {
			ns := es
			var more []*Term
			if g.errIdx >= 0 && i < len(s.sure) && s.sure[i] {
				if s.ok[i] {
					more = append(more, fact("ok", ct))
					if g.errBool && nres == 1 {
						more = append(more, fact("true", ct))
					}
				} else {
					more = append(more, fact("fail", ct))
					if g.errBool && nres == 1 {
						more = append(more, fact("false", ct))
					}
				}
			}
			// result values: a returned local becomes res(i, call); any other operand is equated with it
			for j, op := range s.term.A {
				r := mk("res", fmt.Sprint(j), ct)
				if nres == 1 {
					r = ct // the value of a single-result call is the call term itself
				}
				if op.K == "var" && g.isLocalObj(op.Obj) {
					// a returned local that holds a fresh allocation (new(T), &T{...}) is never nil
					if d := g.defOf(ns, op); d != nil && len(d.A) == 2 {
						v := d.A[1]
						if (v.K == "call" && v.S == "new") || (v.K == "op" && v.S == "&" && len(v.A) == 1 && v.A[0].K == "lit") {
							more = append(more, fact("nonnil", r))
						}
					}
					n2 := ns.clone()
					ok := op.Key()
					for k, fc := range ns.facts {
						if fc.S == "orig" {
							continue
						}
						if nf := replaceTerm(fc, ok, r); nf != nil {
							delete(n2.facts, k)
							n2.facts[nf.Key()] = nf
						}
					}
					n2.key = ""
					ns = n2
				} else if op.K == "res" {
					// tail call of another interpreted helper: its result i is this call's result j
					n2 := ns.clone()
					ok := op.Key()
					for k, fc := range ns.facts {
						if nf := replaceTerm(fc, ok, r); nf != nil {
							n2.facts[nf.Key()] = nf
							_ = k
						}
					}
					n2.key = ""
					ns = n2
					more = append(more, fact("eq", r, op))
				} else {
					more = append(more, fact("eq", r, op))
					if op.K == "nil" {
						more = append(more, fact("nil", r))
					}
				}
			}
			for mi, m := range more {
				// the values equated with the results are spelled in the caller's vocabulary like every other exit fact
				if mentionsLocalOf(m, g) {
					tmp := ns.clone()
					tmp.facts[m.Key()] = m
					tmp = g.projectLocals(tmp)
					for _, pf := range tmp.facts {
						if pf.S == m.S && len(pf.A) == len(m.A) && pf.A[0].Key() == m.A[0].Key() {
							if _, old := ns.facts[pf.Key()]; !old {
								more[mi] = pf
							}
						}
					}
				}
			}
			ns = g.projectLocals(ns)
			ns = f.eng.filterDelta(ns, e)
			for _, m := range more {
				if m.S == "eq" {
					// what an interpreted helper returned stays known to the callers of its caller
					if f.eng.valueEq == nil {
						f.eng.valueEq = map[string]bool{}
					}
					f.eng.valueEq[m.Key()] = true
				}
			}
			out := ns.with(more...)
			if out == nil {
				continue
			}
			res.exits = append(res.exits, &fstate{facts: out.facts, from: es, via: "return from " + callee.Name})
		}
	}
	res.exits = dedupStates(res.exits)
	if os.Getenv("E1DEBUG") != "" {
		fmt.Fprintf(os.Stderr, "inline %s%s>%s: %d exits, %d sites, visits %d\n", strings.Repeat("  ", f.depth), f.fi.Name, callee.Name, len(res.exits), len(res.sites), g.visits)
	}
	if len(res.exits) > e1InlineExits {
		// too many distinguishable outcomes: keep one per status (what all of them have in common)
		f.eng.collapsed++
		okK, failK := fact("ok", ct).Key(), fact("fail", ct).Key()
		groups := map[string][]*fstate{}
		for _, x := range res.exits {
			k := "unsure"
			if _, has := x.facts[okK]; has {
				k = "ok"
			} else if _, has := x.facts[failK]; has {
				k = "fail"
			}
			groups[k] = append(groups[k], x)
		}
		res.exits = nil
		for _, k := range []string{"ok", "fail", "unsure"} {
			if len(groups[k]) > 0 {
				m := intersect(groups[k])
				m.from, m.via = groups[k][0], "return from "+callee.Name+" (outcomes merged)"
				res.exits = append(res.exits, m)
			}
		}
	}
	return res
}

const e1InlineExits = 32

// projectLocals: when a helper returns, facts about its own variables are re-expressed through their definitions
// where possible and dropped otherwise (its variables are out of scope for the caller).
func (g *e1func) projectLocals(st *fstate) *fstate {
	defs := map[string]*Term{}
	any := false
	for _, fc := range st.facts {
		if mentionsLocalOf(fc, g) {
			any = true
			if fc.S == "def" && len(fc.A) == 2 && fc.A[0].K == "var" {
				defs[fc.A[0].Key()] = fc.A[1]
			} else if fc.S == "def" && len(fc.A) == 3 && fc.A[0].K == "var" {
				if _, dup := defs[fc.A[0].Key()]; !dup {
					defs[fc.A[0].Key()] = mk("res", fc.A[2].S, fc.A[1]) // v is result i of that call / assertion / lookup
				}
			}
		}
	}
	if !any {
		return st
	}
	var expand func(t *Term, depth int) *Term
	expand = func(t *Term, depth int) *Term {
		if t.K == "var" && g.isLocalObj(t.Obj) {
			if d, ok := defs[t.Key()]; ok && depth < 5 {
				return expand(d, depth+1)
			}
			return t
		}
		if len(t.A) == 0 {
			return t
		}
		n := &Term{K: t.K, S: t.S, Obj: t.Obj}
		for _, a := range t.A {
			n.A = append(n.A, expand(a, depth))
		}
		return n
	}
	n := &fstate{facts: make(map[string]*Term, len(st.facts)), from: st.from, via: st.via}
	for k, fc := range st.facts {
		if !mentionsLocalOf(fc, g) {
			n.facts[k] = fc
			continue
		}
		if (fc.S == "def" || fc.S == "defx" || fc.S == "orig" || fc.S == "inloop") && len(fc.A) >= 1 && fc.A[0].K == "var" && g.isLocalObj(fc.A[0].Obj) {
			continue
		}
		x := expand(fc, 0)
		if mentionsLocalOf(x, g) {
			// a context the helper derived for itself (ctx, span := tracer.Start(ctx, ...)) is "some context": the tables never
			// distinguish contexts except by their construction, which a def fact of the caller's own variable records
			x = g.anonContexts(x)
		}
		if mentionsLocalOf(x, g) && (fc.S == "called" || strings.HasPrefix(fc.S, "did")) {
			// an event that happened inside the helper stays true for the caller; the helper's own variables it mentions are
			// out of scope there and become opaque values (obligations name such positions with `_`)
			x = g.opaqueLocals(x)
		}
		if !mentionsLocalOf(x, g) {
			n.facts[x.Key()] = x
		}
	}
	return n
}

func (g *e1func) anonContexts(t *Term) *Term {
	var rec func(t *Term) *Term
	rec = func(t *Term) *Term {
		if t.K == "var" && g.isLocalObj(t.Obj) && typeStr(t.Obj.Type()) == "context.Context" {
			return mk("const", "ctx·")
		}
		if len(t.A) == 0 {
			return t
		}
		n := &Term{K: t.K, S: t.S, Obj: t.Obj}
		for _, a := range t.A {
			n.A = append(n.A, rec(a))
		}
		return n
	}
	return rec(t)
}

var opaqueSeq int

func (g *e1func) opaqueLocals(t *Term) *Term {
	if g.opaqueID == 0 {
		// named after the call site, not after the activation: the locals of a helper interpreted once per loop iteration
		// become the same opaque value each time, so the state set of the loop converges
		if g.callPos.IsValid() {
			g.opaqueID = int(g.callPos)
		} else {
			opaqueSeq++
			g.opaqueID = opaqueSeq
		}
	}
	var rec func(t *Term) *Term
	rec = func(t *Term) *Term {
		if t.K == "var" && g.isLocalObj(t.Obj) {
			return mk("const", fmt.Sprintf("%s·%d", t.S, g.opaqueID))
		}
		if len(t.A) == 0 {
			return t
		}
		n := &Term{K: t.K, S: t.S, Obj: t.Obj}
		for _, a := range t.A {
			n.A = append(n.A, rec(a))
		}
		return n
	}
	return rec(t)
}

func (f *e1func) chainStr() string {
	if f.parent == nil {
		return ""
	}
	return fmt.Sprintf("%s>%s@L%d", f.parent.chainStr(), f.fi.Name, f.eng.c.P.Fset.Position(f.callPos).Line)
}

// copyResultFacts: after `x, y := call` (or x := call), everything known about res(i, call) is also known about x.
func copyResultFacts(st *fstate, call *Term, lhs []*Term) *fstate {
	var n *fstate
	for i, lt := range lhs {
		if lt == nil || lt.K != "var" {
			continue
		}
		rk := mk("res", fmt.Sprint(i), call).Key()
		if len(lhs) == 1 {
			rk = call.Key() // x := call(): facts about the call's value (not about the call event) hold for x
		}
		for _, k := range sortedKeys(st.facts) {
			fc := st.facts[k]
			if !strings.Contains(k, rk) {
				continue
			}
			if len(lhs) == 1 {
				switch fc.S {
				case "ok", "fail", "called", "def", "defx", "true", "false":
					if len(fc.A) >= 1 && (fc.A[0].Key() == rk || (len(fc.A) >= 2 && fc.A[1].Key() == rk)) {
						continue // about the call event / the definition itself
					}
				}
			}
			if nf := replaceTerm(fc, rk, lt); nf != nil {
				if n == nil {
					n = st.clone()
				}
				n.facts[nf.Key()] = nf
			}
		}
	}
	if n == nil {
		return st
	}
	n.key = ""
	return n
}


// filterDelta: of the facts a helper added to the entry state, only those some specification clause can use
// (or an engine asked for) travel back to the caller; this keeps the number of distinguishable outcomes small.
func (e *e1) filterDelta(exit, entry *fstate) *fstate {
	var n *fstate
	for k, fc := range exit.facts {
		if _, had := entry.facts[k]; had {
			continue
		}
		if e.isRelevant(fc) {
			continue
		}
		if n == nil {
			n = exit.clone()
		}
		delete(n.facts, k)
	}
	if n == nil {
		return exit
	}
	n.key = ""
	return n
}

func (e *e1) isRelevant(fc *Term) bool {
	if os.Getenv("E1KEEPALL") != "" {
		return true
	}
	if !factPreds[fc.S] {
		return true // abstract predicate established by a guarantee
	}
	switch fc.S {
	case "called", "orig", "errIs":
		return true // errIs: how the helper classified an error (a sentinel) is what the error-edge rules ask about
	}
	if strings.HasPrefix(fc.S, "did") {
		return true
	}
	k := fc.Key()
	if fc.S == "eq" && e.valueEq[k] {
		return true
	}
	if fc.S == "eq" && len(fc.A) == 2 && fc.A[0].K == "sel" && len(fc.A[0].A) == 1 && (fc.A[0].A[0].K == "var" || fc.A[0].A[0].K == "call" || fc.A[0].A[0].K == "res") {
		return true // a field store through a value the caller handed in, or into the value the helper returns (builder helpers filling in a struct): part of the value the caller goes on to use
	}
	if fc.S == "def" && len(fc.A) == 2 && (fc.A[0].K == "call" || fc.A[0].K == "res") {
		if v := fc.A[1]; (v.K == "call" && v.S == "new") || (v.K == "op" && v.S == "&" && len(v.A) == 1 && v.A[0].K == "lit") || v.K == "lit" {
			return true // the returned value is a fresh allocation of that type
		}
	}
	if r, ok := e.relCache[k]; ok {
		return r
	}
	if e.relCache == nil {
		e.relCache = map[string]bool{}
	}
	r := false
	if e.relevantFn != nil && e.relevantFn(fc) {
		r = true
	}
	if !r {
		for _, p := range e.relevant {
			if p.S != fc.S {
				continue
			}
			if unify(p, fc, Bind{}) {
				r = true
				break
			}
		}
	}
	e.relCache[k] = r
	return r
}

// addRelevant registers the atoms of requirement clauses as facts worth carrying out of helpers.
func (e *e1) addRelevant(clauses ...string) {
	for _, src := range clauses {
		if src == "" {
			continue
		}
		if e.relSeen[src] {
			continue
		}
		if e.relSeen == nil {
			e.relSeen = map[string]bool{}
		}
		e.relSeen[src] = true
		for _, alt := range mustClause(src).Alts {
			for _, a := range alt {
				if a.K == "fact" {
					e.relevant = append(e.relevant, a)
					// the body of a quantified requirement is established element by element inside helpers
					if (a.S == "all" || a.S == "some") && len(a.A) == 2 && a.A[1].K == "fact" {
						var wild func(t *Term) *Term
						wild = func(t *Term) *Term {
							if t.K == "elem" || t.K == "key" {
								return mk("wild", "")
							}
							if len(t.A) == 0 {
								return t
							}
							n := &Term{K: t.K, S: t.S, Obj: t.Obj}
							for _, x := range t.A {
								n.A = append(n.A, wild(x))
							}
							return n
						}
						e.relevant = append(e.relevant, wild(a.A[1]))
					}
				}
			}
		}
		e.relCache = nil
	}
}
