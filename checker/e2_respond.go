package main

// E2 — respond-once typestate for HTTP handlers (go/cfg + go/types).
//
// Subjects: every function or closure in scope with an http.ResponseWriter parameter.
// Per path the engine tracks an abstract response count and whether an error responder
// has fired; see DESIGN.md §2 E2 for the rules R-once, R-stop, R-answer.

import (
	"fmt"
	"go/ast"
	"go/token"
	"go/types"
	"sort"
	"strings"

	"golang.org/x/tools/go/cfg"
	"golang.org/x/tools/go/types/typeutil"
)

type rcount uint8

const (
	c0 rcount = iota // nothing written
	cH               // status line committed (WriteHeader), body open
	cB               // body being written by primitive writes
	cC               // answered by a complete responder
	c2               // answered twice
	cG               // peer gone (a write to the ResponseWriter failed): nothing counts any more
)

func (c rcount) String() string { return [...]string{"0", "H", "B", "1", "2+", "gone"}[c] }

func combine(a, b rcount) rcount {
	if a == cG || b == cG {
		return cG
	}
	if a == c2 || b == c2 {
		return c2
	}
	switch a {
	case c0:
		return b
	case cH:
		switch b {
		case c0:
			return cH
		case cB:
			return cB
		default:
			return c2
		}
	case cB:
		switch b {
		case c0, cB:
			return cB
		default:
			return c2
		}
	case cC:
		if b == c0 {
			return cC
		}
		return c2
	}
	return c2
}

type nilk uint8

const (
	kUnk nilk = iota
	kNil
	kNon
)

type e2state struct {
	cnt     rcount
	stopped string // "" or the construct id of the error responder that fired
	nils    string // canonical encoding of var->kind
	wfail   string // var holding the error of a primitive write to w ("" if none)
}

type e2summary struct {
	pairs map[[2]uint8]bool // (cnt, exit kind)
	errRs bool              // function is an error responder (table)
}

type e2 struct {
	c        *Ctx
	subjects []*FuncInfo
	summ     map[*FuncInfo]*e2summary
	inprog   map[*FuncInfo]bool
	byObj    map[*types.Func]*FuncInfo
	rwType   types.Type
	errType  types.Type
	report   bool
}

// error responders by spec name (R-stop): confirmed by reading.
var e2ErrorResponders = map[string]bool{
	"net/http.Error":       true,
	"net/http.NotFound":    true,
	"op.RequestError":      true,
	"op.WriteError":        true,
	"op.writeError":        true,
	"op.AuthRequestError":  true,
	"client/rp.unauthorizedError": true,
}

// isErrResponder: the reviewed table, or - derived, so that private helpers may come and go - an in-module function
// without results that takes the ResponseWriter together with an error value (error, *oidc.Error, StatusError):
// its purpose is to answer with that error.
func (e *e2) isErrResponder(name string, fn *types.Func) bool {
	if e2ErrorResponders[name] {
		return true
	}
	if fn == nil || fn.Pkg() == nil || !inModule(fn.Pkg().Path()) {
		return false
	}
	sig, ok := fn.Type().(*types.Signature)
	if !ok || sig.Results().Len() != 0 {
		return false
	}
	hasW, hasErr := false, false
	for i := 0; i < sig.Params().Len(); i++ {
		t := sig.Params().At(i).Type()
		if e.rwType != nil && types.Identical(t, e.rwType) {
			hasW = true
		} else if e.errType != nil && types.Implements(t, e.errType.Underlying().(*types.Interface)) && !types.IsInterface(t) || (e.errType != nil && types.Identical(t, e.errType)) {
			hasErr = true
		}
	}
	return hasW && hasErr
}

// out-of-module callees that take the ResponseWriter: effect on the response.
var e2ExternalW = map[string]rcount{
	"net/http.Error":          cC,
	"net/http.Redirect":       cC,
	"net/http.NotFound":       cC,
	"net/http.ServeContent":   cC,
	"net/http.SetCookie":      c0,
	"net/http.MaxBytesReader": c0,
	"fmt.Fprint":              cB,
	"fmt.Fprintf":             cB,
	"fmt.Fprintln":            cB,
	"io.WriteString":          cB,
	"io.Copy":                 cB,
	"encoding/json.NewEncoder": c0, // NewEncoder(w).Encode(x): counted at Encode
	"(*bytes.Buffer).WriteTo":             cB,
	"(*html/template.Template).Execute":   cB,
	"(*text/template.Template).Execute":   cB,
}

// calls allowed after an error responder (logging / tracing / cancel only).
func e2Harmless(fn *types.Func) bool {
	if fn == nil || fn.Pkg() == nil {
		return false
	}
	p := fn.Pkg().Path()
	if p == "log/slog" || p == "log" || strings.HasPrefix(p, "go.opentelemetry.io/") || p == "github.com/zitadel/logging" {
		return true
	}
	return false
}

func newE2(c *Ctx) *e2 {
	e := &e2{c: c, summ: map[*FuncInfo]*e2summary{}, inprog: map[*FuncInfo]bool{}, byObj: map[*types.Func]*FuncInfo{}}
	if hp := c.P.ByPath["net/http"]; hp != nil {
		if o := hp.Types.Scope().Lookup("ResponseWriter"); o != nil {
			e.rwType = o.Type()
		}
	}
	e.errType = types.Universe.Lookup("error").Type()
	for _, fi := range c.P.Funcs {
		if fi.Obj != nil {
			e.byObj[fi.Obj] = fi
		}
		if fi.Body == nil || fi.Sig == nil {
			continue
		}
		if len(e.writerParams(fi)) > 0 {
			e.subjects = append(e.subjects, fi)
		}
	}
	return e
}

func (e *e2) writerParams(fi *FuncInfo) []*types.Var {
	var out []*types.Var
	if fi.Sig == nil || e.rwType == nil {
		return nil
	}
	for i := 0; i < fi.Sig.Params().Len(); i++ {
		v := fi.Sig.Params().At(i)
		if types.Identical(v.Type(), e.rwType) {
			out = append(out, v)
		}
	}
	return out
}

// calleeName returns the table name of a static callee.
func calleeName(fn *types.Func) string {
	if fn == nil {
		return ""
	}
	if fn.Pkg() != nil && inModule(fn.Pkg().Path()) {
		return FuncName(fn)
	}
	sig, _ := fn.Type().(*types.Signature)
	if sig != nil && sig.Recv() != nil {
		t := sig.Recv().Type()
		ptr := ""
		if pt, ok := t.(*types.Pointer); ok {
			ptr = "*"
			t = pt.Elem()
		}
		if n, ok := t.(*types.Named); ok && n.Obj().Pkg() != nil {
			if ptr != "" {
				return "(*" + n.Obj().Pkg().Path() + "." + n.Obj().Name() + ")." + fn.Name()
			}
			return n.Obj().Pkg().Path() + "." + n.Obj().Name() + "." + fn.Name()
		}
		return "(" + t.String() + ")." + fn.Name()
	}
	if fn.Pkg() != nil {
		return fn.Pkg().Path() + "." + fn.Name()
	}
	return fn.Name()
}

// postorderCalls lists the calls of a cfg node in evaluation order (arguments before the call),
// not descending into function literals.
func postorderCalls(n ast.Node) []*ast.CallExpr {
	var out []*ast.CallExpr
	var walk func(n ast.Node)
	walk = func(n ast.Node) {
		if n == nil {
			return
		}
		switch x := n.(type) {
		case *ast.FuncLit:
			return
		case *ast.CallExpr:
			walk(x.Fun)
			for _, a := range x.Args {
				walk(a)
			}
			out = append(out, x)
			return
		}
		ast.Inspect(n, func(m ast.Node) bool {
			if m == n {
				return true
			}
			if m == nil {
				return false
			}
			walk(m)
			return false
		})
	}
	walk(n)
	return out
}

func unparen(e ast.Expr) ast.Expr {
	for {
		p, ok := e.(*ast.ParenExpr)
		if !ok {
			return e
		}
		e = p.X
	}
}

type e2effect struct {
	kind     rcount
	errResp  bool
	in       *FuncInfo // in-module summarised callee (kind ignored)
	name     string
	harmless bool
	signif   bool // a call that counts as "continuing" for R-stop
	wwrite   bool // primitive write whose error signals a gone peer
}

func (e *e2) isW(info *types.Info, x ast.Expr, ws map[*types.Var]bool) bool {
	id, ok := unparen(x).(*ast.Ident)
	if !ok {
		return false
	}
	v, _ := info.Uses[id].(*types.Var)
	return v != nil && ws[v]
}

func (e *e2) classify(fi *FuncInfo, call *ast.CallExpr, ws map[*types.Var]bool) e2effect {
	info := fi.Pkg.TypesInfo
	passesW := false
	for _, a := range call.Args {
		if e.isW(info, a, ws) {
			passesW = true
		}
	}
	recvW := false
	if sel, ok := unparen(call.Fun).(*ast.SelectorExpr); ok && e.isW(info, sel.X, ws) {
		recvW = true
	}
	if tv, ok := info.Types[call.Fun]; ok && tv.IsType() {
		return e2effect{name: "conversion", harmless: true}
	}
	fn, _ := typeutil.Callee(info, call).(*types.Func)
	if fn == nil {
		if id, ok := unparen(call.Fun).(*ast.Ident); ok {
			if _, isB := info.Uses[id].(*types.Builtin); isB {
				return e2effect{name: id.Name, harmless: true}
			}
		}
		// dynamic call of a function value
		nm := "dynamic:" + types.ExprString(call.Fun)
		if passesW {
			return e2effect{kind: cC, name: nm, signif: true, errResp: strings.Contains(nm, "ErrorHandler()") || strings.Contains(nm, "UnauthorizedHandler()")}
		}
		return e2effect{name: nm, signif: true}
	}
	name := calleeName(fn)
	sig := fn.Type().(*types.Signature)
	isIface := sig.Recv() != nil && types.IsInterface(sig.Recv().Type())
	// json.NewEncoder(w).Encode(x): the write happens at Encode
	if sel, ok := unparen(call.Fun).(*ast.SelectorExpr); ok && name == "(*encoding/json.Encoder).Encode" {
		if inner, ok := unparen(sel.X).(*ast.CallExpr); ok {
			for _, a := range inner.Args {
				if e.isW(info, a, ws) {
					return e2effect{kind: cB, name: "json.NewEncoder(w).Encode", wwrite: true}
				}
			}
		}
	}
	if recvW {
		switch fn.Name() {
		case "WriteHeader":
			return e2effect{kind: cH, name: "w.WriteHeader"}
		case "Write":
			return e2effect{kind: cB, name: "w.Write", wwrite: true}
		default:
			return e2effect{name: "w." + fn.Name(), harmless: true}
		}
	}
	mod := fn.Pkg() != nil && inModule(fn.Pkg().Path())
	if passesW {
		if isIface {
			return e2effect{kind: cC, name: "dynamic:" + name, signif: true}
		}
		if mod {
			if callee := e.byObj[fn.Origin()]; callee != nil && callee.Body != nil {
				return e2effect{in: callee, name: name, errResp: e.isErrResponder(name, fn), signif: true}
			}
			return e2effect{kind: cC, name: name, signif: true, errResp: e.isErrResponder(name, fn)}
		}
		if k, ok := e2ExternalW[name]; ok {
			return e2effect{kind: k, name: name, errResp: e2ErrorResponders[name], wwrite: k == cB}
		}
		return e2effect{kind: c2, name: "UNCLASSIFIED:" + name}
	}
	if e2Harmless(fn) {
		return e2effect{name: name, harmless: true}
	}
	if mod || isIface {
		return e2effect{name: name, signif: true}
	}
	return e2effect{name: name}
}

// ---- nil-kind map encoding ----

func nilsGet(enc string, v string) nilk {
	for _, kv := range strings.Split(enc, ";") {
		if strings.HasPrefix(kv, v+"=") {
			switch kv[len(v)+1:] {
			case "n":
				return kNil
			case "e":
				return kNon
			}
		}
	}
	return kUnk
}

func nilsSet(enc string, v string, k nilk) string {
	var parts []string
	for _, kv := range strings.Split(enc, ";") {
		if kv == "" || strings.HasPrefix(kv, v+"=") {
			continue
		}
		parts = append(parts, kv)
	}
	switch k {
	case kNil:
		parts = append(parts, v+"=n")
	case kNon:
		parts = append(parts, v+"=e")
	}
	sort.Strings(parts)
	return strings.Join(parts, ";")
}

func varKey(v *types.Var) string { return fmt.Sprintf("%s@%d", v.Name(), v.Pos()) }

// ---- analysis of one subject ----

type e2result struct {
	exits   map[[2]uint8]bool
	finds   []Finding
	resp    int // number of responder call sites
	unmod   []string
	visited int
}

func (e *e2) summary(fi *FuncInfo) *e2summary {
	if s, ok := e.summ[fi]; ok {
		return s
	}
	if e.inprog[fi] {
		return &e2summary{pairs: map[[2]uint8]bool{{uint8(cC), uint8(kUnk)}: true}}
	}
	e.inprog[fi] = true
	res := e.analyse(fi)
	delete(e.inprog, fi)
	s := &e2summary{pairs: res.exits, errRs: e2ErrorResponders[fi.Name] || (fi.Obj != nil && e.isErrResponder(fi.Name, fi.Obj))}
	e.summ[fi] = s
	return s
}

func (e *e2) lastErrResult(sig *types.Signature) int {
	if sig == nil {
		return -1
	}
	for i := sig.Results().Len() - 1; i >= 0; i-- {
		if types.Identical(sig.Results().At(i).Type(), e.errType) {
			return i
		}
	}
	return -1
}

func (e *e2) analyse(fi *FuncInfo) *e2result {
	info := fi.Pkg.TypesInfo
	res := &e2result{exits: map[[2]uint8]bool{}}
	ws := map[*types.Var]bool{}
	for _, v := range e.writerParams(fi) {
		ws[v] = true
	}
	// closures capturing an outer writer are analysed with it as "their" writer too
	for p := fi.Parent; p != nil; p = p.Parent {
		for _, v := range e.writerParams(p) {
			ws[v] = true
		}
	}
	g := fi.CFG()
	if g == nil || len(g.Blocks) == 0 {
		return res
	}
	errIdx := e.lastErrResult(fi.Sig)
	ordinal := map[string]int{}
	siteID := map[*ast.CallExpr]string{}
	// pre-number call sites in source order for stable construct ids
	ast.Inspect(fi.Body, func(n ast.Node) bool {
		if _, ok := n.(*ast.FuncLit); ok {
			return false
		}
		if c, ok := n.(*ast.CallExpr); ok {
			eff := e.classify(fi, c, ws)
			ordinal[eff.name]++
			siteID[c] = fmt.Sprintf("%s#%d", eff.name, ordinal[eff.name])
		}
		return true
	})
	retOrd := 0
	retID := map[ast.Node]string{}
	ast.Inspect(fi.Body, func(n ast.Node) bool {
		if _, ok := n.(*ast.FuncLit); ok {
			return false
		}
		if r, ok := n.(*ast.ReturnStmt); ok {
			retOrd++
			retID[r] = fmt.Sprintf("return#%d", retOrd)
		}
		return true
	})

	in := make([]map[e2state]bool, len(g.Blocks))
	for i := range in {
		in[i] = map[e2state]bool{}
	}
	in[0][e2state{}] = true
	work := []int32{0}
	onwork := map[int32]bool{0: true}
	seenFind := map[string]bool{}
	addFind := func(rule, construct string, pos token.Pos, msg string) {
		k := rule + "|" + construct
		if seenFind[k] {
			return
		}
		seenFind[k] = true
		res.finds = append(res.finds, Finding{Rule: rule, Func: fi.Name, Construct: construct, Pos: e.c.P.Position(pos), Msg: msg, Ctl: fi.Ctl})
	}
	respSites := map[*ast.CallExpr]bool{}

	// transfer of one node over one state; returns resulting states
	var applyCall func(st e2state, call *ast.CallExpr, assignedErr *types.Var) []e2state
	applyCall = func(st e2state, call *ast.CallExpr, assignedErr *types.Var) []e2state {
		eff := e.classify(fi, call, ws)
		id := siteID[call]
		if strings.HasPrefix(eff.name, "UNCLASSIFIED:") {
			addFind("E2.unmodelled", id, call.Pos(), "ResponseWriter passed to a callee the respond-once table does not classify: "+eff.name)
			return []e2state{st}
		}
		if st.stopped != "" && (eff.signif || eff.kind != c0 || eff.in != nil) && st.cnt != cG {
			addFind("E2.R-stop", "after "+st.stopped, call.Pos(),
				fmt.Sprintf("handler keeps working after it answered with an error: %s is evaluated on a path after error responder %s", eff.name, st.stopped))
		}
		var outs []e2state
		if eff.in != nil {
			sm := e.summary(eff.in)
			for pr := range sm.pairs {
				n := st
				if rcount(pr[0]) == c2 {
					pr[0] = uint8(cC) // already reported inside the callee
				}
				n.cnt = combine(st.cnt, rcount(pr[0]))
				if rcount(pr[0]) != c0 {
					respSites[call] = true
				}
				if n.cnt == c2 && st.cnt != c2 && st.stopped == "" {
					addFind("E2.R-once", "second response: "+id, call.Pos(),
						fmt.Sprintf("%s answers (count %s) on a path that has already answered (count %s)", eff.name, rcount(pr[0]), st.cnt))
				}
				if eff.errResp && rcount(pr[0]) != c0 {
					n.stopped = id
				}
				if assignedErr != nil {
					n.nils = nilsSet(n.nils, varKey(assignedErr), nilk(pr[1]))
					if rcount(pr[0]) == cG {
						n.cnt = combine(st.cnt, cG)
					}
				}
				outs = append(outs, n)
			}
			if len(outs) == 0 { // callee never returns normally
				return nil
			}
			return outs
		}
		n := st
		if eff.kind != c0 {
			respSites[call] = true
			n.cnt = combine(st.cnt, eff.kind)
			if n.cnt == c2 && st.cnt != c2 && st.stopped == "" {
				addFind("E2.R-once", "second response: "+id, call.Pos(),
					fmt.Sprintf("%s answers on a path that has already answered (count %s)", eff.name, st.cnt))
			}
			if eff.errResp {
				n.stopped = id
			}
			if eff.wwrite && assignedErr != nil {
				n.wfail = varKey(assignedErr)
			}
		}
		return []e2state{n}
	}

	// errVarOfAssign: if stmt assigns the error result of its single call RHS to a variable, return it
	errVarOf := func(lhs []ast.Expr, call *ast.CallExpr) *types.Var {
		tv, ok := info.Types[call]
		if !ok {
			return nil
		}
		pick := func(x ast.Expr) *types.Var {
			id, ok := x.(*ast.Ident)
			if !ok || id.Name == "_" {
				return nil
			}
			if v, ok := info.Defs[id].(*types.Var); ok && v != nil {
				return v
			}
			v, _ := info.Uses[id].(*types.Var)
			return v
		}
		if tup, ok := tv.Type.(*types.Tuple); ok {
			for i := tup.Len() - 1; i >= 0; i-- {
				if types.Identical(tup.At(i).Type(), e.errType) && i < len(lhs) {
					return pick(lhs[i])
				}
			}
			return nil
		}
		if types.Identical(tv.Type, e.errType) && len(lhs) == 1 {
			return pick(lhs[0])
		}
		return nil
	}

	transferNode := func(states []e2state, n ast.Node) []e2state {
		switch s := n.(type) {
		case *ast.DeferStmt, *ast.GoStmt:
			var call *ast.CallExpr
			if d, ok := s.(*ast.DeferStmt); ok {
				call = d.Call
			} else {
				call = s.(*ast.GoStmt).Call
			}
			for _, a := range call.Args {
				if e.isW(info, a, ws) {
					addFind("E2.unmodelled", "defer/go with ResponseWriter", call.Pos(), "ResponseWriter handed to a deferred or asynchronous call")
				}
			}
			return states
		}
		// which variable receives the error of the outermost call, and which are overwritten
		var lhs []ast.Expr
		var outer *ast.CallExpr
		if as, ok := n.(*ast.AssignStmt); ok {
			lhs = as.Lhs
			if len(as.Rhs) == 1 {
				outer, _ = unparen(as.Rhs[0]).(*ast.CallExpr)
			}
		}
		if vs, ok := n.(*ast.DeclStmt); ok {
			_ = vs
		}
		calls := postorderCalls(n)
		cur := states
		for _, call := range calls {
			var ev *types.Var
			if call == outer {
				ev = errVarOf(lhs, call)
			}
			var next []e2state
			for _, st := range cur {
				next = append(next, applyCall(st, call, ev)...)
			}
			cur = dedup(next)
		}
		// statements after an error responder other than return/logging: R-stop (strict form)
		if len(calls) == 0 {
			switch n.(type) {
			case *ast.ReturnStmt:
			default:
				if _, isExpr := n.(ast.Expr); !isExpr {
					for _, st := range cur {
						if st.stopped != "" && st.cnt != cG {
							addFind("E2.R-stop", "after "+st.stopped, n.Pos(),
								"handler evaluates further statements after error responder "+st.stopped)
						}
					}
				}
			}
		}
		// kill nil-kinds of overwritten variables (unless just set by the summarised call)
		if as, ok := n.(*ast.AssignStmt); ok {
			var keep *types.Var
			if outer != nil {
				if eff := e.classify(fi, outer, ws); eff.in != nil || eff.wwrite {
					keep = errVarOf(lhs, outer)
				}
			}
			for _, l := range as.Lhs {
				id, ok := l.(*ast.Ident)
				if !ok {
					continue
				}
				v, _ := info.Defs[id].(*types.Var)
				if v == nil {
					v, _ = info.Uses[id].(*types.Var)
				}
				if v == nil || v == keep {
					continue
				}
				for i := range cur {
					cur[i].nils = nilsSet(cur[i].nils, varKey(v), kUnk)
					if cur[i].wfail == varKey(v) {
						cur[i].wfail = ""
					}
				}
			}
			cur = dedup(cur)
		}
		return cur
	}

	// condition filtering on nil tests of tracked error variables
	var filter func(st e2state, cond ast.Expr, val bool) (e2state, bool)
	filter = func(st e2state, cond ast.Expr, val bool) (e2state, bool) {
		cond = unparen(cond)
		switch c := cond.(type) {
		case *ast.UnaryExpr:
			if c.Op == token.NOT {
				return filter(st, c.X, !val)
			}
		case *ast.BinaryExpr:
			switch c.Op {
			case token.LAND:
				if val {
					s1, ok := filter(st, c.X, true)
					if !ok {
						return st, false
					}
					return filter(s1, c.Y, true)
				}
				return st, true
			case token.LOR:
				if !val {
					s1, ok := filter(st, c.X, false)
					if !ok {
						return st, false
					}
					return filter(s1, c.Y, false)
				}
				return st, true
			case token.EQL, token.NEQ:
				var id *ast.Ident
				if isNilIdent(info, c.Y) {
					id, _ = unparen(c.X).(*ast.Ident)
				} else if isNilIdent(info, c.X) {
					id, _ = unparen(c.Y).(*ast.Ident)
				}
				if id == nil {
					return st, true
				}
				v, _ := info.Uses[id].(*types.Var)
				if v == nil {
					return st, true
				}
				isNil := (c.Op == token.EQL) == val
				k := nilsGet(st.nils, varKey(v))
				if (k == kNil && !isNil) || (k == kNon && isNil) {
					return st, false
				}
				if isNil {
					st.nils = nilsSet(st.nils, varKey(v), kNil)
				} else {
					st.nils = nilsSet(st.nils, varKey(v), kNon)
					if st.wfail == varKey(v) {
						st.cnt = cG // the write to the peer failed
					}
				}
				return st, true
			}
		}
		return st, true
	}

	for len(work) > 0 {
		bi := work[0]
		work = work[1:]
		onwork[bi] = false
		b := g.Blocks[bi]
		if !b.Live {
			continue
		}
		var cur []e2state
		for st := range in[bi] {
			cur = append(cur, st)
		}
		sortStates(cur)
		res.visited++
		for _, n := range b.Nodes {
			cur = transferNode(cur, n)
		}
		if len(b.Succs) == 0 {
			// function exit: explicit return or fall off the end
			var ret *ast.ReturnStmt
			if len(b.Nodes) > 0 {
				ret, _ = b.Nodes[len(b.Nodes)-1].(*ast.ReturnStmt)
			}
			for _, st := range cur {
				k := kUnk
				if errIdx >= 0 {
					if ret != nil && len(ret.Results) == fi.Sig.Results().Len() {
						k = e.exprNilKind(info, st, ret.Results[errIdx])
					} else if ret != nil && len(ret.Results) == 0 && fi.Sig.Results().At(errIdx).Name() != "" {
						k = nilsGet(st.nils, varKey(fi.Sig.Results().At(errIdx)))
					}
				}
				cnt := st.cnt
				res.exits[[2]uint8{uint8(cnt), uint8(k)}] = true
				if e.report && cnt == c0 && isRootHandler(fi, e) {
					id := "fallthrough"
					pos := fi.Body.Rbrace
					if ret != nil {
						id, pos = retID[ret], ret.Pos()
					}
					addFind("E2.R-answer", "exit without response: "+id, pos, "root handler reaches its exit on a path that wrote no response")
				}
			}
			continue
		}
		for si, succ := range b.Succs {
			var outs []e2state
			if len(b.Succs) == 2 && len(b.Nodes) > 0 {
				if cond, ok := b.Nodes[len(b.Nodes)-1].(ast.Expr); ok {
					for _, st := range cur {
						if ns, ok := filter(st, cond, si == 0); ok {
							outs = append(outs, ns)
						}
					}
				} else {
					outs = cur
				}
			} else {
				outs = cur
			}
			changed := false
			for _, st := range outs {
				if !in[succ.Index][st] {
					in[succ.Index][st] = true
					changed = true
				}
			}
			if changed && !onwork[succ.Index] {
				onwork[succ.Index] = true
				work = append(work, succ.Index)
			}
		}
	}
	res.resp = len(respSites)
	return res
}

func isNilIdent(info *types.Info, x ast.Expr) bool {
	id, ok := unparen(x).(*ast.Ident)
	if !ok {
		return false
	}
	_, isNil := info.Uses[id].(*types.Nil)
	return isNil
}

func (e *e2) exprNilKind(info *types.Info, st e2state, x ast.Expr) nilk {
	x = unparen(x)
	if isNilIdent(info, x) {
		return kNil
	}
	if id, ok := x.(*ast.Ident); ok {
		if v, ok := info.Uses[id].(*types.Var); ok {
			return nilsGet(st.nils, varKey(v))
		}
	}
	switch x.(type) {
	case *ast.CompositeLit, *ast.UnaryExpr:
		return kNon
	}
	if call, ok := x.(*ast.CallExpr); ok {
		if fn, _ := typeutil.Callee(info, call).(*types.Func); fn != nil && neverNilError(fn) {
			return kNon
		}
	}
	return kUnk
}

// neverNilError: callees whose error-typed result is never nil (constructors of errors).
func neverNilError(fn *types.Func) bool {
	if fn.Pkg() == nil {
		return false
	}
	switch fn.Pkg().Path() + "." + fn.Name() {
	case "errors.New", "fmt.Errorf":
		return true
	}
	if inModule(fn.Pkg().Path()) {
		n := fn.Name()
		if strings.HasPrefix(n, "Err") || n == "NewStatusError" || n == "AsStatusError" || n == "DefaultToServerError" ||
			n == "WithDescription" || n == "WithParent" || n == "WithReturnParentToClient" {
			return true
		}
	}
	return false
}

func isRootHandler(fi *FuncInfo, e *e2) bool {
	if fi.Sig == nil || fi.Sig.Results().Len() != 0 {
		return false
	}
	if fi.Sig.Params().Len() != 2 {
		return false
	}
	if !types.Identical(fi.Sig.Params().At(0).Type(), e.rwType) {
		return false
	}
	return strings.HasSuffix(fi.Sig.Params().At(1).Type().String(), "net/http.Request")
}

func dedup(s []e2state) []e2state {
	m := map[e2state]bool{}
	var out []e2state
	for _, x := range s {
		if !m[x] {
			m[x] = true
			out = append(out, x)
		}
	}
	return out
}

func sortStates(s []e2state) {
	sort.Slice(s, func(i, j int) bool {
		a, b := s[i], s[j]
		if a.cnt != b.cnt {
			return a.cnt < b.cnt
		}
		if a.stopped != b.stopped {
			return a.stopped < b.stopped
		}
		if a.nils != b.nils {
			return a.nils < b.nils
		}
		return a.wfail < b.wfail
	})
}

var _ = cfg.New

// RunE2 evaluates R-once / R-stop / R-answer on all subjects.
func RunE2(c *Ctx) {
	e := newE2(c)
	if e.rwType == nil {
		c.R.Fail("anchor-unresolved", "-", "net/http.ResponseWriter", "type net/http.ResponseWriter not loaded")
		return
	}
	// verify the error-responder table resolves
	for name := range e2ErrorResponders {
		if strings.HasPrefix(name, "net/http.") {
			continue
		}
		if c.P.Fn(name) == nil {
			if i := strings.LastIndex(name, "."); i >= 0 && !ast.IsExported(name[i+1:]) {
				continue // private helper: may be merged or renamed; error responders are also derived from the signature
			}
			c.R.Fail("anchor-unresolved", name, "E2 error-responder table", "error responder "+name+" named in the E2 table no longer exists; re-point the table")
		}
	}
	// summaries first (no reporting), then a reporting pass
	for _, fi := range e.subjects {
		e.summary(fi)
	}
	e.report = true
	for _, fi := range e.subjects {
		res := e.analyse(fi)
		bad := map[string]bool{}
		for _, f := range res.finds {
			c.R.Find(f)
			bad[f.Rule] = true
		}
		for _, rule := range []string{"E2.R-once", "E2.R-stop", "E2.R-answer"} {
			if rule == "E2.R-answer" && !isRootHandler(fi, e) {
				continue
			}
			c.R.Obl(Obligation{Rule: rule, Func: fi.Name, Construct: "all paths", Pos: c.P.Position(fi.Pos()), Discharged: !bad[rule], Nontrivial: res.resp > 0,
				How: []string{fmt.Sprintf("%d responder call site(s), %d block visits, exits %s", res.resp, res.visited, exitString(res.exits))}, Ctl: fi.Ctl})
		}
		c.R.CallSites += res.resp
	}
}

func exitString(m map[[2]uint8]bool) string {
	var parts []string
	for k := range m {
		parts = append(parts, fmt.Sprintf("(%s,%s)", rcount(k[0]), [...]string{"?", "nil", "err"}[k[1]]))
	}
	sort.Strings(parts)
	return strings.Join(parts, "")
}
