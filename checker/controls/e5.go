package zzverifctl

import "github.com/zitadel/oidc/v3/pkg/oidc"

// the F6 shape: an error is built and dropped
func Bad_E5Rdiscard_dropped(kind string) (string, error) {
	switch kind {
	case "a":
		return "token", nil
	default:
		oidc.ErrInvalidRequest().WithDescription("unsupported")
	}
	return "", nil
}

func Good_E5Rdiscard_returned(kind string) (string, error) {
	switch kind {
	case "a":
		return "token", nil
	default:
		return "", oidc.ErrInvalidRequest().WithDescription("unsupported")
	}
}
