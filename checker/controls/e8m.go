package zzverifctl

import "encoding/json"

type ctlClaims struct {
	Iss    string         `json:"iss"`
	Claims map[string]any `json:"-"`
}

func (c *ctlClaims) MarshalJSON() ([]byte, error) {
	m := map[string]any{"iss": c.Iss}
	for k, v := range c.Claims {
		m[k] = v
	}
	return json.Marshal(m)
}

func ctlMarshal(v any) ([]byte, error) { return json.Marshal(v) }

// a by-value copy inside an interface is not addressable: the pointer-receiver MarshalJSON is skipped
func Bad_E8Rmarshalvalue_copy(c *ctlClaims) ([]byte, error) {
	cp := *c
	cp.Iss = "x"
	return ctlMarshal(cp)
}

func Good_E8Rmarshalvalue_pointer(c *ctlClaims) ([]byte, error) {
	cp := *c
	cp.Iss = "x"
	return ctlMarshal(&cp)
}
