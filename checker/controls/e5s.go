package zzverifctl

import "errors"

func ctlStorageCall(id string) (string, error) {
	if id == "" {
		return "", errors.New("storage down")
	}
	return id, nil
}

// error of a storage call ignored: the success return is reachable on its error edge
func Bad_E5Rstorage_ignored(id string) (string, error) {
	v, err := ctlStorageCall(id)
	if err != nil {
		v = "fallback"
	}
	return v, nil
}

func Bad_E5Rstorage_blank(id string) (string, error) {
	v, _ := ctlStorageCall(id)
	return v, nil
}

func Good_E5Rstorage_propagated(id string) (string, error) {
	v, err := ctlStorageCall(id)
	if err != nil {
		return "", err
	}
	return v, nil
}

// the seeded C10 shape: the first storage error is overwritten by a second call before anyone looks at it
func Bad_E5Rstorage_overwritten(id string) (string, error) {
	v, err := ctlStorageCall(id)
	if id != "x" {
		v, err = ctlStorageCall(id + "2")
	}
	if err != nil {
		return "", err
	}
	return v, nil
}

func ctlParse(id string) (*n1doc, error) {
	if id == "" {
		return nil, errors.New("bad")
	}
	return &n1doc{Name: id}, nil
}

// a guard that disappeared: err is overwritten by the next call, d may be nil
func Bad_E5Rexamined_lostguard(id string) (string, error) {
	d, err := ctlParse(id)
	v, err := ctlStorageCall(d.Name)
	if err != nil {
		return "", err
	}
	return v, nil
}

func Good_E5Rexamined_checked(id string) (string, error) {
	d, err := ctlParse(id)
	if err != nil {
		return "", err
	}
	v, err := ctlStorageCall(d.Name)
	if err != nil {
		return "", err
	}
	return v, nil
}

// a storage error assigned, in a deferred closure, to a variable that is not a named result: the caller never sees it
func Bad_E5Rstorage_deferredlost(id string) (string, error) {
	var err error
	defer func() {
		if _, derr := ctlStorageCall(id); derr != nil && err == nil {
			err = derr
		}
	}()
	return id, err
}

func Good_E5Rstorage_deferrednamed(id string) (v string, err error) {
	defer func() {
		if _, derr := ctlStorageCall(id); derr != nil && err == nil {
			err = derr
		}
	}()
	return id, nil
}
