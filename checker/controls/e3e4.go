package zzverifctl

import (
	"encoding/json"
	"errors"
	"time"
)

type n1doc struct{ Name string }

// the F3/F4 shape: decode into a pointer variable, then dereference
func Bad_E3N1_deref(data []byte) (string, error) {
	var d *n1doc
	if err := json.Unmarshal(data, &d); err != nil {
		return "", err
	}
	return d.Name, nil
}

func Good_E3N1_guarded(data []byte) (string, error) {
	var d *n1doc
	if err := json.Unmarshal(data, &d); err != nil {
		return "", err
	}
	if d == nil {
		return "", errors.New("null document")
	}
	return d.Name, nil
}

func n2lookup(key string) (*n1doc, bool) {
	if key == "" {
		return nil, false
	}
	if key == "opaque" {
		return nil, true
	}
	return &n1doc{Name: key}, true
}

// the F5 shape: success does not imply non-nil
func Bad_E3N2_belief(key string) string {
	d, ok := n2lookup(key)
	if !ok {
		return ""
	}
	return d.Name
}

func Good_E3N2_checked(key string) string {
	d, ok := n2lookup(key)
	if !ok {
		return ""
	}
	if d != nil {
		return d.Name
	}
	return ""
}

// the F2 shape: unchecked assertion on decoded data
func Bad_E4Rassert_element(data []byte) (string, error) {
	var v any
	if err := json.Unmarshal(data, &v); err != nil {
		return "", err
	}
	switch x := v.(type) {
	case []any:
		if len(x) > 0 {
			return x[0].(string), nil
		}
	}
	return "", nil
}

func Good_E4Rassert_commaok(data []byte) (string, error) {
	var v any
	if err := json.Unmarshal(data, &v); err != nil {
		return "", err
	}
	if s, ok := v.(string); ok {
		return s, nil
	}
	return "", errors.New("not a string")
}

func Bad_E4Rpanic_explicit(data []byte) {
	if len(data) == 0 {
		panic("empty")
	}
}

type Bad_E4Rrecursion_self struct{ A string }

func (r *Bad_E4Rrecursion_self) MarshalJSON() ([]byte, error) {
	return json.Marshal(r)
}

type Good_E4Rrecursion_alias struct{ A string }

func (r *Good_E4Rrecursion_alias) MarshalJSON() ([]byte, error) {
	type alias Good_E4Rrecursion_alias
	return json.Marshal((*alias)(r))
}

func n3verify(d *n1doc, v string) bool {
	if d == nil {
		return false
	}
	return d.Name == v
}

// the seeded C09 shape: the callee treats d as nullable, the caller dereferences it on the failure path
func Bad_E3N3_belief(d *n1doc, v string) error {
	if !n3verify(d, v) {
		return errors.New("mismatch for " + d.Name)
	}
	return nil
}

func Good_E3N3_guarded(d *n1doc, v string) error {
	if !n3verify(d, v) {
		if d != nil {
			return errors.New("mismatch for " + d.Name)
		}
		return errors.New("mismatch")
	}
	return nil
}

// the seeded C09B shape: a duration decoded from a response handed to time.NewTicker unchecked
func Bad_E4Rprecondition_ticker(intervalSeconds int) {
	interval := time.Duration(intervalSeconds) * time.Second
	if interval == 0 {
		interval = 5 * time.Second
	}
	t := time.NewTicker(interval)
	defer t.Stop()
}

func Good_E4Rprecondition_guarded(intervalSeconds int) {
	interval := time.Duration(intervalSeconds) * time.Second
	if interval <= 0 {
		interval = 5 * time.Second
	}
	t := time.NewTicker(interval)
	defer t.Stop()
}
