package zzverifctl

import (
	"net/http"
	"slices"
	"sort"
	"strings"
	"sync"
)

type e6Endpoints struct{ Auth *string }

var e6Defaults = &e6Endpoints{}

type e6Provider struct{ endpoints *e6Endpoints }

// the F11 shape: the package-level default is stored in the instance and written through
func Bad_E6Rglobal_aliased(custom *string) *e6Provider {
	p := &e6Provider{endpoints: e6Defaults}
	p.endpoints.Auth = custom
	return p
}

type e6Provider2 struct{ endpoints *e6Endpoints }

func Good_E6Rglobal_copied(custom *string) *e6Provider2 {
	ep := *e6Defaults
	p := &e6Provider2{endpoints: &ep}
	p.endpoints.Auth = custom
	return p
}

type e6Caller interface{ HttpClient() *http.Client }

// the F12 shape
func Bad_E6Rforeign_checkredirect(c e6Caller) *http.Client {
	client := c.HttpClient()
	client.CheckRedirect = func(*http.Request, []*http.Request) error { return http.ErrUseLastResponse }
	return client
}

func Good_E6Rforeign_copy(c e6Caller) *http.Client {
	client := *c.HttpClient()
	client.CheckRedirect = func(*http.Request, []*http.Request) error { return http.ErrUseLastResponse }
	return &client
}

type e6State struct {
	ClientID string
	Audience []string
}

// the F13 shape
func (s *e6State) GetBad_E6Rgetter_append() []string {
	s.Audience = append(s.Audience, s.ClientID)
	return s.Audience
}

func (s *e6State) GetGood_E6Rgetter_pure() []string {
	return append(append([]string{}, s.Audience...), s.ClientID)
}

var e6Cache sync.Map

// the seeded C06 shape: a process-wide cache keyed too coarsely
func Bad_E6Rglobal_cache(id string, v any) any {
	if x, ok := e6Cache.Load(id); ok {
		return x
	}
	e6Cache.Store(id, v)
	return v
}

// the seeded C20 shape: filtering in place into the caller's slice
func Bad_E6Rparamslice_reslice(keys ...string) []string {
	valid := keys[:0]
	for _, k := range keys {
		if k != "" {
			valid = append(valid, k)
		}
	}
	return valid
}

func Good_E6Rparamslice_fresh(keys ...string) []string {
	var valid []string
	for _, k := range keys {
		if k != "" {
			valid = append(valid, k)
		}
	}
	return valid
}

// the seeded C17 shape: a per-request append into a slice hoisted out of the handler
func Bad_E6Rclosureshared_hoisted(params ...string) func(string) []string {
	base := make([]string, 0, len(params)+1)
	base = append(base, params...)
	return func(extra string) []string {
		opts := base
		opts = append(opts, extra)
		return opts
	}
}

func Good_E6Rclosureshared_local(params ...string) func(string) []string {
	return func(extra string) []string {
		opts := make([]string, len(params))
		copy(opts, params)
		opts = append(opts, extra)
		return opts
	}
}

// the seeded C20-d shape: an in-place library mutator applied to a slice-typed value receiver
type e6List []string

func (s e6List) Bad_E6Rparamslice_receiver_deletefunc() string {
	s = slices.DeleteFunc(s, func(e string) bool { return e == "" })
	return strings.Join(s, " ")
}

func (s e6List) Good_E6Rparamslice_receiver_clone() string {
	c := slices.DeleteFunc(slices.Clone(s), func(e string) bool { return e == "" })
	return strings.Join(c, " ")
}

func Bad_E6Rparamslice_sorted(keys []string) []string {
	sort.Strings(keys)
	return keys
}
