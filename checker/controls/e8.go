package zzverifctl

import (
	"fmt"
	"net/url"
)

// the F9 shape
func Bad_E8enc_fragment(u *url.URL, params url.Values) string {
	u.Fragment = params.Encode()
	return u.String()
}

func Good_E8enc_rawfragment(u *url.URL, params url.Values) string {
	u.RawFragment = params.Encode()
	return u.String()
}

func e8describe(desc string, args ...any) string { return fmt.Sprintf(desc, args...) }

// the seeded C11B shape: an error text used as a format
func Bad_E8fmt_dataasformat(err error) string {
	return e8describe(err.Error())
}

func Good_E8fmt_verb(err error) string {
	return e8describe("%s", err.Error())
}
