package zzverifctl

import "net/url"

// the F9 shape
func Bad_E8enc_fragment(u *url.URL, params url.Values) string {
	u.Fragment = params.Encode()
	return u.String()
}

func Good_E8enc_rawfragment(u *url.URL, params url.Values) string {
	u.RawFragment = params.Encode()
	return u.String()
}
