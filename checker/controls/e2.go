// Package zzverifctl holds the positive / negative controls of the checker.
// It is overlaid into the loaded program as pkg/zzverifctl (it never exists in /repo):
// Bad_<rule>_* functions must be reported by <rule>, Good_<rule>_* must not.
package zzverifctl

import (
	"errors"
	"log/slog"
	"net/http"

	"github.com/zitadel/oidc/v3/pkg/op"
)

func parse(r *http.Request) (*http.Request, error) {
	if r.Method == "" {
		return nil, errors.New("bad")
	}
	return r, nil
}

// the F1 shape: error responder not followed by return
func Bad_E2Rstop_missingReturn(w http.ResponseWriter, r *http.Request) {
	req, err := parse(r)
	if err != nil {
		op.RequestError(w, r, err, slog.Default())
	}
	if req.Method == "x" {
		op.RequestError(w, r, errors.New("x"), slog.Default())
		return
	}
	w.WriteHeader(http.StatusOK)
}

func Bad_E2Rstop_continues(w http.ResponseWriter, r *http.Request) {
	req, err := parse(r)
	if err != nil {
		http.Error(w, "bad", http.StatusBadRequest)
	}
	_, _ = parse(req)
}

func Bad_E2Ranswer_silent(w http.ResponseWriter, r *http.Request) {
	_, err := parse(r)
	if err != nil {
		return
	}
	w.WriteHeader(http.StatusNoContent)
}

func helperErr(w http.ResponseWriter, r *http.Request) error {
	if _, err := parse(r); err != nil {
		return err
	}
	w.WriteHeader(http.StatusOK)
	return nil
}

// the DeviceAuthorization idiom: helper answers iff it returns nil
func Good_E2Ronce_helperIdiom(w http.ResponseWriter, r *http.Request) {
	if err := helperErr(w, r); err != nil {
		op.RequestError(w, r, err, slog.Default())
	}
}

func Good_E2Ranswer_helperIdiom(w http.ResponseWriter, r *http.Request) {
	if err := helperErr(w, r); err != nil {
		op.RequestError(w, r, err, slog.Default())
	}
}

func Good_E2Rstop_logAfter(w http.ResponseWriter, r *http.Request) {
	if _, err := parse(r); err != nil {
		http.Error(w, "bad", http.StatusBadRequest)
		slog.Default().Info("answered")
		return
	}
	w.WriteHeader(http.StatusOK)
	_, _ = w.Write([]byte("ok"))
}

// helper answers on its error exit too: caller must not answer again
func helperBoth(w http.ResponseWriter, r *http.Request) error {
	if _, err := parse(r); err != nil {
		http.Error(w, "bad", http.StatusBadRequest)
		return err
	}
	w.WriteHeader(http.StatusOK)
	return nil
}

func Bad_E2Ronce_helperAnswersToo(w http.ResponseWriter, r *http.Request) {
	if err := helperBoth(w, r); err != nil {
		op.RequestError(w, r, err, slog.Default())
	}
}

func Bad_E2Ronce_twoAnswers(w http.ResponseWriter, r *http.Request) {
	if _, err := parse(r); err == nil {
		w.WriteHeader(http.StatusOK)
	}
	http.Redirect(w, r, "/x", http.StatusFound)
}
