package zzverifctl

import "errors"

type e1req struct {
	ID     string
	Client string
}

func e1check(a, b string) error {
	if a != b {
		return errors.New("mismatch")
	}
	return nil
}

func e1valid(s string) bool { return s != "" }

func e1sink(r *e1req) {}

// guard missing on one path
func Bad_E1_missing(r *e1req, id string, fast bool) {
	if !fast {
		if err := e1check(r.ID, id); err != nil {
			return
		}
	}
	e1sink(r)
}

// polarity flipped: the sink sits on the failure edge
func Bad_E1_flipped(r *e1req, id string) {
	if err := e1check(r.ID, id); err == nil {
		return
	}
	e1sink(r)
}

// guard checks another value than the one used
func Bad_E1_wrongbinding(r, other *e1req, id string) {
	if err := e1check(other.ID, id); err != nil {
		return
	}
	e1sink(r)
}

// failure branch does not return
func Bad_E1_noreturn(r *e1req, id string) {
	if err := e1check(r.ID, id); err != nil {
		_ = err
	}
	e1sink(r)
}

// the validated field is overwritten between guard and sink
func Bad_E1_overwritten(r *e1req, id, id2 string) {
	if err := e1check(r.ID, id); err != nil {
		return
	}
	r.ID = id2
	e1sink(r)
}

// guard after the sink
func Bad_E1_late(r *e1req, id string) {
	e1sink(r)
	if err := e1check(r.ID, id); err != nil {
		return
	}
}

// || where && is needed
func Bad_E1_oror(r *e1req, id string) {
	if r.Client != "" || e1valid(r.ID) {
		e1sink(r)
	}
}

// accepted idioms
func Good_E1_init(r *e1req, id string) {
	if err := e1check(r.ID, id); err != nil {
		return
	}
	e1sink(r)
}

func Good_E1_assignthentest(r *e1req, id string) error {
	var err error
	err = e1check(r.ID, id)
	if err != nil {
		return err
	}
	e1sink(r)
	return nil
}

func Good_E1_switch(r *e1req, id string, mode int) {
	switch mode {
	case 1:
		if e1check(r.ID, id) != nil {
			return
		}
	default:
		err := e1check(r.ID, id)
		if err != nil {
			return
		}
	}
	e1sink(r)
}

func Good_E1_andand(r *e1req, id string) {
	if r.Client != "" && e1check(r.ID, id) == nil {
		e1sink(r)
	}
}

func Good_E1_negated(r *e1req, id string) {
	if !(e1check(r.ID, id) == nil) {
		return
	}
	e1sink(r)
}

func Good_E1_loop(rs []*e1req, id string) {
	for _, r := range rs {
		if err := e1check(r.ID, id); err != nil {
			continue
		}
		e1sink(r)
	}
}

func e1helper(r *e1req, id string) error {
	if r.Client == "" {
		return errors.New("no client")
	}
	return e1check(r.ID, id)
}

// the guard lives in a helper without a declared guarantee: the inferred summary must carry it to the caller
func Good_E1_helper(r *e1req, id string) {
	if err := e1helper(r, id); err != nil {
		return
	}
	e1sink(r)
}

func e1helperLeaky(r *e1req, id string) error {
	if r.Client == "" {
		return nil
	}
	return e1check(r.ID, id)
}

// the helper has a success path that skips the guard
func Bad_E1_leakyhelper(r *e1req, id string) {
	if err := e1helperLeaky(r, id); err != nil {
		return
	}
	e1sink(r)
}
