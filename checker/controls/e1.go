package zzverifctl

import "errors"

type e1req struct {
	ID     string
	Client string
}

func e1check(a, b string) error {
	if a != b {
		return errors.New("mismatch")
	}
	return nil
}

func e1valid(s string) bool { return s != "" }

func e1sink(r *e1req) {}

// guard missing on one path
func Bad_E1_missing(r *e1req, id string, fast bool) {
	if !fast {
		if err := e1check(r.ID, id); err != nil {
			return
		}
	}
	e1sink(r)
}

// polarity flipped: the sink sits on the failure edge
func Bad_E1_flipped(r *e1req, id string) {
	if err := e1check(r.ID, id); err == nil {
		return
	}
	e1sink(r)
}

// guard checks another value than the one used
func Bad_E1_wrongbinding(r, other *e1req, id string) {
	if err := e1check(other.ID, id); err != nil {
		return
	}
	e1sink(r)
}

// failure branch does not return
func Bad_E1_noreturn(r *e1req, id string) {
	if err := e1check(r.ID, id); err != nil {
		_ = err
	}
	e1sink(r)
}

// the validated field is overwritten between guard and sink
func Bad_E1_overwritten(r *e1req, id, id2 string) {
	if err := e1check(r.ID, id); err != nil {
		return
	}
	r.ID = id2
	e1sink(r)
}

// guard after the sink
func Bad_E1_late(r *e1req, id string) {
	e1sink(r)
	if err := e1check(r.ID, id); err != nil {
		return
	}
}

// || where && is needed
func Bad_E1_oror(r *e1req, id string) {
	if r.Client != "" || e1valid(r.ID) {
		e1sink(r)
	}
}

// accepted idioms
func Good_E1_init(r *e1req, id string) {
	if err := e1check(r.ID, id); err != nil {
		return
	}
	e1sink(r)
}

func Good_E1_assignthentest(r *e1req, id string) error {
	var err error
	err = e1check(r.ID, id)
	if err != nil {
		return err
	}
	e1sink(r)
	return nil
}

func Good_E1_switch(r *e1req, id string, mode int) {
	switch mode {
	case 1:
		if e1check(r.ID, id) != nil {
			return
		}
	default:
		err := e1check(r.ID, id)
		if err != nil {
			return
		}
	}
	e1sink(r)
}

func Good_E1_andand(r *e1req, id string) {
	if r.Client != "" && e1check(r.ID, id) == nil {
		e1sink(r)
	}
}

func Good_E1_negated(r *e1req, id string) {
	if !(e1check(r.ID, id) == nil) {
		return
	}
	e1sink(r)
}

func Good_E1_loop(rs []*e1req, id string) {
	for _, r := range rs {
		if err := e1check(r.ID, id); err != nil {
			continue
		}
		e1sink(r)
	}
}

func e1helper(r *e1req, id string) error {
	if r.Client == "" {
		return errors.New("no client")
	}
	return e1check(r.ID, id)
}

// the guard lives in a helper without a declared guarantee: the inferred summary must carry it to the caller
func Good_E1_helper(r *e1req, id string) {
	if err := e1helper(r, id); err != nil {
		return
	}
	e1sink(r)
}

func e1helperLeaky(r *e1req, id string) error {
	if r.Client == "" {
		return nil
	}
	return e1check(r.ID, id)
}

// the helper has a success path that skips the guard
func Bad_E1_leakyhelper(r *e1req, id string) {
	if err := e1helperLeaky(r, id); err != nil {
		return
	}
	e1sink(r)
}

// ---- helpers interpreted in place (e1_inline.go) -------------------------------------------------------------------

func e1guardAndSink(r *e1req, id string) error {
	if err := e1check(r.ID, id); err != nil {
		return err
	}
	e1sink(r)
	return nil
}

func e1sinkOnly(r *e1req) { e1sink(r) }

func e1needsCheck(r *e1req, fast bool) bool { return !fast || r.Client == "" }

// the guard is in the caller, the sink in a helper
func Good_E1_sinkinhelper(r *e1req, id string) {
	if err := e1check(r.ID, id); err != nil {
		return
	}
	e1sinkOnly(r)
}

// guard and sink both moved into a helper
func Good_E1_allinhelper(r *e1req, id string) {
	_ = e1guardAndSink(r, id)
}

// the helper with the sink is reached on an unguarded path
func Bad_E1_sinkinhelper(r *e1req, id string, fast bool) {
	if !fast {
		if err := e1check(r.ID, id); err != nil {
			return
		}
	}
	e1sinkOnly(r)
}

// a boolean helper decides whether the check is needed: its false answer says nothing about the check
func Bad_E1_boolhelper(r *e1req, id string, fast bool) {
	if e1needsCheck(r, fast) {
		if err := e1check(r.ID, id); err != nil {
			return
		}
	}
	e1sink(r)
}

// boolean temporary and switch form of the same guard
func Good_E1_booltemp(r *e1req, id string) {
	failed := e1check(r.ID, id) != nil
	switch {
	case failed:
		return
	default:
		e1sink(r)
	}
}

// ---- membership and quantified loop facts (e1_quant.go) ------------------------------------------------------------

func e1sinkAll(r *e1req, ids []string) {}

func e1known(allowed []string, id string) bool {
	for i := 0; i < len(allowed); i++ {
		if allowed[i] == id {
			return true
		}
	}
	return false
}

// every element checked in a range loop
func Good_E1_allrange(r *e1req, ids, allowed []string) {
	for _, id := range ids {
		if !e1known(allowed, id) {
			return
		}
	}
	e1sinkAll(r, ids)
}

// every element checked in an index loop through a helper predicate
func Good_E1_allindex(r *e1req, ids, allowed []string) {
	for i := 0; i < len(ids); i++ {
		found := false
		for _, a := range allowed {
			if a == ids[i] {
				found = true
			}
		}
		_ = found
		if !e1known(allowed, ids[i]) {
			return
		}
	}
	e1sinkAll(r, ids)
}

// the loop skips elements: not all of them were checked
func Bad_E1_allskips(r *e1req, ids, allowed []string) {
	for i, id := range ids {
		if i == 0 {
			continue
		}
		if !e1known(allowed, id) {
			return
		}
	}
	e1sinkAll(r, ids)
}

// the loop ends early: the sink is reached after a break
func Bad_E1_allbreaks(r *e1req, ids, allowed []string) {
	for _, id := range ids {
		if !e1known(allowed, id) {
			break
		}
	}
	e1sinkAll(r, ids)
}
