package zzverifctl

import "sync"

type remoteKeySet struct {
	mu         sync.Mutex
	cachedKeys []string
	inflight   *int
}

func (r *remoteKeySet) Bad_E6Rlockset_unlocked() []string {
	return r.cachedKeys
}

func (r *remoteKeySet) Good_E6Rlockset_locked() []string {
	r.mu.Lock()
	defer r.mu.Unlock()
	return r.cachedKeys
}

func (r *remoteKeySet) Bad_E6Rlockset_afterunlock() int {
	r.mu.Lock()
	n := len(r.cachedKeys)
	r.mu.Unlock()
	if r.inflight != nil {
		n++
	}
	return n
}
