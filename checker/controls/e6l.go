package zzverifctl

import "sync"

type remoteKeySet struct {
	mu         sync.Mutex
	cachedKeys []string
	inflight   *int
}

func (r *remoteKeySet) Bad_E6Rlockset_unlocked() []string {
	return r.cachedKeys
}

func (r *remoteKeySet) Good_E6Rlockset_locked() []string {
	r.mu.Lock()
	defer r.mu.Unlock()
	return r.cachedKeys
}

func (r *remoteKeySet) Bad_E6Rlockset_afterunlock() int {
	r.mu.Lock()
	n := len(r.cachedKeys)
	r.mu.Unlock()
	if r.inflight != nil {
		n++
	}
	return n
}

// "must be called with the lock held" helpers: fine when every call site holds the lock ...
func (r *remoteKeySet) Good_E6Rlockset_helper_locked() {
	r.cachedKeys = nil
}

func (r *remoteKeySet) e6lCallerLocked() {
	r.mu.Lock()
	defer r.mu.Unlock()
	r.Good_E6Rlockset_helper_locked()
}

// ... and reported when one call site does not
func (r *remoteKeySet) Bad_E6Rlockset_helper_onecallerunlocked() {
	r.cachedKeys = nil
}

func (r *remoteKeySet) e6lCallerLocked2() {
	r.mu.Lock()
	r.Bad_E6Rlockset_helper_onecallerunlocked()
	r.mu.Unlock()
	r.Bad_E6Rlockset_helper_onecallerunlocked()
}
