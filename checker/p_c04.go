package main

// C04 — a code yields tokens once, only to its client, redirect URI and PKCE proof (DESIGN §5 C04).
// Sibling cross-check: the Provider handler chain (op.CodeExchange -> ValidateAccessTokenRequest -> AuthorizeCodeClient)
// and the Server router (webServer.withClient -> codeExchangeHandler -> LegacyServer.CodeExchange) must each establish
// the same clauses before CreateTokenResponse.

const clLookup = "def($r1, _.GetClientByClientID(_, $tokenReq.ClientID), 0) && ok(_.GetClientByClientID(_, $tokenReq.ClientID)) && neq($r1.AuthMethod(), oidc.AuthMethodPrivateKeyJWT)"
const postClause = "(neq($r1.AuthMethod(), oidc.AuthMethodPost) || true($exchanger.AuthMethodPostSupported()))"

func init() {
	guarP("C04", "op.AuthRequestByCode", []string{"ctx", "storage", "code"},
		[]string{"codeLookup($r0, $code)"},
		[]string{"def($r0, $storage.AuthRequestByCode(_, $code), 0)", "ok($storage.AuthRequestByCode(_, $code))"})
	guarP("C04", "op.AuthorizeCodeChallenge", []string{"codeVerifier", "challenge"},
		[]string{"pkceOK($codeVerifier, $challenge)"},
		[]string{`neq($codeVerifier, "")`, "true(oidc.VerifyCodeChallenge($challenge, $codeVerifier))"})
	guarP("C05", "op.AuthorizeClientIDSecret", []string{"ctx", "clientID", "clientSecret", "storage"},
		[]string{"secretOK($clientID, $clientSecret)"},
		[]string{"ok($storage.AuthorizeClientIDSecret(_, $clientID, $clientSecret))"})
	guarP("C04", "op.AuthorizeCodeClient", []string{"ctx", "tokenReq", "exchanger"},
		[]string{"codeLookup($r0, $tokenReq.Code)", "pkceSat($r0, $tokenReq.CodeVerifier)", "clientAuthed($r1)", "publicHasPKCE($r1, $r0)"},
		[]string{
			"codeLookup($r0, $tokenReq.Code)",
			"nil($r0.GetCodeChallenge()) || pkceOK($tokenReq.CodeVerifier, $r0.GetCodeChallenge())",
			"(jwtClient($r1, $tokenReq.ClientAssertion) && true($exchanger.AuthMethodPrivateKeyJWTSupported()) && is($exchanger, JWTAuthorizationGrantExchanger)) || (" + clLookup + " && eq($r1.AuthMethod(), oidc.AuthMethodNone)) || (" + clLookup + " && neq($r1.AuthMethod(), oidc.AuthMethodNone) && secretOK($tokenReq.ClientID, $tokenReq.ClientSecret) && " + postClause + ")",
			"jwtClient($r1, $tokenReq.ClientAssertion) || neq($r1.AuthMethod(), oidc.AuthMethodNone) || nonnil($r0.GetCodeChallenge())",
		})
	guarP("C04", "op.ValidateAccessTokenRequest", []string{"ctx", "tokenReq", "exchanger"},
		[]string{"codeRedeemable($r0, $r1, $tokenReq)"},
		[]string{
			"codeLookup($r0, $tokenReq.Code)", "pkceSat($r0, $tokenReq.CodeVerifier)", "clientAuthed($r1)", "publicHasPKCE($r1, $r0)",
			"eq($r1.GetID(), $r0.GetClientID())",
			"true(op.ValidateGrantType($r1, oidc.GrantTypeCode))",
			"eq($tokenReq.RedirectURI, $r0.GetRedirectURI())",
		})
	obs := []Ob{
		{ID: "E1.code.provider", Fn: "op.CodeExchange", Kind: "call", Pat: `op.CreateTokenResponse(_, $authReq, $client, _, true, $tokenReq.Code, "")`, Max: 1,
			Why: "tokens for a code only after lookup, client authentication and binding, redirect_uri equality, PKCE and grant check",
			Req: []string{"codeRedeemable($authReq, $client, $tokenReq)", "def($tokenReq, op.ParseAccessTokenRequest(__), 0)"}},
		{ID: "E1.code.legacy-server", Fn: "op.(*LegacyServer).CodeExchange", P: []string{"s", "ctx", "r"}, Kind: "call", Pat: `op.CreateTokenResponse(_, $authReq, $r.Client, _, true, $r.Data.Code, "")`, Max: 1,
			Why: "sibling of op.CodeExchange: same clauses (client authentication and grant come from webServer.withClient)",
			Req: []string{
				"codeLookup($authReq, $r.Data.Code)",
				"eq($r.Client.GetID(), $authReq.GetClientID())",
				"nil($authReq.GetCodeChallenge()) || pkceOK($r.Data.CodeVerifier, $authReq.GetCodeChallenge())",
				"neq($r.Client.AuthMethod(), oidc.AuthMethodNone) || pkceOK($r.Data.CodeVerifier, $authReq.GetCodeChallenge())",
				"eq($r.Data.RedirectURI, $authReq.GetRedirectURI())",
			}},
		{ID: "E1.code.server-handler", Fn: "op.(*webServer).codeExchangeHandler", P: []string{"s", "w", "r", "client"}, Kind: "call", Pat: "$s.server.CodeExchange(_, op.newClientRequest($r, $request, $client))", Max: 1,
			Req: []string{`neq($request.Code, "")`, `neq($request.RedirectURI, "")`, "def($request, op.decodeRequest($s.decoder, $r, false), 0)"}},
		{ID: "E1.pkce.verify", Fn: "oidc.VerifyCodeChallenge", P: []string{"c", "v"}, Kind: "ret ok", MutOK: []string{"v"},
			Why: "a nil challenge never verifies; the comparison is against the transformed verifier",
			Req: []string{"nonnil($c)"}},
		{ID: "E1.code.single-use", Fn: "op.CreateTokenResponse", P: []string{"ctx", "request", "client", "creator", "createAccessToken", "code", "refreshToken"}, Kind: "ret ok", Max: 1,
			Why: "the auth request (and with it the code) is deleted before the response is returned",
			Req: []string{"notis($request, AuthRequest) || (is($request, AuthRequest) && ok(_.DeleteAuthRequest(_, $ar.GetID())) && def($ar, $request.(AuthRequest), 0))"}},
		{ID: "E1.code.issued-for-done-request", Fn: "op.AuthorizeCallback", Kind: "call", Pat: "op.AuthResponse($authReq, __)", Max: 1,
			Req: []string{"def($authReq, _.AuthRequestByID(_, $id), 0)", "ok(_.AuthRequestByID(_, $id))", "true($authReq.Done())"}},
		{ID: "E1.code.saved", Fn: "op.CreateAuthRequestCode", P: []string{"ctx", "authReq", "storage", "crypto"}, Kind: "ret ok", Max: 1,
			Req: []string{"def($r0, op.BuildAuthRequestCode($authReq, $crypto), 0)", "ok(op.BuildAuthRequestCode($authReq, $crypto))", "ok($storage.SaveAuthCode(_, $authReq.GetID(), $r0))"}},
		{ID: "E8.code.is-sealed-request-id", Fn: "op.BuildAuthRequestCode", P: []string{"authReq", "crypto"}, Kind: "ret any", Pat: "ret(res(0, $crypto.Encrypt($authReq.GetID())), _)"},
	}
	register(&PropSpec{
		ID: "C04",
		Explanation: "Decides, for all paths of both implementations of the code exchange (Provider handlers and webServer+LegacyServer): CreateTokenResponse for a code is reached only after the storage lookup of that code, client authentication by the registered method (secret / private_key_jwt / none), equality of the authenticated client's id with the auth request's client id, equality of redirect_uri, PKCE verification whenever the request carried a challenge and always for public clients, and the registered-grant check; CreateTokenResponse deletes the auth request before returning; a code is issued only for a Done request and is saved. Guarantees are assumed at call sites and verified on the callee's success returns (assume/guarantee). Does not decide that the storage forgets the code nor concurrent redemption.",
		RuleText:    "obligation = (rule, function, sink site); guarantee obligations are the callee-side proofs; non-trivial when guard facts were needed",
		Assumptions: []string{"Storage.AuthRequestByCode returns the request the code was issued for and fails after DeleteAuthRequest", "Server.CodeExchange is invoked only by webServer.codeExchangeHandler behind withClient (checked by the who-may-call tables of C05)"},
		Trusted:     []string{"go/types, go/cfg (x/tools v0.50.0)", "Storage implementation", "crypto/sha256 via oidc.NewSHACodeChallenge"},
		Level:       "Sound static check (all paths, both routers, assume/guarantee across helpers) that the token sink of the code grant is dominated by code lookup, client authentication and binding, redirect_uri equality, PKCE and grant checks, and by single-use deletion. The temporal claim (same code never yields tokens again) additionally needs the storage to honour DeleteAuthRequest and is not decided.",
		Note:        "Trusted: go/types+go/cfg, the Storage contract. Sibling implementations are held to the same clause set; a missing clause in either is reported with the path.",
		Technique:   "static analysis: interprocedural assume/guarantee must-facts dataflow over go/cfg; sibling cross-check of the two routers",
		Rules:       []string{"E1"},
		Run: func(c *Ctx) {
			RunE1(c, "C04", append(append([]Ob{}, obs...), sharedObs["C04"]...))
			RunCallers(c, "E1.token-sink-table", "op.CreateTokenResponse",
				[]string{"op.CodeExchange", "op.RefreshTokenExchange", "op.AuthResponseToken", "op.(*LegacyServer).CodeExchange", "op.(*LegacyServer).RefreshToken"},
				"every caller of the token-issuing sink needs an obligation (C04/C07/C03)")
			RunCallers(c, "E1.code-lookup-table", "op.AuthRequestByCode", []string{"op.AuthorizeCodeClient", "op.(*LegacyServer).CodeExchange"}, "code redemption sites")
		},
	})
}
