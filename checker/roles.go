package main

import (
	"fmt"
	"go/ast"
	"go/token"
	"go/types"
	"strings"

	"golang.org/x/tools/go/types/typeutil"
)

// Argument roles (E9): values of one Go type (strings, mostly) that play different roles - a token, a token id, a
// subject, a client id - can be swapped without a type error.  RunArgSources decides, for one argument position of one
// sink call in one function, that the value handed over draws only from the reviewed sources of that role.
//
// Sources of an expression, flow-insensitively over the enclosing declaration:
//   - a variable or field path x (r.Data.Token): the sources of every value assigned to x anywhere in the function
//     (":=", "=", "var x = v"); "zero" for "var x T"; "param:<path>" when x is (a field path of) a parameter
//   - a, b := f(...):  "f#0", "f#1", ...   (f is the resolved callee's name)
//   - f(...): "f#0";  a literal or constant: "const:<value>"
//   - a parameter of a helper that the validated tree does not have and that has a single call site: the sources of
//     the argument at that call site
//
// The rule is a necessary condition for every behaviour that depends on the storage receiving the right value in the
// right position; it does not order the assignments (the path-sensitive E1 obligations do that where it matters).
func RunArgSources(c *Ctx, rule, fn, callee string, argIdx int, allowed []string, why string) {
	c.helpers()
	roleCtxFn = fn
	if roleByObj == nil {
		roleByObj = map[*types.Func]*FuncInfo{}
		for _, fi := range c.P.Funcs {
			if fi.Obj != nil && fi.Lit == nil {
				roleByObj[fi.Obj] = fi
			}
		}
	}
	n := 0
	for _, fi := range c.P.Funcs {
		if fi.Body == nil || fi.Ctl {
			continue
		}
		if fi.Root().Name != fn && !contains(c.attributed(fi), fn) {
			continue
		}
		info := fi.Pkg.TypesInfo
		ast.Inspect(fi.Body, func(nd ast.Node) bool {
			if lit, ok := nd.(*ast.FuncLit); ok && lit != fi.Lit {
				return false // literals are FuncInfos of their own
			}
			call, ok := nd.(*ast.CallExpr)
			if !ok {
				return true
			}
			f, _ := typeutil.Callee(info, call).(*types.Func)
			if f == nil || f.Name() != callee || argIdx >= len(call.Args) {
				return true
			}
			n++
			srcs := map[string]bool{}
			exprSources(c, fi, call.Args[argIdx], srcs, map[string]bool{}, 0)
			var bad []string
			for _, s := range sortedKeysB(srcs) {
				if !contains(allowed, s) {
					bad = append(bad, s)
				}
			}
			construct := fmt.Sprintf("argument %d of %s", argIdx, callee)
			c.R.Obl(Obligation{Rule: rule, Func: fn, Construct: construct, Pos: c.P.Position(call.Args[argIdx].Pos()), Discharged: len(bad) == 0, Nontrivial: true,
				How: []string{"sources: " + strings.Join(sortedKeysB(srcs), ", ")}})
			if len(bad) > 0 {
				c.R.Find(Finding{Rule: rule, Func: fn, Construct: construct, Pos: c.P.Position(call.Args[argIdx].Pos()),
					Msg: fmt.Sprintf("%s in %s can carry a value from %s; reviewed sources of this position: %s (%s)", construct, fi.Name, strings.Join(bad, ", "), strings.Join(allowed, ", "), why)})
			}
			return true
		})
	}
	if n == 0 {
		c.R.Fail("vacuity", fn, rule, "no call of "+callee+" in "+fn+": re-point the rule")
	}
}

func exprSources(c *Ctx, fi *FuncInfo, e ast.Expr, out, seen map[string]bool, depth int) {
	info := fi.Pkg.TypesInfo
	e = unparen(e)
	if depth > 8 {
		out["deep:"+types.ExprString(e)] = true
		return
	}
	if tv, ok := info.Types[e]; ok && tv.Value != nil {
		switch tv.Value.ExactString() {
		case `""`, "0", "false":
			out["zero"] = true // the zero value, however it is spelled
		default:
			out["const:"+tv.Value.ExactString()] = true
		}
		return
	}
	switch x := e.(type) {
	case *ast.CallExpr:
		if tv, ok := info.Types[x.Fun]; ok && tv.IsType() && len(x.Args) == 1 {
			exprSources(c, fi, x.Args[0], out, seen, depth+1) // conversion
			return
		}
		resultSources(c, info, x, 0, out, seen, depth)
		return
	case *ast.Ident, *ast.SelectorExpr:
		path := types.ExprString(e)
		root := rootIdent(e)
		if root == nil {
			out["expr:"+path] = true
			return
		}
		v, _ := info.Uses[root].(*types.Var)
		if v == nil {
			v, _ = info.Defs[root].(*types.Var)
		}
		if v == nil {
			out["expr:"+path] = true
			return
		}
		key := fmt.Sprintf("%p|%s", v, path)
		if seen[key] {
			return
		}
		seen[key] = true
		// parameter of the enclosing declaration (or of an enclosing function, for a literal)
		if pf := paramOwner(fi, v); pf != nil {
			resolved := false
			if _, isSel := e.(*ast.SelectorExpr); !isSel && pf.Obj != nil && pf.Sig != nil && !pf.Sig.Variadic() {
				if h := c.helpers()[pf.Obj]; h != nil && !h.escapes { // a helper the validated tree does not have
					idx := -1
					for i := 0; i < pf.Sig.Params().Len(); i++ {
						if pf.Sig.Params().At(i) == v {
							idx = i
						}
					}
					// context-sensitive: the call sites that belong to the function the rule is about
					for _, caller := range c.P.Funcs {
						if idx < 0 || caller.Body == nil || caller.Ctl || (caller.Root().Name != roleCtxFn && !contains(c.attributed(caller), roleCtxFn)) {
							continue
						}
						cinfo := caller.Pkg.TypesInfo
						ast.Inspect(caller.Body, func(nd ast.Node) bool {
							if lit, ok := nd.(*ast.FuncLit); ok && lit != caller.Lit {
								return false
							}
							if call, ok := nd.(*ast.CallExpr); ok && idx < len(call.Args) {
								if f, _ := typeutil.Callee(cinfo, call).(*types.Func); f != nil && f.Origin() == pf.Obj {
									exprSources(c, caller, call.Args[idx], out, seen, depth+1)
									resolved = true
								}
							}
							return true
						})
					}
				}
			}
			if !resolved {
				out["param:"+path] = true
			}
		}
		// every assignment to the same path in the outermost declaration
		top := fi.Root()
		scanAssignments(c, top, path, v, out, seen, depth)
		return
	case *ast.BasicLit:
		out["const:"+x.Value] = true
		return
	}
	out["expr:"+types.ExprString(e)] = true
}

func scanAssignments(c *Ctx, top *FuncInfo, path string, v *types.Var, out, seen map[string]bool, depth int) {
	// the declaration and every literal inside it share variables; each node is typed by the package of top
	info := top.Pkg.TypesInfo
	// find the FuncInfo an expression belongs to (for recursion into the right scope we only need the package info,
	// which all of them share), so top is good enough as the context of nested sources
	sameVar := func(l ast.Expr) bool {
		l = unparen(l)
		if types.ExprString(l) != path {
			return false
		}
		r := rootIdent(l)
		if r == nil {
			return false
		}
		o := info.Uses[r]
		if o == nil {
			o = info.Defs[r]
		}
		return o == v
	}
	ast.Inspect(top.Body, func(nd ast.Node) bool {
		switch s := nd.(type) {
		case *ast.AssignStmt:
			if len(s.Lhs) == len(s.Rhs) {
				for i, l := range s.Lhs {
					if sameVar(l) {
						if s.Tok != token.ASSIGN && s.Tok != token.DEFINE {
							out["op:"+s.Tok.String()] = true // x += ...
						}
						exprSources(c, top, s.Rhs[i], out, seen, depth+1)
					}
				}
			} else if len(s.Rhs) == 1 {
				for i, l := range s.Lhs {
					if !sameVar(l) {
						continue
					}
					switch r := unparen(s.Rhs[0]).(type) {
					case *ast.CallExpr:
						resultSources(c, info, r, i, out, seen, depth)
					default:
						out[fmt.Sprintf("multi:%s#%d", types.ExprString(r), i)] = true
					}
				}
			}
		case *ast.ValueSpec:
			for i, nm := range s.Names {
				if info.Defs[nm] != v || path != nm.Name {
					continue
				}
				switch {
				case len(s.Values) == 0:
					out["zero"] = true
				case len(s.Values) == len(s.Names):
					exprSources(c, top, s.Values[i], out, seen, depth+1)
				default:
					if call, ok := unparen(s.Values[0]).(*ast.CallExpr); ok {
						resultSources(c, info, call, i, out, seen, depth)
					}
				}
			}
		case *ast.RangeStmt:
			if s.Key != nil && sameVar(s.Key) {
				out["range-key:"+types.ExprString(s.X)] = true
			}
			if s.Value != nil && sameVar(s.Value) {
				out["range-value:"+types.ExprString(s.X)] = true
			}
		case *ast.UnaryExpr:
			if s.Op == token.AND && sameVar(s.X) {
				out["address-taken"] = true
			}
		}
		return true
	})
}

func calleeLabel(info *types.Info, call *ast.CallExpr) string {
	if f, _ := typeutil.Callee(info, call).(*types.Func); f != nil {
		// a method of a field path keeps its receiver spelling (r.Client.GetID, also through a local `client := r.Client`);
		// a method of a plain handle (storage.X, revoker.X), of a call result (revoker.Storage().X) and a package-level
		// function are named by the resolved callee alone
		if sel, ok := unparen(call.Fun).(*ast.SelectorExpr); ok {
			if p := receiverPath(info, sel.X, 0); p != "" {
				return p + "." + f.Name()
			}
		}
		return f.Name()
	}
	return "dyn:" + types.ExprString(call.Fun)
}

func rootIdent(e ast.Expr) *ast.Ident {
	for {
		switch x := unparen(e).(type) {
		case *ast.Ident:
			return x
		case *ast.SelectorExpr:
			e = x.X
		case *ast.StarExpr:
			e = x.X
		default:
			return nil
		}
	}
}

// paramOwner: the function (fi or one of its enclosing functions) that declares v as a parameter or receiver.
func paramOwner(fi *FuncInfo, v *types.Var) *FuncInfo {
	for f := fi; f != nil; f = f.Parent {
		if f.Sig == nil {
			continue
		}
		if r := f.Sig.Recv(); r != nil && r == v {
			return f
		}
		for i := 0; i < f.Sig.Params().Len(); i++ {
			if f.Sig.Params().At(i) == v {
				return f
			}
		}
		for i := 0; i < f.Sig.Results().Len(); i++ {
			if f.Sig.Results().At(i) == v {
				return nil
			}
		}
	}
	return nil
}


var (
	roleCtxFn string
	roleByObj map[*types.Func]*FuncInfo
)

// resultSources: the sources of result i of a call.  A function of the validated tree is a source of its own
// ("f#i"); a helper the validated tree does not have is looked into: the sources of what its return statements hand back.
func resultSources(c *Ctx, info *types.Info, call *ast.CallExpr, i int, out, seen map[string]bool, depth int) {
	label := fmt.Sprintf("%s#%d", calleeLabel(info, call), i)
	f, _ := typeutil.Callee(info, call).(*types.Func)
	if f == nil || depth > 8 {
		out[label] = true
		return
	}
	h := roleByObj[f.Origin()]
	if h == nil || h.Body == nil || h.Sig == nil || c.helpers()[h.Obj] == nil {
		out[label] = true
		return
	}
	key := fmt.Sprintf("ret|%p|%d", h, i)
	if seen[key] {
		return
	}
	seen[key] = true
	nres := h.Sig.Results().Len()
	found := false
	ast.Inspect(h.Body, func(nd ast.Node) bool {
		if _, ok := nd.(*ast.FuncLit); ok {
			return false
		}
		rs, ok := nd.(*ast.ReturnStmt)
		if !ok {
			return true
		}
		found = true
		// the other results of an error return are not used by callers that examine the error (E5.R-examined)
		if last := nres - 1; last > 0 && i != last && len(rs.Results) == nres && isErrorType(h.Sig.Results().At(last).Type()) {
			if id, ok := unparen(rs.Results[last]).(*ast.Ident); !ok || id.Name != "nil" {
				return true
			}
		}
		switch {
		case len(rs.Results) == nres && i < nres:
			exprSources(c, h, rs.Results[i], out, seen, depth+1)
		case len(rs.Results) == 1 && nres > 1:
			if inner, ok := unparen(rs.Results[0]).(*ast.CallExpr); ok {
				resultSources(c, h.Pkg.TypesInfo, inner, i, out, seen, depth+1)
			} else {
				out[label] = true
			}
		case len(rs.Results) == 0 && i < nres && h.Sig.Results().At(i).Name() != "":
			r := h.Sig.Results().At(i)
			scanAssignments(c, h, r.Name(), r, out, seen, depth+1)
			out["zero"] = true // a named result starts at its zero value
		default:
			out[label] = true
		}
		return true
	})
	if !found {
		out[label] = true
	}
}

// receiverPath: the field path a method receiver stands for ("r.Client"), "" for a plain variable, a call result or a package.
func receiverPath(info *types.Info, e ast.Expr, depth int) string {
	e = unparen(e)
	switch x := e.(type) {
	case *ast.SelectorExpr:
		if r := rootIdent(x); r != nil {
			if _, isVar := info.Uses[r].(*types.Var); isVar {
				return types.ExprString(x)
			}
		}
	case *ast.Ident:
		// a local defined once as a field path
		v, _ := info.Uses[x].(*types.Var)
		if v == nil || depth > 2 {
			return ""
		}
		if rhs := singleLocalDef(info, v); rhs != nil {
			return receiverPath(info, rhs, depth+1)
		}
	}
	return ""
}

var roleDefCache = map[*types.Var]ast.Expr{}

// singleLocalDef: the right-hand side of the only `v := e` / `v = e` of a local variable (searched in all loaded bodies once).
func singleLocalDef(info *types.Info, v *types.Var) ast.Expr {
	if e, ok := roleDefCache[v]; ok {
		return e
	}
	var rhs ast.Expr
	n := 0
	for id, o := range info.Defs {
		if o != v {
			continue
		}
		_ = id
	}
	for _, fi := range roleByObj {
		if fi.Pkg.TypesInfo != info || fi.Body == nil || v.Pos() < fi.Body.Pos() || v.Pos() > fi.Body.End() {
			continue
		}
		ast.Inspect(fi.Body, func(nd ast.Node) bool {
			if as, ok := nd.(*ast.AssignStmt); ok && len(as.Lhs) == len(as.Rhs) {
				for i, l := range as.Lhs {
					if id, ok := unparen(l).(*ast.Ident); ok && (info.Defs[id] == v || info.Uses[id] == v) {
						rhs = as.Rhs[i]
						n++
					}
				}
			}
			return true
		})
	}
	if n != 1 {
		rhs = nil
	}
	roleDefCache[v] = rhs
	return rhs
}
