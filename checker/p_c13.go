package main

// C13 — remote JWKS key set is correct under concurrency, rotation and fetch failures (DESIGN §5 C13).
// Static discipline only: lockset, single-flight structure, cache kept on error, context ownership.

import (
	"fmt"
	"go/ast"
	"go/token"
	"go/types"
	"strings"

	"golang.org/x/tools/go/types/typeutil"
)

func init() {
	customPreds["detachedCtx"] = func(st *fstate, a []*Term) bool {
		t := a[0]
		return t.K == "call" && (t.S == "context.WithoutCancel" || t.S == "context.Background" || t.S == "context.TODO")
	}
	obs := []Ob{
		{ID: "E1.jwks.cache-only-on-success", Fn: "client/rp.(*remoteKeySet).updateKeys", P: []string{"r", "ctx"}, Kind: "store", Pat: "store($r.cachedKeys, $keys)", Max: 1,
			Why: "a failed or malformed download never replaces the cached keys",
			Req: []string{"def($keys, $r.fetchRemoteKeys(_), 0)", "ok($r.fetchRemoteKeys(_))"}},
		{ID: "E1.jwks.single-flight.create", AltOf: "E1.jwks.single-flight.created", Fn: "client/rp.(*remoteKeySet).keysFromRemote", P: []string{"r", "ctx"}, Kind: "store", Pat: "store($r.inflight, rp.newInflight())", Max: 1,
			Why: "a new download is started only when none is in flight (concurrent misses share one)",
			Req: []string{"nil($r.inflight)"}},
		{ID: "E1.jwks.single-flight.create.literal", AltOf: "E1.jwks.single-flight.created", Fn: "client/rp.(*remoteKeySet).keysFromRemote", P: []string{"r", "ctx"}, Kind: "store", Pat: "store($r.inflight, &inflight{doneCh: make(_)})", Max: 1,
			Why: "a new download is started only when none is in flight (concurrent misses share one)",
			Req: []string{"nil($r.inflight)"}},
		{ID: "E1.jwks.single-flight.start", AltOf: "E1.jwks.single-flight.started", Fn: "client/rp.(*remoteKeySet).keysFromRemote", P: []string{"r", "ctx"}, Kind: "go", Pat: "gostmt($r.updateKeys($c))", Max: 1,
			Why: "the shared download runs once per inflight record and must not be cancelled by the first caller's context (other callers wait for it)",
			Req: []string{"eq($r.inflight, rp.newInflight()) || eq($r.inflight, &inflight{doneCh: make(_)})", "detachedCtx($c)"}},
		// the same start when the goroutine is handed the record it owns
		{ID: "E1.jwks.single-flight.start.handed", AltOf: "E1.jwks.single-flight.started", Fn: "client/rp.(*remoteKeySet).keysFromRemote", P: []string{"r", "ctx"}, Kind: "go", Pat: "gostmt($r.updateKeys($c, $r.inflight))", Max: 1,
			Why: "the shared download runs once per inflight record and must not be cancelled by the first caller's context (other callers wait for it)",
			Req: []string{"eq($r.inflight, rp.newInflight()) || eq($r.inflight, &inflight{doneCh: make(_)})", "detachedCtx($c)"}},
		{ID: "E1.jwks.single-flight.start.handed-local", AltOf: "E1.jwks.single-flight.started", Fn: "client/rp.(*remoteKeySet).keysFromRemote", P: []string{"r", "ctx"}, Kind: "go", Pat: "gostmt($r.updateKeys($c, $own))", Not: "gostmt($r.updateKeys(_, $r.inflight))", Max: 1,
			Why: "the shared download runs once per inflight record and must not be cancelled by the first caller's context (other callers wait for it)",
			Req: []string{"eq($r.inflight, $own)", "def($own, rp.newInflight()) || def($own, &inflight{doneCh: make(_)})", "detachedCtx($c)"}},
		{ID: "E1.jwks.single-flight.only-start", Fn: "client/rp.(*remoteKeySet).keysFromRemote", Kind: "go", Max: 1},
		{ID: "E1.jwks.update.done-once", AltOf: "E1.jwks.update.signals", Arity: 2, Fn: "client/rp.(*remoteKeySet).updateKeys", P: []string{"r", "ctx"}, Kind: "call", Pat: "$r.inflight.done($keys, $err)", Max: 1,
			Req: []string{"def($keys, $r.fetchRemoteKeys(_), 0)", "def($err, $r.fetchRemoteKeys(_), 1)"}},
		{ID: "E1.jwks.update.done-once.handed", AltOf: "E1.jwks.update.signals", Arity: 3, Fn: "client/rp.(*remoteKeySet).updateKeys", P: []string{"r", "ctx", "own"}, Kind: "call", Pat: "$own.done($keys, $err)", Max: 1,
			Req: []string{"def($keys, $r.fetchRemoteKeys(_), 0)", "def($err, $r.fetchRemoteKeys(_), 1)"}},
		{ID: "E1.jwks.update.release", AltOf: "E1.jwks.update.released", Arity: 2, Fn: "client/rp.(*remoteKeySet).updateKeys", P: []string{"r", "ctx"}, Kind: "ret any", Min: 1, Max: 1,
			Why: "every path signals the waiters once and frees the inflight slot",
			Req: []string{"called($r.inflight.done(__))", "eq($r.inflight, nil)", "called($r.mu.Lock())"}},
		{ID: "E1.jwks.update.release.handed", AltOf: "E1.jwks.update.released", Arity: 3, Fn: "client/rp.(*remoteKeySet).updateKeys", P: []string{"r", "ctx", "own"}, Kind: "ret any", Min: 1, Max: 1,
			Why: "every path signals the waiters once and frees the inflight slot",
			Req: []string{"called($own.done(__))", "eq($r.inflight, nil)", "called($r.mu.Lock())"}},
		{ID: "E1.jwks.inflight.publish-before-close", Fn: "client/rp.(*inflight).done", P: []string{"i", "keys", "err"}, Kind: "call", Pat: "close($i.doneCh)", Max: 1,
			Why: "results are written before the channel close that publishes them",
			Req: []string{"eq($i.keys, $keys)", "eq($i.err, $err)"}},
		{ID: "E8.jwks.inflight.result", Fn: "client/rp.(*inflight).result", P: []string{"i"}, Kind: "ret any", Pat: "ret($i.keys, $i.err)", Max: 1, Only: true},
		{ID: "E8.jwks.fetch", Fn: "client/rp.(*remoteKeySet).fetchRemoteKeys", P: []string{"r", "ctx"}, Kind: "ret ok", Pat: "ret($ks.Keys, nil)", Max: 1,
			Req: []string{"ok(httphelper.HttpRequest($r.httpClient, $req, $ks)) || ok(httphelper.HttpRequest($r.httpClient, $req, &$ks))", "def($req, http.NewRequestWithContext($ctx, _, $r.jwksURL, _), 0)"}},
		// exactMatch is true exactly when the ids are equal and (not both empty, or the remote check is skipped); stated on the
		// outcomes so that any boolean spelling of it is accepted
		{ID: "E1.jwks.exact-match.true", Fn: "client/rp.(*remoteKeySet).exactMatch", P: []string{"r", "jwkID", "jwsID"}, Kind: "ret ok",
			Req: []string{`eq($jwkID, $jwsID) || (eq($jwkID, "") && eq($jwsID, ""))`, `neq($jwkID, "") || neq($jwsID, "") || true($r.skipRemoteCheck)`}},
		{ID: "E1.jwks.exact-match.false", Fn: "client/rp.(*remoteKeySet).exactMatch", P: []string{"r", "jwkID", "jwsID"}, Kind: "ret fail",
			Req: []string{`neq($jwkID, $jwsID) || (eq($jwkID, "") && false($r.skipRemoteCheck)) || (eq($jwsID, "") && false($r.skipRemoteCheck))`}},
		{ID: "E1.jwks.verify.remote-after-cache-miss", Fn: "client/rp.(*remoteKeySet).VerifySignature", P: []string{"r", "ctx", "jws"}, Kind: "ret any", Pat: "ret(res(0, $r.verifySignatureRemote(__)), _)", Max: 1,
			Why: "the remote refresh happens at most once per verification, only after the cache could not decide",
			Req: []string{"nil($payload)", "ok($r.verifySignatureCached(__))", "def($payload, $r.verifySignatureCached(__), 0)"}},
	}
	register(&PropSpec{
		ID: "C13",
		Explanation: "Decides the static discipline the single-flight design relies on, for all paths: every access to remoteKeySet.cachedKeys / inflight happens while mu is held (lock regions on the AST; one reasoned exception: the owner goroutine's read r.inflight.done(...) in updateKeys, whose field was written before the go statement and is replaced only by that goroutine under the lock); a new inflight record is created only when none exists, inside the same critical section that starts exactly one go r.updateKeys, and that goroutine receives a context detached from the caller's cancellation (context.WithoutCancel); updateKeys publishes the result exactly once, replaces the cache only when the download succeeded and frees the slot under the lock on every path; inflight results are written before close(doneCh) and read only after a receive from wait() in a select that also has the caller's ctx.Done() arm; cachedKeys has a single writer; a remote refresh is attempted at most once per verification and only after the cache could not decide. NOT decided: the property's core quantifier - every interleaving and every fault sequence of the JWKS endpoint; this is a lock/ownership/ordering discipline check, not a model check. Round 3: no function of the key-set code writes into a slice it received (shared cache / single-flight result); a fresh inflight record may be spelled newInflight() or as a literal; HttpRequest reports success only for a decoded 200 body.",
		RuleText:    "obligation = (rule, function, access or sink site); non-trivial when a lock region, guard fact or table row was needed",
		Assumptions: []string{"sync.Mutex and channel close/receive give the usual happens-before edges", "http.Client honours the request context"},
		Trusted:     []string{"go/types, go/cfg (x/tools v0.50.0)", "sync, context, net/http"},
		Level:       "Sound static check of the lockset, single-flight structure, cache-kept-on-error and context-ownership clauses. The concurrency claim over all schedules is not decided by static analysis here (honest limit): a discipline violation breaks the behaviour, but satisfying the discipline is not a proof of it.",
		Note:        "Trusted: go/types+go/cfg, sync/context semantics. One lockset exception is frozen with its reason.",
		Technique:   "static analysis: lock-region (lockset) rule over the typed AST, must-facts dataflow for guard-before-store/go, select-shape and single-writer tables",
		Rules:       []string{"E1", "E6.R-lockset"},
		Run: func(c *Ctx) {
			RunE1(c, "C13", obs)
			// "a failed download never discards previously cached keys": nobody may write into the shared key slices handed around
			// (the cache, the single-flight result): no function of the key-set code writes into a slice it received
			sliceRuleOnlyFiles = []string{"pkg/oidc/keyset.go", "pkg/client/rp/jwks.go"}
			RunSliceAndClosureWrites(c, []string{"oidc", "client/rp"}, nil)
			sliceRuleOnlyFiles = nil
			RunLockset(c, "client/rp", "remoteKeySet", "mu", []string{"cachedKeys", "inflight"},
				[]allowSite{{"client/rp.(*remoteKeySet).updateKeys", "r.inflight.done", "owner goroutine: inflight was stored before `go` (happens-before) and is only replaced by this goroutine, later, under the lock"}},
				[]string{"client/rp.NewRemoteKeySet"})
			RunFieldWriters(c, "E6.jwks.cache-writers", "client/rp", "remoteKeySet", "cachedKeys", []string{"client/rp.(*remoteKeySet).updateKeys"}, "the cache is replaced only by a successful download")
			RunFieldWriters(c, "E6.jwks.inflight-result-writers", "client/rp", "inflight", "keys", []string{"client/rp.(*inflight).done"}, "results are written once, before close(doneCh)")
			RunSelectShape(c)
			RunCallers(c, "E6.jwks.update-callers", "client/rp.(*remoteKeySet).updateKeys", []string{"client/rp.(*remoteKeySet).keysFromRemote"}, "the download goroutine is started only from the single-flight section")
			RunCallers(c, "E6.jwks.result-callers", "client/rp.(*inflight).result", []string{"client/rp.(*remoteKeySet).keysFromRemote"}, "results are read only after wait()")
		},
	})
}

// RunLockset: every selector <recv>.<field> (field in fields) inside methods of pkg.typ sits in a region where
// <recv>.<mutex> is held; constructors are exempt (the value is not shared yet); exceptions keyed by function + expression.
func RunLockset(c *Ctx, pkg, typ, mutex string, fields []string, exceptions []allowSite, constructors []string) {
	isField := map[string]bool{}
	for _, f := range fields {
		isField[f] = true
	}
	exc := map[string]string{}
	for _, e := range exceptions {
		exc[e.fn+"|"+e.expr] = e.why
	}
	used := map[string]bool{}
	n := 0
	for _, fi := range c.P.Funcs {
		if fi.Body == nil || (shortPkg(fi.Pkg.PkgPath) != pkg && !fi.Ctl) {
			continue
		}
		if contains(constructors, fi.Root().Name) {
			continue
		}
		info := fi.Pkg.TypesInfo
		pm := buildParents(fi.Body)
		ast.Inspect(fi.Body, func(nd ast.Node) bool {
			sel, ok := nd.(*ast.SelectorExpr)
			if !ok || !isField[sel.Sel.Name] {
				return true
			}
			s, has := info.Selections[sel]
			if !has || s.Kind() != types.FieldVal {
				return true
			}
			nm := namedOf(s.Recv())
			if nm == nil || nm.Obj().Name() != typ {
				return true
			}
			id, ok := unparen(sel.X).(*ast.Ident)
			if !ok {
				return true
			}
			recv := info.Uses[id]
			n++
			held := recv != nil && heldLockOrByCallers(c, fi, recv, mutex, sel.Pos(), 3)
			// expression used for exception keys: the selector plus a directly selected method, e.g. r.inflight.done
			expr := types.ExprString(sel)
			if p, ok := pm[sel].(*ast.SelectorExpr); ok {
				expr = types.ExprString(p)
			}
			why := ""
			if !held {
				if w, ok := exc[fi.Name+"|"+expr]; ok {
					why, held = w, true
					used[fi.Name+"|"+expr] = true
				}
			}
			c.R.Obl(Obligation{Rule: "E6.R-lockset", Func: fi.Name, Construct: "access " + expr, Pos: c.P.Position(sel.Pos()), Discharged: held, Nontrivial: true, How: []string{"lock " + mutex, why}, Ctl: fi.Ctl})
			if !held {
				c.R.Find(Finding{Rule: "E6.R-lockset", Func: fi.Name, Construct: "access " + expr + " without " + mutex, Pos: c.P.Position(sel.Pos()),
					Msg: fmt.Sprintf("%s is read or written in %s while %s.%s is not held: concurrent verifications race on it", expr, fi.Name, id.Name, mutex), Ctl: fi.Ctl})
			}
			return true
		})
	}
	if n == 0 {
		c.R.Fail("vacuity", "-", "E6.R-lockset", "no access to the guarded fields found: re-point the rule")
	}
	for k := range exc {
		if !used[k] {
			// an exception the code no longer needs is not a defect of the code
			c.R.Extra["lockset_exception_unused:"+k] = true
		}
	}
}

// RunSelectShape: in keysFromRemote the result is read only in the arm that received from inflight.wait(), and a ctx.Done() arm exists.
func RunSelectShape(c *Ctx) {
	const rule = "E6.jwks.select-shape"
	fi := c.P.Fn("client/rp.(*remoteKeySet).keysFromRemote")
	if fi == nil {
		c.R.Fail("anchor-unresolved", "client/rp.(*remoteKeySet).keysFromRemote", rule, "function not found")
		return
	}
	var waitArm, doneArm, resultInWait bool
	resultElsewhere := false
	info := fi.Pkg.TypesInfo
	// methods are resolved through the type checker; the receiver of wait() and result() must be the same variable
	methodOn := func(e ast.Expr, typ, name string) (types.Object, bool) {
		call, ok := unparen(e).(*ast.CallExpr)
		if !ok {
			return nil, false
		}
		fn, _ := typeutil.Callee(info, call).(*types.Func)
		if fn == nil || fn.Name() != name {
			return nil, false
		}
		sig := fn.Type().(*types.Signature)
		if sig.Recv() == nil || !strings.HasSuffix(typeStr(derefType(sig.Recv().Type())), typ) {
			return nil, false
		}
		sel, ok := unparen(call.Fun).(*ast.SelectorExpr)
		if !ok {
			return nil, true
		}
		if id, ok := unparen(sel.X).(*ast.Ident); ok {
			return info.Uses[id], true
		}
		return nil, true
	}
	recvOf := func(e ast.Expr) ast.Expr {
		if u, ok := unparen(e).(*ast.UnaryExpr); ok && u.Op == token.ARROW {
			return u.X
		}
		return nil
	}
	ast.Inspect(fi.Body, func(n ast.Node) bool {
		cc, ok := n.(*ast.CommClause)
		if !ok {
			return true
		}
		var commX ast.Expr
		switch cm := cc.Comm.(type) {
		case *ast.ExprStmt:
			commX = recvOf(cm.X)
		case *ast.AssignStmt:
			if len(cm.Rhs) == 1 {
				commX = recvOf(cm.Rhs[0])
			}
		}
		var waitObj types.Object
		isWait := false
		if commX != nil {
			if o, ok := methodOn(commX, "inflight", "wait"); ok {
				isWait, waitObj = true, o
				waitArm = true
			}
			if _, ok := methodOn(commX, "context.Context", "Done"); ok {
				doneArm = true
			}
		}
		for _, st := range cc.Body {
			ast.Inspect(st, func(m ast.Node) bool {
				if call, ok := m.(*ast.CallExpr); ok {
					if o, ok := methodOn(call, "inflight", "result"); ok {
						if isWait && o != nil && o == waitObj {
							resultInWait = true
						} else {
							resultElsewhere = true
						}
					}
				}
				return true
			})
		}
		return true
	})
	// result() outside any comm clause
	total := 0
	ast.Inspect(fi.Body, func(n ast.Node) bool {
		if call, ok := n.(*ast.CallExpr); ok {
			if _, ok := methodOn(call, "inflight", "result"); ok {
				total++
			}
		}
		return true
	})
	good := waitArm && doneArm && resultInWait && !resultElsewhere && total == 1
	c.R.Obl(Obligation{Rule: rule, Func: fi.Name, Construct: "select { <-ctx.Done(); <-inflight.wait() -> result() }", Pos: c.P.Position(fi.Pos()), Discharged: good, Nontrivial: true,
		How: []string{fmt.Sprintf("wait arm %v, ctx.Done arm %v, result() in wait arm %v, result() calls %d", waitArm, doneArm, resultInWait, total)}})
	if !good {
		c.R.Find(Finding{Rule: rule, Func: fi.Name, Construct: "select shape", Pos: c.P.Position(fi.Pos()),
			Msg: fmt.Sprintf("keysFromRemote must read inflight.result() only after receiving from inflight.wait() and must keep a ctx.Done() arm so that a caller's cancellation returns to that caller only (wait arm %v, ctx.Done arm %v, result in wait arm %v, result elsewhere %v, calls %d)", waitArm, doneArm, resultInWait, resultElsewhere, total)})
	}
}
