package main

// C15 — token exchange needs live subject/actor tokens and returns what it declares (DESIGN §5 C15).

func init() {
	const sup = `neq($req.SubjectToken, "") ; neq($req.SubjectTokenType, "") ; true($req.SubjectTokenType.IsSupported()) ; eq($req.RequestedTokenType, "") || true($req.RequestedTokenType.IsSupported()) ; eq($req.ActorTokenType, "") || true($req.ActorTokenType.IsSupported())`
	split := func(s string) []string {
		var out []string
		for _, p := range splitSemi(s) {
			out = append(out, p)
		}
		return out
	}
	guarP("C15", "op.GetTokenIDAndSubjectFromToken", []string{"ctx", "exchanger", "token", "tokenType", "isActor"},
		[]string{"exchangeTokenAccepted($token, $tokenType, $isActor)"},
		[]string{
			"(eq($tokenType, oidc.AccessTokenType) && tokenResolved(_, _, $token)) || (eq($tokenType, oidc.RefreshTokenType) && ok(_.TokenRequestByRefreshToken(_, $token))) || (eq($tokenType, oidc.IDTokenType) && ok(op.VerifyIDTokenHint(_, $token, _)))" +
				" || (is(_.Storage(), TokenExchangeTokensVerifierStorage) && true($isActor) && ok(_.VerifyExchangeActorToken(_, $token, $tokenType))) || (is(_.Storage(), TokenExchangeTokensVerifierStorage) && false($isActor) && ok(_.VerifyExchangeSubjectToken(_, $token, $tokenType)))",
		})
	guarP("C15", "op.CreateTokenExchangeRequest", []string{"ctx", "req", "client", "exchanger"},
		[]string{"exchangeRequestCreated($r0, $req, $client)"},
		[]string{
			"is($exchanger.Storage(), TokenExchangeStorage)",
			"exchangeTokenAccepted($req.SubjectToken, $req.SubjectTokenType, false)",
			`eq($req.ActorToken, "") || exchangeTokenAccepted($req.ActorToken, $req.ActorTokenType, true)`,
			"ok(_.ValidateTokenExchangeRequest(_, $r0))",
			"ok(_.CreateTokenExchangeRequest(_, $r0))",
		})
	obs := []Ob{
		{ID: "E1.exchange.jwt.policy-claims", Fn: "op.CreateJWT", P: []string{"ctx", "issuer", "tokenRequest", "exp", "id", "client", "storage"}, Kind: "call", Pat: "crypto.Sign($claims, $signer)", Min: 1, Max: 1,
			Why: "sibling of CreateIDToken: the private claims of an exchanged JWT access token come from the token-exchange policy hook",
			Req: []string{"notis($tokenRequest, TokenExchangeRequest) || notis($storage, TokenExchangeStorage) || nil($client) || (ok(_.GetPrivateClaimsFromTokenExchangeRequest(_, _)) && def($pc, _.GetPrivateClaimsFromTokenExchangeRequest(_, _), 0) && eq($claims.Claims, $pc))"}},
		// the exchanged ID token carries what the storage policy decided: whenever request and storage take part in token
		// exchange, the policy hook ran successfully and its claims were merged before signing - whatever the granted scopes
		{ID: "E1.exchange.idtoken.policy-claims", Fn: "op.CreateIDToken", P: []string{"ctx", "issuer", "request", "validity", "accessToken", "code", "storage", "client"}, Kind: "call", Pat: "crypto.Sign($claims, $signer)", Min: 1, Max: 1,
			Why: "subject, scopes and actor of an exchanged ID token are the ones the storage policy decided",
			Req: []string{"notis($request, TokenExchangeRequest) || notis($storage, TokenExchangeStorage) || (ok(_.SetUserinfoFromTokenExchangeRequest(_, $ui, _)) && called($claims.SetUserInfo($ui)))"}},
		{ID: "E1.te.validation.provider", Fn: "op.ValidateTokenExchangeRequest", P: []string{"ctx", "req", "clientID", "clientSecret", "exchanger"}, Kind: "call", Pat: "op.CreateTokenExchangeRequest(_, $req, $client, _)", Max: 1,
			Why: "sibling validation set: subject token and type present, all declared token types supported",
			Req: split(sup)},
		{ID: "E1.te.validation.server", Fn: "op.(*webServer).tokenExchangeHandler", P: []string{"s", "w", "r", "client"}, Kind: "call", Pat: "$s.server.TokenExchange(_, op.newClientRequest($r, $req, $client))", Max: 1,
			Why: "sibling of op.ValidateTokenExchangeRequest",
			Req: split(sup)},
		{ID: "E8.te.request-binding", Fn: "op.CreateTokenExchangeRequest", P: []string{"ctx", "req", "client", "exchanger"}, Kind: "ret ok", Max: 1,
			Pat: "ret($rq, nil)",
			Req0: "def($rq, &tokenExchangeRequest{exchangeSubjectTokenIDOrToken: $sid, exchangeSubject: $sub, subject: $sub, exchangeSubjectTokenType: $req.SubjectTokenType, exchangeActorTokenIDOrToken: $aid, exchangeActor: $act, exchangeActorTokenType: $req.ActorTokenType, scopes: $req.Scopes, requestedTokenType: $req.RequestedTokenType, clientID: $client.GetID()})",
			Req: []string{"def($sid, op.GetTokenIDAndSubjectFromToken(_, _, $req.SubjectToken, $req.SubjectTokenType, false), 0)", "def($sub, op.GetTokenIDAndSubjectFromToken(_, _, $req.SubjectToken, $req.SubjectTokenType, false), 1)"}},
		{ID: "E1.te.response.token-issued", Fn: "op.CreateTokenExchangeResponse", P: []string{"ctx", "ter", "client", "creator"}, Kind: "ret ok", Min: 1, Only: true, // every success return has this shape (one return, or one per case)
			Pat: "ret(&TokenExchangeResponse{AccessToken: $tok, IssuedTokenType: $ter.GetRequestedTokenType(), RefreshToken: $rt, Scopes: $ter.GetScopes()}, nil)",
			Why: "a success response always contains a freshly issued token of the declared kind (every case, including default)",
			Req: []string{
				`((eq($ter.GetRequestedTokenType(), oidc.AccessTokenType) || eq($ter.GetRequestedTokenType(), oidc.RefreshTokenType)) && ok(op.CreateAccessToken(_, $ter, _, $creator, $client, "")) && def($tok, op.CreateAccessToken(_, $ter, _, $creator, $client, ""), 0) && def($rt, op.CreateAccessToken(_, $ter, _, $creator, $client, ""), 1))` +
					` || (eq($ter.GetRequestedTokenType(), oidc.IDTokenType) && ok(op.CreateIDToken(_, op.IssuerFromContext(_), $ter, _, "", "", _, $client)) && def($tok, op.CreateIDToken(_, op.IssuerFromContext(_), $ter, _, "", "", _, $client), 0))`,
			}},
		{ID: "E7.te.refresh-token-iff-requested", Fn: "op.needsRefreshToken", P: []string{"tokenRequest", "client"}, Kind: "ret fail",
			Why: "the response declares issued_token_type = requested type, so a refresh token must be created exactly when one is requested (no further condition)",
			Req: []string{"notis($tokenRequest, TokenExchangeRequest) || is($tokenRequest, AuthRequest) || neq($q.GetRequestedTokenType(), oidc.RefreshTokenType)"}},
		{ID: "E7.te.refresh-token-iff-requested.sink", Fn: "op.createTokens", P: []string{"ctx", "tokenRequest", "storage", "refreshToken", "client"}, Kind: "call",
			Pat: "$storage.CreateAccessToken(_, $tokenRequest)", Max: 1,
			Why: "the access-token-only path is not taken for a token exchange that asked for a refresh token",
			Req: []string{"noRT($tokenRequest, $client)"}},
		{ID: "E7.te.issupported", Fn: "oidc.TokenType.IsSupported", P: []string{"t"}, Kind: "ret ok", Req: []string{"member($t, oidc.AllTokenTypes)"},
			Why: "a token type is supported exactly when it is one of the four listed types"},
		{ID: "E7.te.issupported.only", Fn: "oidc.TokenType.IsSupported", P: []string{"t"}, Kind: "ret fail", Req: []string{"notmember($t, oidc.AllTokenTypes)"}},
	}
	// C08 states the same clause ("token exchange accepts a subject or actor token only for a token the provider actually
	// issued ..."): the proofs of these two guarantees are part of its verdict too
	for _, fn := range []string{"op.GetTokenIDAndSubjectFromToken", "op.CreateTokenExchangeRequest"} {
		guarAlso[fn] = append(guarAlso[fn], "C08")
	}
	register(&PropSpec{
		ID: "C15",
		Explanation: "Decides, for all paths of both routers: a token-exchange request object is created only after the subject token (and the actor token, if given) was accepted by GetTokenIDAndSubjectFromToken for its declared type (access token resolved, refresh token found in storage, ID token verified, or the storage's custom verifier succeeded), the storage validated and stored the request, and both sibling front ends checked presence and support of the declared token types; the request carries the resolved subject/actor, the client's id and the requested type; CreateTokenExchangeResponse returns a success document only with a token freshly issued by CreateAccessToken / CreateIDToken for the declared requested type (default case returns an error); AllTokenTypes is the four RFC 8693 constants (E7). Does not decide liveness of the presented tokens nor the storage's policy.",
		RuleText:    "obligation = (rule, function, sink site); table rows; non-trivial when guard facts were needed",
		Assumptions: []string{"Storage verifies liveness of refresh tokens / custom tokens it accepts"},
		Trusted:     []string{"go/types, go/cfg (x/tools v0.50.0)", "Storage implementation"},
		Level:       "Sound static check (all paths, both routers) of validation-before-creation, value binding of the created request and token-issued-before-success for every requested type.",
		Note:        "Trusted: go/types+go/cfg, Storage contract.",
		Technique:   "static analysis: assume/guarantee must-facts dataflow over go/cfg; sibling cross-check; composite-literal binding patterns",
		Rules:       []string{"E1", "E5.R-discard"},
		Run: func(c *Ctx) {
			RunE1(c, "C15", append(append([]Ob{}, obs...), sharedObs["C15"]...))
			// the actor an exchanged token carries is the one the storage policy decided: no request type of the library itself
			// implements TokenActorRequest (CreateJWT / CreateIDToken would overlay `act` from it on top of the storage's claims)
			RunImplementers(c, "E7.te.actor-request-implementers", "op", "TokenActorRequest", []string{}, "a library type implementing TokenActorRequest makes the token creators set the registered act claim themselves, which overrides the actor the storage decided")
			RunConstSlice(c, "E7.te.alltypes", "oidc", "AllTokenTypes", []string{"oidc.AccessTokenType", "oidc.RefreshTokenType", "oidc.IDTokenType", "oidc.JWTTokenType"})
			RunDiscard(c, "C15", []string{"op"})
		},
	})
}

func splitSemi(s string) []string {
	var out []string
	cur := ""
	for _, r := range s {
		if r == ';' {
			out = append(out, trimSpace(cur))
			cur = ""
			continue
		}
		cur += string(r)
	}
	if trimSpace(cur) != "" {
		out = append(out, trimSpace(cur))
	}
	return out
}

func trimSpace(s string) string {
	for len(s) > 0 && (s[0] == ' ' || s[0] == '\t') {
		s = s[1:]
	}
	for len(s) > 0 && (s[len(s)-1] == ' ' || s[len(s)-1] == '\t') {
		s = s[:len(s)-1]
	}
	return s
}
