package main

// C07 — refresh tokens stay bound to their client and can only narrow scope (DESIGN §5 C07).

func init() {
	const cl = "def($r1, _.GetClientByClientID(_, $tokenReq.ClientID), 0) && ok(_.GetClientByClientID(_, $tokenReq.ClientID)) && neq($r1.AuthMethod(), oidc.AuthMethodPrivateKeyJWT)"
	guarP("C07", "op.RefreshTokenRequestByRefreshToken", []string{"ctx", "storage", "refreshToken"},
		[]string{"refreshLookup($r0, $refreshToken)"},
		[]string{"def($r0, $storage.TokenRequestByRefreshToken(_, $refreshToken), 0)", "ok($storage.TokenRequestByRefreshToken(_, $refreshToken))"})
	guarP("C07", "op.AuthorizeRefreshClient", []string{"ctx", "tokenReq", "exchanger"},
		[]string{"refreshLookup($r0, $tokenReq.RefreshToken)", "refreshClientAuthed($r1)", "true(op.ValidateGrantType($r1, oidc.GrantTypeRefreshToken))"},
		[]string{
			"refreshLookup($r0, $tokenReq.RefreshToken)",
			"true(op.ValidateGrantType($r1, oidc.GrantTypeRefreshToken))",
			"(jwtClient($r1, $tokenReq.ClientAssertion) && true($exchanger.AuthMethodPrivateKeyJWTSupported()) && is($exchanger, JWTAuthorizationGrantExchanger)) || (" + cl + " && eq($r1.AuthMethod(), oidc.AuthMethodNone)) || (" + cl + " && neq($r1.AuthMethod(), oidc.AuthMethodNone) && secretOK($tokenReq.ClientID, $tokenReq.ClientSecret) && (neq($r1.AuthMethod(), oidc.AuthMethodPost) || true($exchanger.AuthMethodPostSupported())))",
		})
	guarP("C07", "op.ValidateRefreshTokenScopes", []string{"requestedScopes", "authRequest"},
		[]string{"scopesNarrowed($requestedScopes, $authRequest)"}, []string{})
	guarP("C07", "op.ValidateRefreshTokenRequest", []string{"ctx", "tokenReq", "exchanger"},
		[]string{"refreshable($r0, $r1, $tokenReq)"},
		[]string{
			"refreshLookup($r0, $tokenReq.RefreshToken)", "refreshClientAuthed($r1)", "true(op.ValidateGrantType($r1, oidc.GrantTypeRefreshToken))",
			"eq($r1.GetID(), $r0.GetClientID())", "scopesNarrowed($tokenReq.Scopes, $r0)", `neq($tokenReq.RefreshToken, "")`,
		})
	// needsRefreshToken is an internal helper: its meaning is stated as two predicates over the request kinds, so that its
	// callers can be held to them whether the helper exists, was renamed or was merged into createTokens
	const off = "member(oidc.ScopeOfflineAccess, $q.GetScopes())"
	const refreshGrant = "true(op.ValidateGrantType($client, oidc.GrantTypeRefreshToken))"
	needs := &Guar{Prop: "C07", Fn: "op.needsRefreshToken", P: []string{"tokenRequest", "client"},
		Facts: []string{"needsRT($tokenRequest, $client)"},
		Proof: []string{"is($tokenRequest, RefreshTokenRequest) || (is($tokenRequest, TokenExchangeRequest) && eq($q.GetRequestedTokenType(), oidc.RefreshTokenType))" +
			" || (is($tokenRequest, AuthRequest) && " + off + " && eq($q.GetResponseType(), oidc.ResponseTypeCode) && " + refreshGrant + ")" +
			" || (is($tokenRequest, *DeviceAuthorizationState) && " + off + " && " + refreshGrant + ")"},
		FailFacts: []string{"noRT($tokenRequest, $client)"},
		FailProof: []string{
			// a refresh request always rotates; a token exchange gets a refresh token exactly when it asks for one (earlier cases of the type switch win)
			"notis($tokenRequest, RefreshTokenRequest) || is($tokenRequest, AuthRequest) || is($tokenRequest, TokenExchangeRequest)",
			"notis($tokenRequest, TokenExchangeRequest) || is($tokenRequest, AuthRequest) || neq($q.GetRequestedTokenType(), oidc.RefreshTokenType)",
		}}
	allGuars = append(allGuars, needs)
	obs := []Ob{
		{ID: "E1.refresh.provider", Fn: "op.RefreshTokenExchange", Kind: "call", Pat: `op.CreateTokenResponse(_, $req, $client, _, true, "", $tokenReq.RefreshToken)`, Max: 1,
			Why: "new tokens only for the authenticated client the refresh token belongs to, registered for the grant, with narrowed scopes; the presented token is handed on for rotation",
			Req: []string{"refreshable($req, $client, $tokenReq)", "def($tokenReq, op.ParseRefreshTokenRequest(__), 0)"}},
		{ID: "E1.refresh.legacy-server", Fn: "op.(*LegacyServer).RefreshToken", P: []string{"s", "ctx", "r"}, Kind: "call", Pat: `op.CreateTokenResponse(_, $req, $r.Client, _, true, "", $r.Data.RefreshToken)`, Max: 1,
			Why: "sibling of op.RefreshTokenExchange (client authentication and ValidateGrantType come from webServer.withClient + dispatch)",
			Req: []string{"true($s.provider.GrantTypeRefreshTokenSupported())", "refreshLookup($req, $r.Data.RefreshToken)", "eq($r.Client.GetID(), $req.GetClientID())", "scopesNarrowed($r.Data.Scopes, $req)"}},
		{ID: "E1.refresh.server-handler", Fn: "op.(*webServer).refreshTokenHandler", P: []string{"s", "w", "r", "client"}, Kind: "call", Pat: "$s.server.RefreshToken(_, op.newClientRequest($r, $request, $client))", Max: 1,
			Req: []string{`neq($request.RefreshToken, "")`}},
		// subset loop: every loop iteration that continues has found the scope among the granted ones
		{ID: "E1.refresh.scopes.subset", Fn: "op.ValidateRefreshTokenScopes", P: []string{"requested", "authRequest"}, Kind: "ret ok",
			Why: "requested scopes must be a subset of the granted scopes",
			Req: []string{"eq(len($requested), 0) || all($requested, member(ELEM, $authRequest.GetScopes()))"}},
		{ID: "E1.refresh.scopes.reject", Fn: "op.ValidateRefreshTokenScopes", P: []string{"requested", "authRequest"}, Kind: "ret fail",
			Why: "a request is refused only for a scope that was not granted",
			Req: []string{"some($requested, notmember(ELEM, $authRequest.GetScopes()))"}},
		{ID: "E8.refresh.scopes.set", Fn: "op.ValidateRefreshTokenScopes", P: []string{"requested", "authRequest"}, Kind: "call", Pat: "$authRequest.SetCurrentScopes($requested)", Max: 1,
			Why: "only a validated, non-empty subset becomes the current scope set",
			Req: []string{"neq(len($requested), 0)", "all($requested, member(ELEM, $authRequest.GetScopes()))"}},
		// rotation: the presented refresh token reaches the storage; the storage's new token reaches the response
		{ID: "E8.refresh.rotation.tokens", Fn: "op.CreateTokenResponse", P: []string{"ctx", "request", "client", "creator", "createAccessToken", "code", "refreshToken"}, Kind: "call",
			Pat: "op.CreateAccessToken(_, $request, _, $creator, $client, $refreshToken)", Max: 1},
		{ID: "E8.refresh.rotation.create", Fn: "op.CreateAccessToken", P: []string{"ctx", "tokenRequest", "accessTokenType", "creator", "client", "refreshToken"}, Kind: "ret ok",
			Why: "the presented refresh token is handed to the storage together with the request (rotation), and the storage's new token is what is returned",
			Req: []string{"tokensCreated($id, $r1, $exp, $tokenRequest, $refreshToken)"}},
		{ID: "E8.refresh.rotation.storage", Fn: "op.createTokens", P: []string{"ctx", "tokenRequest", "storage", "refreshToken", "client"}, Kind: "call",
			Pat: "$storage.CreateAccessAndRefreshTokens(_, $tokenRequest, $refreshToken)", Max: 1,
			Why: "access and refresh tokens are created together exactly when the request calls for a refresh token",
			Req: []string{"needsRT($tokenRequest, $client)"}},
		{ID: "E8.refresh.rotation.no-plain-token-for-refresh", Fn: "op.createTokens", P: []string{"ctx", "tokenRequest", "storage", "refreshToken", "client"}, Kind: "call",
			Pat: "$storage.CreateAccessToken(_, $tokenRequest)", Max: 1,
			Why: "a refresh request never takes the access-token-only path (the presented refresh token would not be rotated)",
			Req: []string{"noRT($tokenRequest, $client)"}},
		{ID: "E8.refresh.rotation.response", Fn: "op.CreateTokenResponse", P: []string{"ctx", "request", "client", "creator", "createAccessToken", "code", "refreshToken"}, Kind: "ret ok",
			Pat: "ret(&AccessTokenResponse{RefreshToken: $new, AccessToken: $at}, nil)", Max: 1,
			Req: []string{"false($createAccessToken) || def($new, op.CreateAccessToken(_, $request, _, $creator, $client, $refreshToken), 1)"}},
	}
	register(&PropSpec{
		ID: "C07",
		Explanation: "Decides, for all paths of both implementations: the refresh grant's token sink is dominated by the storage lookup of the presented refresh token, client authentication, ValidateGrantType(refresh_token), equality of the authenticated client's id with the stored request's client id and the scope-subset validation; ValidateRefreshTokenScopes' loop continues only for scopes contained in the granted scopes (loop-all rule on the back edge) and rejects otherwise; the presented refresh token flows unchanged to Storage.CreateAccessAndRefreshTokens and the storage's new refresh token into the response. Does not decide what the storage rotates, nor scope monotonicity over chains (follows from the per-step rule only if the storage persists the narrowed scope).",
		RuleText:    "obligation = (rule, function, sink site) incl. loop back-edge and argument-binding obligations; non-trivial when guard facts were needed",
		Assumptions: []string{"Storage.TokenRequestByRefreshToken returns the request the token was issued for", "the storage persists SetCurrentScopes for later refreshes"},
		Trusted:     []string{"go/types, go/cfg (x/tools v0.50.0)", "Storage implementation", "stdlib slices"},
		Level:       "Sound static check (all paths, both routers) that the refresh token sink is dominated by lookup, authentication, client binding, grant registration and the subset loop, plus argument-binding rules for rotation. The history claim (scope never grows over a chain) is not decided.",
		Note:        "Trusted: go/types+go/cfg, Storage contract.",
		Technique:   "static analysis: assume/guarantee must-facts dataflow over go/cfg incl. a loop-all (back-edge) rule; argument-binding patterns",
		Rules:       []string{"E1"},
		Run: func(c *Ctx) {
			RunE1(c, "C07", append(append([]Ob{}, obs...), sharedObs["C07"]...))
			RunCallers(c, "E1.refresh-lookup-table", "op.RefreshTokenRequestByRefreshToken", []string{"op.AuthorizeRefreshClient", "op.(*LegacyServer).RefreshToken"}, "refresh redemption sites")
			RunCallers(c, "E1.scopes-table", "op.ValidateRefreshTokenScopes", []string{"op.ValidateRefreshTokenRequest", "op.(*LegacyServer).RefreshToken"}, "scope narrowing sites")
		},
	})
}
