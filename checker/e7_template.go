package main

// E7 — form_post template: html/template identity, slot contexts, slot/field agreement (C11).
// E8.enc — encoding levels: query-encoded strings must not be stored into URL fields that encode again.

import (
	"go/token"
	"golang.org/x/tools/go/types/typeutil"
	"fmt"
	"go/ast"
	"go/types"
	"os"
	"path/filepath"
	"reflect"
	"sort"
	"strings"
	"text/template/parse"
)

type tmplSlot struct {
	expr    string // the action's pipeline text
	state   string // html tokenizer state at the action
	tag     string
	attr    string
	with    string // enclosing {{with .Params.X}} field, "" if none
	line    int
	nameLit string // value of a name="..." attribute seen earlier in the same tag
}

type htmlTok struct {
	state string // text | tag | attrname | aftereq | dq | sq | unq
	tag   string
	attr  string
	attrs map[string]string // literal attribute values of the current tag
	cur   strings.Builder
}

func (h *htmlTok) feed(s string) {
	for i := 0; i < len(s); i++ {
		ch := s[i]
		switch h.state {
		case "text":
			if ch == '<' {
				h.state, h.tag, h.attr, h.attrs = "tagname", "", "", map[string]string{}
			}
		case "tagname":
			switch {
			case ch == '>':
				h.state = "text"
			case ch == ' ' || ch == '\n' || ch == '\t' || ch == '\r':
				h.state = "tag"
			default:
				h.tag += string(ch)
			}
		case "tag":
			switch {
			case ch == '>':
				h.state = "text"
			case ch == ' ' || ch == '\n' || ch == '\t' || ch == '\r' || ch == '/':
			default:
				h.state, h.attr = "attrname", string(ch)
			}
		case "attrname":
			switch {
			case ch == '=':
				h.state = "aftereq"
			case ch == '>':
				h.state = "text"
			case ch == ' ' || ch == '\n' || ch == '\t':
				h.state = "tag"
			default:
				h.attr += string(ch)
			}
		case "aftereq":
			h.cur.Reset()
			switch ch {
			case '"':
				h.state = "dq"
			case '\'':
				h.state = "sq"
			case ' ', '\n', '\t':
			case '>':
				h.state = "text"
			default:
				h.state = "unq"
				h.cur.WriteByte(ch)
			}
		case "dq":
			if ch == '"' {
				h.attrs[strings.ToLower(h.attr)] = h.cur.String()
				h.state = "tag"
			} else {
				h.cur.WriteByte(ch)
			}
		case "sq":
			if ch == '\'' {
				h.attrs[strings.ToLower(h.attr)] = h.cur.String()
				h.state = "tag"
			} else {
				h.cur.WriteByte(ch)
			}
		case "unq":
			if ch == ' ' || ch == '\n' || ch == '\t' {
				h.state = "tag"
			} else if ch == '>' {
				h.state = "text"
			}
		}
	}
}

var urlAttrs = map[string]bool{"action": true, "href": true, "src": true, "formaction": true, "cite": true, "data": true, "poster": true}

func RunFormPostTemplate(c *Ctx) {
	const rule = "E7.template"
	var opPkg = c.P.ByPath[pkgPrefix+"op"]
	if opPkg == nil {
		c.R.Fail("anchor-unresolved", "op", rule, "package op not loaded")
		return
	}
	// 1. html/template identity
	tv, _ := opPkg.Types.Scope().Lookup("formPostTmpl").(*types.Var)
	if tv == nil {
		c.R.Fail("anchor-unresolved", "op.formPostTmpl", rule, "package-level template variable not found")
		return
	}
	isHTML := strings.Contains(tv.Type().String(), "html/template.Template")
	c.R.Obl(Obligation{Rule: rule + ".html-template", Func: "op.formPostTmpl", Construct: "template engine", Pos: c.P.Position(tv.Pos()), Discharged: isHTML, Nontrivial: true, How: []string{"type " + tv.Type().String()}})
	if !isHTML {
		c.R.Find(Finding{Rule: rule + ".html-template", Func: "op.formPostTmpl", Construct: "template engine is not html/template", Pos: c.P.Position(tv.Pos()),
			Msg: "the form_post page is rendered by " + tv.Type().String() + ": without html/template's contextual escaping a parameter value can break out of its attribute"})
	}
	// 2. the embedded file
	file := ""
	for _, f := range opPkg.Syntax {
		for _, cg := range f.Comments {
			for _, cm := range cg.List {
				if strings.HasPrefix(cm.Text, "//go:embed ") && strings.Contains(cm.Text, "form_post") {
					file = filepath.Join(filepath.Dir(c.P.Fset.Position(f.Pos()).Filename), strings.TrimSpace(strings.TrimPrefix(cm.Text, "//go:embed ")))
				}
			}
		}
	}
	if file == "" {
		c.R.Fail("anchor-unresolved", "op.formPostHtmlTemplate", rule, "go:embed directive for the form_post template not found")
		return
	}
	src, err := os.ReadFile(file)
	if err != nil {
		c.R.Fail("anchor-unresolved", file, rule, err.Error())
		return
	}
	builtins := map[string]any{}
	for _, n := range []string{"index", "and", "or", "not", "len", "print", "printf", "println", "html", "js", "urlquery", "eq", "ne", "lt", "le", "gt", "ge", "slice", "call"} {
		builtins[n] = true
	}
	trees, err := parse.Parse("form_post", string(src), "", "", builtins)
	if err != nil {
		c.R.Fail("engine-error", file, rule, "template does not parse: "+err.Error())
		return
	}
	tree := trees["form_post"]
	h := &htmlTok{state: "text"}
	var slots []tmplSlot
	withFields := map[string]bool{}
	rel := relTo(c.P.Repo, file)
	lineOf := func(pos parse.Pos) int { return 1 + strings.Count(string(src[:int(pos)]), "\n") }
	var walk func(n parse.Node, with string)
	walk = func(n parse.Node, with string) {
		switch x := n.(type) {
		case *parse.ListNode:
			if x == nil {
				return
			}
			for _, ch := range x.Nodes {
				walk(ch, with)
			}
		case *parse.TextNode:
			h.feed(string(x.Text))
		case *parse.ActionNode:
			slots = append(slots, tmplSlot{expr: x.Pipe.String(), state: h.state, tag: strings.ToLower(h.tag), attr: strings.ToLower(h.attr), with: with, line: lineOf(x.Pos), nameLit: h.attrs["name"]})
		case *parse.WithNode:
			field := ""
			if len(x.Pipe.Cmds) == 1 && len(x.Pipe.Cmds[0].Args) == 1 {
				if fn, ok := x.Pipe.Cmds[0].Args[0].(*parse.FieldNode); ok && len(fn.Ident) == 2 && fn.Ident[0] == "Params" {
					field = fn.Ident[1]
					withFields[field] = true
				}
			}
			before := h.state
			walk(x.List, field)
			if h.state != before {
				c.R.Find(Finding{Rule: rule + ".balanced", Func: rel, Construct: "with block " + x.Pipe.String(), Pos: fmt.Sprintf("%s:%d", rel, lineOf(x.Pos)), Msg: "the HTML context differs between entry and exit of a conditional block (" + before + " vs " + h.state + ")"})
			}
			if x.ElseList != nil {
				walk(x.ElseList, with)
			}
		case *parse.IfNode:
			before := h.state
			walk(x.List, with)
			if h.state != before {
				c.R.Find(Finding{Rule: rule + ".balanced", Func: rel, Construct: "if block", Pos: fmt.Sprintf("%s:%d", rel, lineOf(x.Pos)), Msg: "the HTML context differs between entry and exit of a conditional block"})
			}
			if x.ElseList != nil {
				walk(x.ElseList, with)
			}
		case *parse.RangeNode:
			walk(x.List, with)
		}
	}
	walk(tree.Root, "")
	// 3. every slot sits inside a double-quoted attribute value; parameter slots carry their own name
	for _, s := range slots {
		construct := fmt.Sprintf("slot %s=%s", s.attr, strings.TrimSpace(s.expr))
		pos := fmt.Sprintf("%s:%d", rel, s.line)
		good := s.state == "dq"
		c.R.Obl(Obligation{Rule: rule + ".quoted-slot", Func: "op.AuthResponseFormPost", Construct: construct, Pos: pos, Discharged: good, Nontrivial: true, How: []string{"HTML context: " + s.state + " of <" + s.tag + " " + s.attr + ">"}})
		if !good {
			c.R.Find(Finding{Rule: rule + ".quoted-slot", Func: "op.AuthResponseFormPost", Construct: construct, Pos: pos,
				Msg: fmt.Sprintf("template action {{%s}} is in HTML context %q, not inside a double-quoted attribute value: a value could break out of its attribute", s.expr, s.state)})
		}
		if s.with != "" {
			okName := s.attr == "value" && s.nameLit == s.with
			c.R.Obl(Obligation{Rule: rule + ".slot-name", Func: "op.AuthResponseFormPost", Construct: "parameter " + s.with, Pos: pos, Discharged: okName, Nontrivial: true, How: []string{"input name=" + s.nameLit}})
			if !okName {
				c.R.Find(Finding{Rule: rule + ".slot-name", Func: "op.AuthResponseFormPost", Construct: "parameter " + s.with + " posted as " + s.nameLit, Pos: pos,
					Msg: fmt.Sprintf("the value of parameter %q is posted in the form field named %q (attribute %s): it would arrive under another name", s.with, s.nameLit, s.attr)})
			}
		}
		if urlAttrs[s.attr] {
			// html/template filters URL attributes by scheme: anything but http/https/mailto becomes #ZgotmplZ
			c.R.Obl(Obligation{Rule: "E7.template-url-slot", Func: "op.AuthResponseFormPost", Construct: construct, Pos: pos, Discharged: false, Nontrivial: true,
				How: []string{"URL-context slot fed from the redirect URI; ValidateAuthReqRedirectURI admits custom schemes for native clients"}})
			c.R.Find(Finding{Rule: "E7.template-url-slot", Func: "op.AuthResponseFormPost", Construct: construct, Pos: pos,
				Msg: fmt.Sprintf("{{%s}} is a URL-context attribute (%s): html/template replaces URLs whose scheme is not http, https or mailto by #ZgotmplZ, but redirect validation admits custom schemes for native clients, so form_post cannot reach them", s.expr, s.attr)})
		}
	}
	// 4. required parameters have a slot; every slot is a schema field of a response that is rendered
	required := []string{"code", "state", "session_state", "id_token", "access_token", "token_type", "expires_in"}
	for _, r := range required {
		c.R.Obl(Obligation{Rule: rule + ".required-slot", Func: "op.AuthResponseFormPost", Construct: "parameter " + r, Pos: rel, Discharged: withFields[r], Nontrivial: true})
		if !withFields[r] {
			c.R.Find(Finding{Rule: rule + ".required-slot", Func: "op.AuthResponseFormPost", Construct: "parameter " + r + " has no slot", Pos: rel,
				Msg: fmt.Sprintf("the form_post template has no {{with .Params.%s}} slot: the value is silently dropped in form_post mode", r)})
		}
	}
	tags := schemaTagsOfFormPostArgs(c)
	var fs []string
	for f := range withFields {
		fs = append(fs, f)
	}
	sort.Strings(fs)
	for _, f := range fs {
		c.R.Obl(Obligation{Rule: rule + ".slot-field", Func: "op.AuthResponseFormPost", Construct: "slot " + f + " is an encoded field", Pos: rel, Discharged: tags[f], Nontrivial: true})
		if !tags[f] {
			c.R.Find(Finding{Rule: rule + ".slot-field", Func: "op.AuthResponseFormPost", Construct: "slot " + f + " matches no schema tag", Pos: rel,
				Msg: fmt.Sprintf("template slot .Params.%s is not the schema name of any field of the structs passed to AuthResponseFormPost", f)})
		}
	}
	// 5. conversely, every schema field of a struct that is rendered through the template has a slot: a value handed to
	// AuthResponseFormPost that the template has no slot for is silently dropped in form_post mode.  Reviewed exceptions:
	noSlotOK := map[string]string{
		"refresh_token": "AccessTokenResponse field that authorization (implicit / hybrid) responses never carry",
		"scope":         "not among the authorization response parameters of C11 (code, state, session_state, tokens, error, error_description); upstream omits it in form_post mode",
	}
	var ts []string
	for t := range tags {
		ts = append(ts, t)
	}
	sort.Strings(ts)
	for _, t := range ts {
		good := withFields[t] || noSlotOK[t] != ""
		how := "slot present"
		if !withFields[t] {
			how = "reviewed exception: " + noSlotOK[t]
		}
		c.R.Obl(Obligation{Rule: rule + ".field-slot", Func: "op.AuthResponseFormPost", Construct: "encoded field " + t + " has a slot", Pos: rel, Discharged: good, Nontrivial: true, How: []string{how}})
		if !good {
			c.R.Find(Finding{Rule: rule + ".field-slot", Func: "op.AuthResponseFormPost", Construct: "encoded field " + t + " has no slot", Pos: rel,
				Msg: fmt.Sprintf("a struct with schema field %q is passed to AuthResponseFormPost, but the form_post template has no {{with .Params.%s}} slot: the value never arrives at the redirect URI in form_post mode", t, t)})
		}
	}
	c.R.Extra["template_slots"] = len(slots)
}

// schemaTagsOfFormPostArgs: schema tag names of the struct types that may flow into the `response` parameter of
// op.AuthResponseFormPost - directly, or through a parameter of an intermediate function (followed to its callers).
func schemaTagsOfFormPostArgs(c *Ctx) map[string]bool {
	out := map[string]bool{}
	addStruct := func(t types.Type) bool {
		st, ok := derefType(t).Underlying().(*types.Struct)
		if !ok {
			return false
		}
		for i := 0; i < st.NumFields(); i++ {
			tag := reflect.StructTag(st.Tag(i)).Get("schema")
			name := strings.Split(tag, ",")[0]
			if name != "" && name != "-" {
				out[name] = true
			}
		}
		return true
	}
	// collect(fnObj, argIndex): the concrete struct types passed in that argument position, following parameters upwards
	type key struct {
		fn  *types.Func
		idx int
	}
	seen := map[key]bool{}
	var collect func(fn *types.Func, idx int, depth int)
	collect = func(fn *types.Func, idx int, depth int) {
		k := key{fn, idx}
		if seen[k] || depth > 4 {
			return
		}
		seen[k] = true
		for _, fi := range c.P.Funcs {
			if fi.Body == nil || fi.Ctl {
				continue
			}
			info := fi.Pkg.TypesInfo
			ast.Inspect(fi.Body, func(n ast.Node) bool {
				call, ok := n.(*ast.CallExpr)
				if !ok || len(call.Args) <= idx {
					return true
				}
				callee, _ := typeutil.Callee(info, call).(*types.Func)
				if callee == nil || callee.Origin() != fn {
					return true
				}
				arg := unparen(call.Args[idx])
				if addStruct(info.TypeOf(arg)) {
					return true
				}
				// not a struct (an interface-typed value): a parameter of the enclosing declaration is followed to its callers
				if id, ok := arg.(*ast.Ident); ok {
					if v, ok := info.Uses[id].(*types.Var); ok {
						root := fi.Root()
						if root.Obj != nil && root.Sig != nil {
							for i := 0; i < root.Sig.Params().Len(); i++ {
								if root.Sig.Params().At(i) == v {
									collect(root.Obj, i, depth+1)
								}
							}
						}
						for _, d := range localDefsOf(fi)[v] {
							if d.idx == -1 {
								addStruct(info.TypeOf(d.e))
							}
						}
					}
				}
				return true
			})
		}
	}
	if fi := c.P.Fn("op.AuthResponseFormPost"); fi != nil && fi.Obj != nil {
		collect(fi.Obj, 2, 0)
	}
	return out
}

// RunEncodingLevels: a string produced by url.Values.Encode / url.QueryEscape must not be stored into
// URL.Fragment, URL.Path, URL.Opaque or passed to Values.Set/Add (all of which encode again).
func RunEncodingLevels(c *Ctx, pkgs []string) {
	in := map[string]bool{}
	for _, p := range pkgs {
		in[p] = true
	}
	encoded := func(t *Term) bool {
		hit := false
		t.walk(func(x *Term) bool {
			if x.K == "mcall" && x.S == "Encode" && len(x.A) == 1 {
				hit = true
			}
			if x.K == "call" && (x.S == "url.QueryEscape" || x.S == "url.PathEscape") {
				hit = true
			}
			return !hit
		})
		return hit
	}
	nStores := 0
	for _, fi := range c.P.Funcs {
		if fi.Body == nil || (!in[shortPkg(fi.Pkg.PkgPath)] && !fi.Ctl) {
			continue
		}
		f := c.e1().analyse(fi)
		for _, s := range f.sites {
			switch s.kind {
			case "store":
				lhs, rhs := s.term.A[0], s.term.A[1]
				if lhs.K != "sel" {
					continue
				}
				isURLField := false
				if as, ok := s.node.(*ast.AssignStmt); ok {
					for _, l := range as.Lhs {
						if sel, ok := unparen(l).(*ast.SelectorExpr); ok && sel.Sel.Name == lhs.S {
							if t := fi.Pkg.TypesInfo.TypeOf(sel.X); t != nil && strings.HasSuffix(typeStr(derefType(t)), "url.URL") {
								isURLField = true
							}
						}
					}
				}
				if !isURLField {
					continue
				}
				nStores++
				bad := (lhs.S == "Fragment" || lhs.S == "Path" || lhs.S == "Opaque" || lhs.S == "Host") && encoded(rhs)
				c.R.Obl(Obligation{Rule: "E8.enc", Func: fi.Name, Construct: "store to URL." + lhs.S, Pos: c.P.Position(s.pos), Discharged: !bad, Nontrivial: encoded(rhs), How: []string{"value: " + rhs.String()}, Ctl: fi.Ctl})
				if bad {
					c.R.Find(Finding{Rule: "E8.enc", Func: fi.Name, Construct: "query-encoded string stored into URL." + lhs.S, Pos: c.P.Position(s.pos),
						Msg: fmt.Sprintf("`%s` is already query-encoded; URL.%s is escaped again by URL.String(), so the receiver decodes a doubly encoded value (use the Raw* field)", rhs, lhs.S), Ctl: fi.Ctl})
				}
			case "call":
				if s.term.K == "mcall" && (s.term.S == "Set" || s.term.S == "Add") && len(s.term.A) == 3 && encoded(s.term.A[2]) {
					if ce, ok := s.node.(*ast.CallExpr); ok {
						if sel, ok := unparen(ce.Fun).(*ast.SelectorExpr); ok {
							if t := fi.Pkg.TypesInfo.TypeOf(sel.X); t != nil && strings.HasSuffix(typeStr(t), "url.Values") {
								c.R.Find(Finding{Rule: "E8.enc", Func: fi.Name, Construct: "query-encoded string passed to Values." + s.term.S, Pos: c.P.Position(s.pos),
									Msg: fmt.Sprintf("`%s` is already query-encoded and Values.Encode encodes it again", s.term.A[2]), Ctl: fi.Ctl})
							}
						}
					}
				}
			}
		}
	}
	c.R.Extra["url_field_stores"] = nStores
}

// RunFormatStrings (E8.fmt): a value that is data must not be used as a printf format.  Printf-like functions are the
// fmt family plus every in-module function that forwards a (format string, args ...any) pair to one of them (computed
// by fixpoint: oidc.(*Error).WithDescription is one).  A call whose format argument is not a constant and that passes
// no further arguments interprets its data as a format: every '%' in it is rewritten ("%!z(MISSING)").
func RunFormatStrings(c *Ctx, pkgs []string) {
	sentinelProg = c.P
	in := map[string]bool{}
	for _, p := range pkgs {
		in[p] = true
	}
	type pf struct{ fmtIdx int }
	printfLike := map[string]pf{
		"fmt.Sprintf": {0}, "fmt.Errorf": {0}, "fmt.Printf": {0}, "fmt.Fprintf": {1}, "log.Printf": {0}, "log.Fatalf": {0},
	}
	byObj := map[*types.Func]*FuncInfo{}
	for _, fi := range c.P.Funcs {
		if fi.Obj != nil {
			byObj[fi.Obj] = fi
		}
	}
	name := func(fn *types.Func) string {
		if fn.Pkg() != nil && inModule(fn.Pkg().Path()) {
			return FuncName(fn)
		}
		return calleeName(fn)
	}
	std := func(fn *types.Func) string {
		if fn.Pkg() == nil {
			return ""
		}
		return fn.Pkg().Path() + "." + fn.Name()
	}
	lookup := func(fn *types.Func) (pf, bool) {
		if p, ok := printfLike[std(fn)]; ok && fn.Type().(*types.Signature).Recv() == nil {
			return p, true
		}
		p, ok := printfLike[name(fn)]
		return p, ok
	}
	for changed := true; changed; {
		changed = false
		for _, fi := range c.P.Funcs {
			if fi.Body == nil || fi.Obj == nil || fi.Sig == nil || !fi.Sig.Variadic() {
				continue
			}
			if _, done := printfLike[fi.Name]; done {
				continue
			}
			np := fi.Sig.Params().Len()
			if np < 2 {
				continue
			}
			fmtParam, argsParam := fi.Sig.Params().At(np-2), fi.Sig.Params().At(np-1)
			if b, ok := fmtParam.Type().Underlying().(*types.Basic); !ok || b.Kind() != types.String {
				continue
			}
			info := fi.Pkg.TypesInfo
			ast.Inspect(fi.Body, func(n ast.Node) bool {
				call, ok := n.(*ast.CallExpr)
				if !ok || !call.Ellipsis.IsValid() {
					return true
				}
				fn, _ := typeutilCallee(info, call)
				if fn == nil {
					return true
				}
				p, ok := lookup(fn)
				if !ok || p.fmtIdx >= len(call.Args) {
					return true
				}
				fid, ok1 := unparen(call.Args[p.fmtIdx]).(*ast.Ident)
				aid, ok2 := unparen(call.Args[len(call.Args)-1]).(*ast.Ident)
				if ok1 && ok2 && info.Uses[fid] == fmtParam && info.Uses[aid] == argsParam {
					printfLike[fi.Name] = pf{np - 2}
					changed = true
				}
				return true
			})
		}
	}
	// constant in context: a concatenation of constants, sentinel texts and parameters of an unexported function that is
	// only ever called (never used as a value) with arguments that are themselves constant in their context
	type csite struct {
		fi   *FuncInfo
		call *ast.CallExpr
	}
	callSites := map[*types.Func][]csite{}
	usedAsValue := map[*types.Func]bool{}
	for _, fi := range c.P.Funcs {
		if fi.Body == nil || fi.Lit != nil {
			continue
		}
		info := fi.Pkg.TypesInfo
		callee := map[*ast.Ident]bool{}
		ast.Inspect(fi.Body, func(nd ast.Node) bool {
			switch x := nd.(type) {
			case *ast.CallExpr:
				if fn, _ := typeutilCallee(info, x); fn != nil {
					callSites[fn] = append(callSites[fn], csite{fi, x})
					switch f := unparen(x.Fun).(type) {
					case *ast.Ident:
						callee[f] = true
					case *ast.SelectorExpr:
						callee[f.Sel] = true
					}
				}
			case *ast.Ident:
				if fn, ok := info.Uses[x].(*types.Func); ok && !callee[x] {
					usedAsValue[fn] = true
				}
			}
			return true
		})
	}
	var constCtx func(fi *FuncInfo, e ast.Expr, depth int) bool
	constCtx = func(fi *FuncInfo, e ast.Expr, depth int) bool {
		info := fi.Pkg.TypesInfo
		e = unparen(e)
		if tv, ok := info.Types[e]; ok && tv.Value != nil {
			return true
		}
		if constantSentinelText(info, e) {
			return true
		}
		switch x := e.(type) {
		case *ast.BinaryExpr:
			return x.Op == token.ADD && constCtx(fi, x.X, depth) && constCtx(fi, x.Y, depth)
		case *ast.CallExpr:
			// a conversion between string types keeps the text: string(grantType), oidc.GrantType(s)
			if tv, ok := info.Types[x.Fun]; ok && tv.IsType() && len(x.Args) == 1 {
				if bt, ok := tv.Type.Underlying().(*types.Basic); ok && bt.Info()&types.IsString != 0 {
					if at := info.TypeOf(x.Args[0]); at != nil {
						if ab, ok := at.Underlying().(*types.Basic); ok && ab.Info()&types.IsString != 0 {
							return constCtx(fi, x.Args[0], depth)
						}
					}
				}
			}
			return false
		case *ast.Ident:
			v, ok := info.Uses[x].(*types.Var)
			if !ok || depth <= 0 || fi.Obj == nil || fi.Sig == nil || fi.Obj.Exported() || usedAsValue[fi.Obj] {
				return false
			}
			if r := fi.Sig.Recv(); r != nil {
				if _, isIface := r.Type().Underlying().(*types.Interface); isIface {
					return false
				}
			}
			idx := -1
			for i := 0; i < fi.Sig.Params().Len(); i++ {
				if fi.Sig.Params().At(i) == v {
					idx = i
				}
			}
			if idx < 0 || (fi.Sig.Variadic() && idx == fi.Sig.Params().Len()-1) || assignedIn(fi, v) {
				return false
			}
			sites := callSites[fi.Obj]
			if len(sites) == 0 {
				return false
			}
			for _, cs := range sites {
				if idx >= len(cs.call.Args) || cs.call.Ellipsis.IsValid() || !constCtx(cs.fi, cs.call.Args[idx], depth-1) {
					return false
				}
			}
			return true
		}
		return false
	}
	var wrappers []string
	for k := range printfLike {
		if !strings.HasPrefix(k, "fmt.") && !strings.HasPrefix(k, "log.") {
			wrappers = append(wrappers, k)
		}
	}
	sort.Strings(wrappers)
	c.R.Extra["printf_like_wrappers"] = wrappers
	n := 0
	for _, fi := range c.P.Funcs {
		if fi.Body == nil || (!in[shortPkg(fi.Pkg.PkgPath)] && !fi.Ctl) {
			continue
		}
		info := fi.Pkg.TypesInfo
		ast.Inspect(fi.Body, func(nd ast.Node) bool {
			if lit, ok := nd.(*ast.FuncLit); ok && lit != fi.Lit {
				return false
			}
			call, ok := nd.(*ast.CallExpr)
			if !ok {
				return true
			}
			fn, _ := typeutilCallee(info, call)
			if fn == nil {
				return true
			}
			p, ok := lookup(fn)
			if !ok || p.fmtIdx >= len(call.Args) || call.Ellipsis.IsValid() {
				return true
			}
			format := call.Args[p.fmtIdx]
			tv := info.Types[format]
			n++
			bad := tv.Value == nil && len(call.Args) == p.fmtIdx+1 && !constCtx(fi, format, 2)
			c.R.Obl(Obligation{Rule: "E8.fmt", Func: fi.Name, Construct: "format of " + fn.Name(), Pos: c.P.Position(call.Pos()), Discharged: !bad, Nontrivial: tv.Value == nil, Ctl: fi.Ctl})
			if bad {
				c.R.Find(Finding{Rule: "E8.fmt", Func: fi.Name, Construct: "data used as format in " + fn.Name() + "(" + types.ExprString(format) + ")", Pos: c.P.Position(call.Pos()),
					Msg: fmt.Sprintf("`%s` passes the non-constant string `%s` as a printf format without arguments: any '%%' in it is rewritten (\"%%!x(MISSING)\"), so the text that reaches the client differs from the text produced", types.ExprString(call.Fun), types.ExprString(format)), Ctl: fi.Ctl})
			}
			return true
		})
	}
	c.R.Extra["printf_like_call_sites"] = n
}

func typeutilCallee(info *types.Info, call *ast.CallExpr) (*types.Func, bool) {
	fun := unparen(call.Fun)
	var id *ast.Ident
	switch f := fun.(type) {
	case *ast.Ident:
		id = f
	case *ast.SelectorExpr:
		id = f.Sel
	}
	if id == nil {
		return nil, false
	}
	fn, ok := info.Uses[id].(*types.Func)
	return fn, ok
}


// constantSentinelText: X.Error() where X is a package-level error variable created by errors.New("<literal without %>").
func constantSentinelText(info *types.Info, e ast.Expr) bool {
	call, ok := unparen(e).(*ast.CallExpr)
	if !ok || len(call.Args) != 0 {
		return false
	}
	sel, ok := unparen(call.Fun).(*ast.SelectorExpr)
	if !ok || sel.Sel.Name != "Error" {
		return false
	}
	var obj types.Object
	switch x := unparen(sel.X).(type) {
	case *ast.Ident:
		obj = info.Uses[x]
	case *ast.SelectorExpr:
		obj = info.Uses[x.Sel]
	}
	v, ok := obj.(*types.Var)
	if !ok || v.Pkg() == nil || v.Parent() != v.Pkg().Scope() {
		return false
	}
	return sentinelLiteralOK(v)
}

var sentinelProg *Prog
var sentinelCache = map[types.Object]bool{}

// sentinelLiteralOK: the package-level variable is declared as errors.New("<string literal without %>").
func sentinelLiteralOK(v *types.Var) bool {
	if r, ok := sentinelCache[v]; ok {
		return r
	}
	res := false
	if sentinelProg != nil {
		if pk := sentinelProg.ByPath[v.Pkg().Path()]; pk != nil {
			for _, f := range pk.Syntax {
				ast.Inspect(f, func(n ast.Node) bool {
					vs, ok := n.(*ast.ValueSpec)
					if !ok {
						return true
					}
					for i, id := range vs.Names {
						if pk.TypesInfo.Defs[id] != v || i >= len(vs.Values) {
							continue
						}
						if call, ok := unparen(vs.Values[i]).(*ast.CallExpr); ok && len(call.Args) == 1 {
							if tv, ok := pk.TypesInfo.Types[call.Args[0]]; ok && tv.Value != nil && !strings.Contains(tv.Value.ExactString(), "%") {
								if sel, ok := unparen(call.Fun).(*ast.SelectorExpr); ok && sel.Sel.Name == "New" {
									res = true
								}
							}
						}
					}
					return true
				})
			}
		}
	}
	sentinelCache[v] = res
	return res
}

// assignedIn: the variable is assigned (or has its address taken) somewhere in the function body.
func assignedIn(fi *FuncInfo, v *types.Var) bool {
	info := fi.Pkg.TypesInfo
	found := false
	is := func(e ast.Expr) bool {
		id, ok := unparen(e).(*ast.Ident)
		return ok && (info.Uses[id] == v || info.Defs[id] == v)
	}
	ast.Inspect(fi.Body, func(n ast.Node) bool {
		switch x := n.(type) {
		case *ast.AssignStmt:
			for _, l := range x.Lhs {
				if is(l) {
					found = true
				}
			}
		case *ast.IncDecStmt:
			if is(x.X) {
				found = true
			}
		case *ast.UnaryExpr:
			if x.Op == token.AND && is(x.X) {
				found = true
			}
		case *ast.RangeStmt:
			if (x.Key != nil && is(x.Key)) || (x.Value != nil && is(x.Value)) {
				found = true
			}
		}
		return true
	})
	return found
}
