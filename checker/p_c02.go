package main

import "strings"

// C02 — only payloads signed by a trusted key with an allowed algorithm are believed (DESIGN §5 C02).

func init() {
	const fmk = "oidc.FindMatchingKey($keyID, oidc.KeyUseSignature, $alg, __)"
	obs := []Ob{
		{ID: "E1.sig.checksignature", Fn: "oidc.CheckSignature", P: []string{"ctx", "token", "payload", "claims", "algs", "set"}, Kind: "ret ok", Max: 1,
			Why: "exactly one signature, parsed with the allow-list, verified by the key set, and the verified payload is the parsed payload",
			Req: []string{
				"def($jws, jose.ParseSigned($token, oidc.toJoseSignatureAlgorithms($algs)), 0)",
				"ok(jose.ParseSigned($token, oidc.toJoseSignatureAlgorithms($algs)))",
				"neq(len($jws.Signatures), 0)",
				"le(len($jws.Signatures), 1)",
				"def($signed, $set.VerifySignature(_, $jws), 0)",
				"ok($set.VerifySignature(_, $jws))",
				"true(bytes.Equal($signed, $payload))",
			}},
		{ID: "E1.sig.reject-missing", Fn: "oidc.CheckSignature", Kind: "ret fail", Pat: "ret(oidc.ErrSignatureMissing)", Req: []string{"eq(len($jws.Signatures), 0)"}},
		{ID: "E1.sig.reject-multiple", Fn: "oidc.CheckSignature", Kind: "ret fail", Pat: "ret(oidc.ErrSignatureMultiple)", Req: []string{"lt(1, len($jws.Signatures))"}},
		{ID: "E7.sig.default-algs.append", AltOf: "E7.sig.default-algs", Fn: "oidc.toJoseSignatureAlgorithms", Kind: "call", Pat: "append($out, jose.RS256, jose.ES256, jose.PS256)", Req: []string{"eq(len($out), 0)"},
			Why: "the default allow-list is asymmetric only (no none, no HS*)"},
		{ID: "E7.sig.default-algs.literal", AltOf: "E7.sig.default-algs", Fn: "oidc.toJoseSignatureAlgorithms", P: []string{"algorithms"}, Kind: "ret any",
			Pat: "ret([]jose.SignatureAlgorithm{jose.RS256, jose.ES256, jose.PS256})", Nots: []string{"ret([]jose.SignatureAlgorithm{3: _})"}, Req: []string{"eq(len($algorithms), 0)"}},
		{ID: "E7.sig.default-algs.only", Fn: "oidc.toJoseSignatureAlgorithms", Kind: "call", Pat: "append(__)", Max: 1, Opt: true, Req: nil},

		{ID: "E1.parse.three-segments", Fn: "oidc.ParseToken", P: []string{"tokenString", "claims"}, Kind: "ret ok",
			Req: []string{`def($parts, strings.Split($tokenString, "."))`, "eq(len($parts), 3)", "def($r0, base64.RawURLEncoding.DecodeString($parts[1]), 0)",
				"ok(base64.RawURLEncoding.DecodeString($parts[1]))", "ok(json.Unmarshal($r0, $claims))"}},

		// every decoder of a token is a verifier (rp.VerifyIDToken is covered in C01 with the same clause)
		{ID: "E1.decoder-verifies.access-token", Fn: "op.VerifyAccessToken", P: []string{"ctx", "token", "v"}, Kind: "ret ok", Max: 1,
			Req: []string{"def($tok, oidc.DecryptToken($token), 0)", "ok(oidc.ParseToken($tok, &$r0))", "def($payload, oidc.ParseToken($tok, &$r0), 0)",
				"ok(oidc.CheckIssuer($r0, $v.Issuer))", "ok(oidc.CheckSignature(_, $tok, $payload, $r0, $v.SupportedSignAlgs, $v.KeySet))", "ok(oidc.CheckExpiration($r0, $v.Offset))"}},
		{ID: "E1.decoder-verifies.id-token-hint", Fn: "op.VerifyIDTokenHint", P: []string{"ctx", "token", "v", "claims", "err"}, Kind: "ret any", Pat: "ret($claims, _)", Min: 4,
			Why: "claims are handed back (also with an 'expired' error that callers may accept) only after issuer, signature and acr were verified",
			Req: []string{"def($tok, oidc.DecryptToken($token), 0)", "ok(oidc.ParseToken($tok, &$claims))", "def($payload, oidc.ParseToken($tok, &$claims), 0)",
				"ok(oidc.CheckIssuer($claims, $v.Issuer))", "ok(oidc.CheckSignature(_, $tok, $payload, $claims, $v.SupportedSignAlgs, $v.KeySet))",
				"ok(oidc.CheckAuthorizationContextClassReference($claims, $v.ACR))"}},
		{ID: "E1.decoder-verifies.jwt-assertion", Fn: "op.VerifyJWTAssertion", P: []string{"ctx", "assertion", "v"}, Kind: "ret ok", Max: 1,
			Req: []string{"ok(oidc.ParseToken($assertion, $r0))", "def($payload, oidc.ParseToken($assertion, $r0), 0)",
				"ok(oidc.CheckSignature(_, $assertion, $payload, $r0, nil, $ks))",
				"(def($ks, $v.keySet) && nonnil($v.keySet)) || def($ks, &jwtProfileKeySet{storage: $v.Storage, clientID: $r0.Issuer})"}},
		{ID: "E1.decoder-verifies.request-object", Fn: "op.ParseRequestObject", P: []string{"ctx", "authReq", "storage", "issuer"}, Kind: "call", Pat: "op.CopyRequestObjectToAuthRequest($authReq, $ro)",
			Req: []string{"ok(oidc.ParseToken($authReq.RequestParam, $ro))", "def($payload, oidc.ParseToken($authReq.RequestParam, $ro), 0)",
				"ok(oidc.CheckSignature(_, $authReq.RequestParam, $payload, $ro, nil, &jwtProfileKeySet{storage: $storage, clientID: $ro.Issuer}))"}},

		// the JWKS decoder keeps every published key it can parse (dropping one changes which keys are candidates: ambiguity
		// between several kid-less keys must stay visible to FindMatchingKey)
		{ID: "E1.keyset.remote.decoder-keeps-every-key", Fn: "client/rp.(*jsonWebKeySet).UnmarshalJSON", P: []string{"k", "data"}, Kind: "backedge", Pat: "backedge($raw.Keys)",
			Why: "an iteration ends either with a key that could not be parsed or with that key appended to the set",
			Req: []string{"fail($w.UnmarshalJSON(_)) || didFail(UnmarshalJSON) || called(append($k.Keys, *$w)) || called(append($k.Keys, $w))"}},
		{ID: "E1.keyset.remote.decoder-fails-only-on-malformed-document", Fn: "client/rp.(*jsonWebKeySet).UnmarshalJSON", P: []string{"k", "data"}, Kind: "ret fail",
			Why: "an entry that cannot be parsed (unknown kty) is skipped; only a document that is not a JWKS at all fails the download",
			Req: []string{"fail(json.Unmarshal($data, &$raw)) || fail(json.Unmarshal($data, $raw))"}},
		// key sets: the candidates handed to key selection are the last successfully downloaded set (cached path) resp. the
		// set the refresh returned (remote path) - never another container (a withdrawn key must stop being trusted)
		{ID: "E8.keyset.remote.cached-candidates", Fn: "client/rp.(*remoteKeySet).verifySignatureCached", P: []string{"r", "jws", "keyID", "alg"}, Kind: "call", Pat: "oidc.FindMatchingKey(_, _, _, $keys)", Max: 1,
			Why: "the cached path selects among exactly the keys of the last successful download", Req: []string{"def($keys, $r.keysFromCache()) || def($keys, $r.cachedKeys)"}},
		{ID: "E8.keyset.remote.cache-getter", Fn: "client/rp.(*remoteKeySet).keysFromCache", P: []string{"r"}, Kind: "ret any", Pat: "ret($r.cachedKeys)", Opt: true, Only: true,
			Why: "the cache getter hands out the last downloaded set and nothing else"},
		{ID: "E8.keyset.remote.remote-candidates", Fn: "client/rp.(*remoteKeySet).verifySignatureRemote", P: []string{"r", "ctx", "jws", "keyID", "alg"}, Kind: "call", Pat: "oidc.FindMatchingKey(_, _, _, $keys)", Max: 1,
			Why: "the remote path selects among exactly the keys the refresh returned", Req: []string{"def($keys, $r.keysFromRemote(_), 0)", "ok($r.keysFromRemote(_))"}},
		{ID: "E1.keyset.remote.cached", Fn: "client/rp.(*remoteKeySet).verifySignatureCached", P: []string{"r", "jws", "keyID", "alg"}, Kind: "ret ok", Not: "ret(nil, nil)",
			Req: []string{"def($r0, $jws.Verify(&$key), 0)", "nonnil($r0)", "def($key, " + fmk + ", 0)", "ok(" + fmk + ")"}},
		{ID: "E1.keyset.remote.remote", Fn: "client/rp.(*remoteKeySet).verifySignatureRemote", P: []string{"r", "ctx", "jws", "keyID", "alg"}, Kind: "ret ok", Max: 1,
			Req: []string{"def($r0, $jws.Verify(&$key), 0)", "ok($jws.Verify(&$key))", "def($key, " + fmk + ", 0)", "ok(" + fmk + ")"}},
		{ID: "E1.keyset.remote.entry-cached", Fn: "client/rp.(*remoteKeySet).VerifySignature", P: []string{"r", "ctx", "jws"}, Kind: "ret ok", Pat: "ret($p, nil)",
			Req: []string{"def($p, $r.verifySignatureCached($jws, $keyID, _), 0)", "nonnil($p)", "def($keyID, oidc.GetKeyIDAndAlg($jws), 0)"}},
		{ID: "E1.keyset.remote.entry-remote", Fn: "client/rp.(*remoteKeySet).VerifySignature", P: []string{"r", "ctx", "jws"}, Kind: "ret ok", Pat: "ret(res(0, $r.verifySignatureRemote(_, $jws, $keyID, _)), _)",
			Req: []string{"def($keyID, oidc.GetKeyIDAndAlg($jws), 0)"}},
		{ID: "E1.keyset.remote.entry-only", Fn: "client/rp.(*remoteKeySet).VerifySignature", Kind: "ret ok", Max: 2},
		{ID: "E1.keyset.remote.cached-error-only-exact", Fn: "client/rp.(*remoteKeySet).verifySignatureCached", P: []string{"r", "jws", "keyID", "alg"}, Kind: "ret fail",
			Req: []string{"true($r.exactMatch($key.KeyID, $keyID))"}},
		{ID: "E1.keyset.op", Fn: "op.(*OpenIDKeySet).VerifySignature", P: []string{"o", "ctx", "jws"}, Kind: "ret ok", Pat: "ret(res(0, $jws.Verify(&$key)), _)", Max: 1,
			Req: []string{"def($key, " + fmk + ", 0)", "ok(" + fmk + ")", "def($keyID, oidc.GetKeyIDAndAlg($jws), 0)", "def($alg, oidc.GetKeyIDAndAlg($jws), 1)"}},
		{ID: "E1.keyset.op.only", Fn: "op.(*OpenIDKeySet).VerifySignature", Kind: "ret ok", Max: 1},
		{ID: "E1.keyset.jwt-profile", Fn: "op.(*jwtProfileKeySet).VerifySignature", P: []string{"k", "ctx", "jws"}, Kind: "ret ok", Pat: "ret(res(0, $jws.Verify($key)), _)", Max: 1,
			Req: []string{"def($key, $k.storage.GetKeyByIDAndClientID(_, $keyID, $k.clientID), 0)", "ok($k.storage.GetKeyByIDAndClientID(_, $keyID, $k.clientID))", "def($keyID, oidc.GetKeyIDAndAlg($jws), 0)"}},
		{ID: "E1.keyset.jwt-profile.only", Fn: "op.(*jwtProfileKeySet).VerifySignature", Kind: "ret ok", Max: 1},

		// key selection
		{ID: "E1.findkey.exact", Fn: "oidc.FindMatchingKey", P: []string{"keyID", "use", "expectedAlg", "keys"}, Kind: "ret ok", Pat: "ret($k, nil)", Not: "ret(_[0], nil)",
			Req: []string{`eq($k.Use, $use) || eq($k.Use, "")`, "true(oidc.algToKeyType($k.Key, $expectedAlg))", "eq($k.KeyID, $keyID)", `neq($keyID, "")`, "inloop($k, $keys)"}},
		{ID: "E1.findkey.candidate", Fn: "oidc.FindMatchingKey", P: []string{"keyID", "use", "expectedAlg", "keys"}, Kind: "store", Pat: "store($vk, append($vk, $k))",
			Req: []string{`eq($k.Use, $use) || eq($k.Use, "")`, "true(oidc.algToKeyType($k.Key, $expectedAlg))", `eq($k.KeyID, "") || eq($keyID, "")`, "inloop($k, $keys)"}},
		{ID: "E1.findkey.single", Fn: "oidc.FindMatchingKey", Kind: "ret ok", Pat: "ret($vk[0], nil)", Req: []string{"eq(len($vk), 1)"}},
		{ID: "E8.findkey.deprecated-wrapper-delegates", Fn: "oidc.FindKey", P: []string{"keyID", "use", "expectedAlg", "keys"}, Kind: "call", Pat: "oidc.FindMatchingKey($keyID, $use, $expectedAlg, $keys)", Min: 1, Max: 1},
		{ID: "E8.findkey.deprecated-wrapper-result", Fn: "oidc.FindKey", P: []string{"keyID", "use", "expectedAlg", "keys"}, Kind: "ret any", Max: 1,
			Req: []string{"def($r0, oidc.FindMatchingKey($keyID, $use, $expectedAlg, $keys), 0)"}},
		{ID: "E1.findkey.only", Fn: "oidc.FindMatchingKey", Kind: "ret ok", Max: 2},
		{ID: "E1.findkey.ambiguous", Fn: "oidc.FindMatchingKey", Kind: "ret fail", Pat: "ret(_, oidc.ErrKeyMultiple)", Req: []string{"lt(1, len($vk))"}},
		{ID: "E7.algkeytype.complete", Fn: "oidc.algToKeyType", P: []string{"key", "alg"}, Kind: "ret fail",
			Why: "a key whose Go type is the public-key type of the algorithm's family is a candidate (every RS*/PS*, ES* and EdDSA algorithm, whatever its size suffix): refusing it makes tokens signed by a served key unverifiable",
			Req: []string{`((true(strings.HasPrefix($alg, "RS")) || true(strings.HasPrefix($alg, "PS"))) && notis($key, *rsa.PublicKey)) || (true(strings.HasPrefix($alg, "ES")) && notis($key, *ecdsa.PublicKey)) || (eq($alg, jose.EdDSA) && notis($key, ed25519.PublicKey)) || (false(strings.HasPrefix($alg, "RS")) && false(strings.HasPrefix($alg, "PS")) && false(strings.HasPrefix($alg, "ES")) && neq($alg, jose.EdDSA))`}},
		{ID: "E7.algkeytype.rsa", Fn: "oidc.algToKeyType", P: []string{"key", "alg"}, Kind: "ret ok",
			Why: "a key fits an algorithm only if its Go type is the public-key type of that algorithm family",
			Req: []string{`((true(strings.HasPrefix($alg, "RS")) || true(strings.HasPrefix($alg, "PS"))) && is($key, *rsa.PublicKey)) || (true(strings.HasPrefix($alg, "ES")) && is($key, *ecdsa.PublicKey)) || (eq($alg, jose.EdDSA) && is($key, ed25519.PublicKey))`}},
	}
	for _, o := range obs {
		if strings.HasPrefix(o.ID, "E1.keyset.op") {
			sharedObs["C06"] = append(sharedObs["C06"], o) // "passes the library's own verifiers": the OP's key set selects keys like every verifier (FindMatchingKey)
		}
		if strings.HasPrefix(o.ID, "E1.keyset.remote.decoder") || o.ID == "E1.keyset.remote.cached-error-only-exact" || o.ID == "E7.algkeytype.complete" { // the latter: any other cache miss (no key, ambiguous keys) falls through to the refresh
			sharedObs["C13"] = append(sharedObs["C13"], o) // "a token signed by a served key verifies", "unknown kty is skipped"
		}
		if strings.HasPrefix(o.ID, "E1.parse.") {
			sharedObs["C01"] = append(sharedObs["C01"], o)
		}
	}
	register(&PropSpec{
		ID: "C02",
		Explanation: "Decides, for all paths: CheckSignature accepts only after ParseSigned with the allow-list (default list RS256/ES256/PS256 only), exactly one signature, KeySet verification of that very JWS and byte equality of the verified payload with the parsed payload; every in-module caller of ParseToken (table-checked) returns its claims only after CheckSignature on the same token/payload/claims; each of the three KeySet implementations (table-checked against types.Implements) returns a payload only from jws.Verify with a key selected by FindMatchingKey(kid, sig, alg) resp. the per-client storage lookup; FindMatchingKey's use/alg/kid rules and the ambiguity error; algToKeyType's table. Does not decide go-jose's parsing and signature arithmetic or what a Storage returns. Round 3: the remote key set selects candidates from exactly the last successful download (cached path) resp. the refresh result (remote path); the JWKS decoder keeps every key it can parse; HttpRequest reports success only for a decoded 200 body.",
		RuleText:    "obligation = (rule, function, sink site) plus who-may-call and implementer table rows; non-trivial when a guard fact or table row was needed",
		Assumptions: []string{"go-jose ParseSigned/Verify are correct", "Storage returns the keys of the named client"},
		Trusted:     []string{"go/types, go/cfg (x/tools v0.50.0)", "go-jose/v4", "stdlib bytes/strings/encoding"},
		Level:       "Sound static check of the structural necessary conditions: one signature, allow-listed algorithm, key selected by the stated rules, verified payload identical to the parsed payload, on every path of every token decoder and key set (closed-world tables for decoders and key sets). Cryptographic validity itself is go-jose's.",
		Note:        "Trusted: go/types+go/cfg, go-jose ParseSigned/Verify, stdlib. A new ParseToken caller or KeySet implementation fails the table rule until an obligation is written for it.",
		Technique:   "static analysis: must-facts dataflow over go/cfg + who-may-call, who-may-write and interface-implementer tables from go/types",
		Rules:       []string{"E1"},
		Run: func(c *Ctx) {
			RunE1(c, "C02", obs)
			RunCallers(c, "E1.decoder-table", "oidc.ParseToken", []string{"client/rp.VerifyIDToken", "op.VerifyAccessToken", "op.VerifyIDTokenHint", "op.VerifyJWTAssertion", "op.ParseRequestObject"},
				"every function that decodes a JWT must verify its signature; a new decoder needs a decoder-verifies obligation")
			RunCallers(c, "E1.algs-table", "oidc.toJoseSignatureAlgorithms", []string{"oidc.CheckSignature"}, "the only constructor of a verification allow-list")
			// each verifier's key set is configured by its own option only (a copy/paste slip between the two sibling options
			// makes one verifier trust the other's keys)
			RunFieldWriters(c, "E6.keyset.hint-writers", "op", "Provider", "idTokenHinKeySet", []string{"op.WithIDTokenHintKeySet", "op.NewProvider"}, "the id_token_hint key set is set by the constructor (default, see E8.hint.keyset-default) and WithIDTokenHintKeySet only")
			RunFieldWriters(c, "E6.keyset.access-token-writers", "op", "Provider", "accessTokenKeySet", []string{"op.WithAccessTokenKeySet", "op.NewProvider"}, "the access-token key set is set by the constructor (default, see E8.access-token.keyset-default) and WithAccessTokenKeySet only")
			RunImplementers(c, "E7.keyset-table", "oidc", "KeySet", []string{"client/rp.remoteKeySet", "op.OpenIDKeySet", "op.jwtProfileKeySet"}, "each KeySet implementation needs a keyset obligation")
		},
	})
}
