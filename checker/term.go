package main

// Terms, fact terms and patterns shared by E1 (must-facts), E8 (bindings) and parts of E5/E7.
//
// A Term is a typed access path / expression built from the type-checked AST: identifiers are
// resolved to types.Object (never compared by spelling), callees through typeutil.Callee.
// A pattern is a Term that may contain pattern variables ($x), wildcards (_) and a rest wildcard (__);
// patterns are written as Go expressions in the spec tables and parsed with go/parser.

import (
	"fmt"
	"go/ast"
	"go/constant"
	"go/parser"
	"go/token"
	"go/types"
	"sort"
	"strings"

	"golang.org/x/tools/go/types/typeutil"
)

type Term struct {
	K   string // var const nil sel call mcall dyn op index slice assert conv lit kv func type fact | pv wild rest
	S   string
	Obj types.Object
	A   []*Term
	key string
	str string
}

func mk(k, s string, a ...*Term) *Term { return &Term{K: k, S: s, A: a} }

// Key: structural identity (variables by object identity).
func (t *Term) Key() string {
	if t == nil {
		return "<nil>"
	}
	if t.key != "" {
		return t.key
	}
	var sb strings.Builder
	sb.WriteString(t.K)
	sb.WriteByte(':')
	sb.WriteString(t.S)
	if t.K == "var" && t.Obj != nil {
		fmt.Fprintf(&sb, "@%d", t.Obj.Pos())
	}
	if len(t.A) > 0 {
		sb.WriteByte('(')
		for i, a := range t.A {
			if i > 0 {
				sb.WriteByte(',')
			}
			sb.WriteString(a.Key())
		}
		sb.WriteByte(')')
	}
	t.key = sb.String()
	return t.key
}

// String: human-readable rendering (Go-like).
func (t *Term) String() string {
	if t == nil {
		return "<nil>"
	}
	if t.str != "" {
		return t.str
	}
	args := func(a []*Term) string {
		var p []string
		for _, x := range a {
			p = append(p, x.String())
		}
		return strings.Join(p, ", ")
	}
	var s string
	switch t.K {
	case "var", "const", "type":
		s = t.S
	case "nil":
		s = "nil"
	case "pv":
		s = "$" + t.S
	case "wild":
		s = "_"
	case "rest":
		s = "__"
	case "sel":
		s = t.A[0].String() + "." + t.S
	case "call":
		s = t.S + "(" + args(t.A) + ")"
	case "mcall":
		s = t.A[0].String() + "." + t.S + "(" + args(t.A[1:]) + ")"
	case "dyn":
		s = t.A[0].String() + "(" + args(t.A[1:]) + ")"
	case "op":
		if len(t.A) == 1 {
			s = t.S + t.A[0].String()
		} else {
			s = "(" + t.A[0].String() + " " + t.S + " " + t.A[1].String() + ")"
		}
	case "index":
		s = t.A[0].String() + "[" + t.A[1].String() + "]"
	case "slice":
		s = t.A[0].String() + "[" + args(t.A[1:]) + ":]"
	case "assert":
		s = t.A[0].String() + ".(" + t.S + ")"
	case "conv":
		s = t.S + "(" + args(t.A) + ")"
	case "lit":
		s = t.S + "{" + args(t.A) + "}"
	case "kv":
		s = t.S + ": " + args(t.A)
	case "func":
		s = "func@" + t.S
	case "fact":
		s = t.S + "(" + args(t.A) + ")"
	default:
		s = t.K + ":" + t.S + "(" + args(t.A) + ")"
	}
	t.str = s
	return s
}

// elemTerm stands for "the element" inside all(xs, F) / some(xs, F).
var elemTerm = mk("elem", "")

func fact(pred string, a ...*Term) *Term { return &Term{K: "fact", S: pred, A: a} }

// walk visits every subterm.
func (t *Term) walk(f func(*Term) bool) {
	if t == nil || !f(t) {
		return
	}
	for _, a := range t.A {
		a.walk(f)
	}
}

// accessPath: root variable + selector chain for var / sel / deref / index terms.
func accessPath(t *Term) (types.Object, []string, bool) {
	var path []string
	for {
		switch t.K {
		case "var":
			for i, j := 0, len(path)-1; i < j; i, j = i+1, j-1 {
				path[i], path[j] = path[j], path[i]
			}
			return t.Obj, path, true
		case "sel":
			path = append(path, t.S)
			t = t.A[0]
		case "op":
			if (t.S == "*" || t.S == "&") && len(t.A) == 1 {
				t = t.A[0]
				continue
			}
			return nil, nil, false
		case "index", "slice":
			path = append(path, "[]")
			t = t.A[0]
		case "conv", "assert":
			t = t.A[0]
		default:
			return nil, nil, false
		}
	}
}

func prefixCompatible(a, b []string) bool {
	n := len(a)
	if len(b) < n {
		n = len(b)
	}
	for i := 0; i < n; i++ {
		if a[i] != b[i] {
			return false
		}
	}
	return true
}

// methodReads: for concrete in-module methods whose body only reads fields of the receiver directly,
// the set of those fields (absent = unknown: the call may read anything reachable from the receiver).
var methodReads = map[*types.Func][]string{}

// mentions: does fact f depend on the memory named by (root, path)?
func mentions(f *Term, root types.Object, path []string) bool {
	hit := false
	var rec func(t *Term) // top-down so the longest access path is seen first
	rec = func(t *Term) {
		if hit || t == nil {
			return
		}
		switch t.K {
		case "mcall":
			if fn, ok := t.Obj.(*types.Func); ok && len(t.A) >= 1 {
				if fields, known := methodReads[fn]; known {
					if r, p, isPath := accessPath(t.A[0]); isPath && r == root {
						for _, fl := range fields {
							if prefixCompatible(append(append([]string{}, p...), fl), path) {
								hit = true
							}
						}
						if len(path) <= len(p) && prefixCompatible(p, path) {
							hit = true // the receiver itself (or an enclosing object) is replaced
						}
						for _, a := range t.A[1:] {
							rec(a)
						}
						return
					}
				}
			}
		case "var", "sel":
			if r, p, ok := accessPath(t); ok {
				if r == root && prefixCompatible(p, path) {
					hit = true
				}
				return
			}
		case "func":
			return
		}
		for _, a := range t.A {
			rec(a)
		}
	}
	rec(f)
	return hit
}

// ---------------------------------------------------------------------------------------------
// building terms from the typed AST

type termBuilder struct {
	info  *types.Info
	inl   map[types.Object]ast.Expr // single-assignment locals with a pure definition
	sub   map[types.Object]*Term    // parameters of an inlined helper -> the caller's argument terms
	inlRes map[types.Object]localDef // canonical rendering only: v, err := f() -> v is res(0, f())
	depth int
	fset  *token.FileSet
	tsub  map[*types.TypeParam]types.Type // type arguments of the generic helper being interpreted
}

// typeOfExpr: the type an expression denotes, with the type parameters of an interpreted generic helper replaced by the
// type arguments of the call at hand.
func (b *termBuilder) typeOfExpr(e ast.Expr) types.Type {
	t := b.info.TypeOf(e)
	if tp, ok := t.(*types.TypeParam); ok && b.tsub != nil {
		if a, has := b.tsub[tp]; has {
			return a
		}
	}
	return t
}

func pkgShort(p *types.Package) string {
	if p == nil {
		return ""
	}
	path := p.Path()
	if path == pkgPrefix+"http" {
		return "httphelper"
	}
	if path == "math/rand" || path == "math/rand/v2" {
		return "mathrand"
	}
	if i := strings.LastIndex(path, "/"); i >= 0 {
		// versioned import paths: github.com/go-jose/go-jose/v4 -> jose
		last := path[i+1:]
		if len(last) >= 2 && last[0] == 'v' && last[1] >= '0' && last[1] <= '9' {
			return p.Name()
		}
		return last
	}
	return path
}

func typeQual(p *types.Package) string { return pkgShort(p) }

func typeStr(t types.Type) string {
	if t == nil {
		return "?"
	}
	return types.TypeString(t, typeQual)
}

func objQual(o types.Object) string {
	if o.Pkg() == nil {
		return o.Name()
	}
	return pkgShort(o.Pkg()) + "." + o.Name()
}

func funcQual(fn *types.Func) string {
	fn = fn.Origin()
	if old, ok := renamedBack[fn]; ok {
		return old
	}
	sig, _ := fn.Type().(*types.Signature)
	if sig != nil && sig.Recv() != nil {
		return fn.Name()
	}
	return objQual(fn)
}

var timeIdentityMethods = map[string]bool{"Round": true, "UTC": true, "Truncate": true, "Local": true}

func (b *termBuilder) term(e ast.Expr) *Term {
	e = unparen(e)
	if tv, ok := b.info.Types[e]; ok && tv.Value != nil {
		// constant expression: named constants keep their name, literals their value
		switch x := e.(type) {
		case *ast.Ident:
			if c, ok := b.info.Uses[x].(*types.Const); ok {
				t := mk("const", objQual(c))
				t.Obj = c
				return t
			}
		case *ast.SelectorExpr:
			if c, ok := b.info.Uses[x.Sel].(*types.Const); ok {
				t := mk("const", objQual(c))
				t.Obj = c
				return t
			}
		case *ast.CallExpr:
			// conversion of a named constant, e.g. string(oidc.GrantTypeCode)
			if len(x.Args) == 1 {
				if ftv, ok := b.info.Types[x.Fun]; ok && ftv.IsType() {
					return b.term(x.Args[0])
				}
			}
		}
		if tv.Value.Kind() == constant.String {
			return mk("const", tv.Value.ExactString())
		}
		return mk("const", tv.Value.String())
	}
	switch x := e.(type) {
	case *ast.Ident:
		switch o := b.info.Uses[x].(type) {
		case *types.Nil:
			return mk("nil", "")
		case *types.Var:
			if o.Pkg() != nil && o.Parent() == o.Pkg().Scope() {
				t := mk("const", objQual(o)) // package-level variable: named by identity
				t.Obj = o
				return t
			}
			if t, ok := b.sub[o]; ok {
				return t
			}
			if d, ok := b.inlRes[o]; ok && b.depth < 6 {
				b.depth++
				t := mk("res", fmt.Sprint(d.idx), b.term(d.e))
				b.depth--
				return t
			}
			if def, ok := b.inl[o]; ok && b.depth < 6 {
				b.depth++
				t := b.term(def)
				b.depth--
				return t
			}
			return &Term{K: "var", S: o.Name(), Obj: o}
		case *types.Func:
			return mk("const", objQual(o))
		case *types.TypeName:
			return mk("type", typeStr(o.Type()))
		case *types.Const:
			return mk("const", objQual(o))
		case *types.Builtin:
			return mk("const", o.Name())
		}
		if o, ok := b.info.Defs[x].(*types.Var); ok && o != nil {
			return &Term{K: "var", S: o.Name(), Obj: o}
		}
		return mk("const", x.Name)
	case *ast.BasicLit:
		return mk("const", x.Value)
	case *ast.SelectorExpr:
		if sel, ok := b.info.Selections[x]; ok {
			switch sel.Kind() {
			case types.FieldVal:
				return mk("sel", x.Sel.Name, b.term(x.X))
			default: // method value
				return mk("sel", x.Sel.Name, b.term(x.X))
			}
		}
		// qualified identifier
		switch o := b.info.Uses[x.Sel].(type) {
		case *types.Var:
			t := mk("const", objQual(o))
			t.Obj = o
			return t
		case *types.Func, *types.Const:
			return mk("const", objQual(o))
		case *types.TypeName:
			return mk("type", typeStr(o.Type()))
		}
		return mk("const", types.ExprString(x))
	case *ast.StarExpr:
		return mk("op", "*", b.term(x.X))
	case *ast.UnaryExpr:
		return mk("op", x.Op.String(), b.term(x.X))
	case *ast.BinaryExpr:
		return mk("op", x.Op.String(), b.term(x.X), b.term(x.Y))
	case *ast.IndexExpr:
		if tv, ok := b.info.Types[x.X]; ok && tv.IsValue() {
			if _, isSig := tv.Type.Underlying().(*types.Signature); !isSig {
				return mk("index", "", b.term(x.X), b.term(x.Index))
			}
		}
		return b.term(x.X) // generic instantiation f[T]
	case *ast.IndexListExpr:
		return b.term(x.X)
	case *ast.SliceExpr:
		a := []*Term{b.term(x.X)}
		for _, y := range []ast.Expr{x.Low, x.High, x.Max} {
			if y != nil {
				a = append(a, b.term(y))
			} else {
				a = append(a, mk("const", ""))
			}
		}
		return mk("slice", "", a...)
	case *ast.TypeAssertExpr:
		if x.Type == nil {
			return mk("assert", "type", b.term(x.X))
		}
		return mk("assert", typeStr(b.typeOfExpr(x.Type)), b.term(x.X))
	case *ast.CompositeLit:
		t := mk("lit", typeStr(b.info.TypeOf(x)))
		for i, el := range x.Elts {
			if kv, ok := el.(*ast.KeyValueExpr); ok {
				name := types.ExprString(kv.Key)
				// a constant key (map literal keyed by a named constant) is spelled by its value, like the literal it stands for
				if tv, has := b.info.Types[kv.Key]; has && tv.Value != nil {
					if _, isID := kv.Key.(*ast.BasicLit); !isID {
						name = tv.Value.ExactString()
					}
				}
				t.A = append(t.A, mk("kv", name, b.term(kv.Value)))
			} else {
				t.A = append(t.A, mk("kv", fmt.Sprint(i), b.term(el)))
			}
		}
		return t
	case *ast.FuncLit:
		pos := ""
		if b.fset != nil {
			pos = fmt.Sprint(b.fset.Position(x.Pos()).Line)
		}
		return mk("func", pos)
	case *ast.CallExpr:
		return b.callTerm(x)
	case *ast.KeyValueExpr:
		return mk("kv", types.ExprString(x.Key), b.term(x.Value))
	case *ast.ArrayType, *ast.MapType, *ast.StructType, *ast.InterfaceType, *ast.FuncType, *ast.ChanType:
		return mk("type", typeStr(b.info.TypeOf(x)))
	}
	return mk("const", types.ExprString(e))
}

func (b *termBuilder) callTerm(c *ast.CallExpr) *Term {
	if tv, ok := b.info.Types[c.Fun]; ok && tv.IsType() {
		t := mk("conv", typeStr(tv.Type))
		for _, a := range c.Args {
			t.A = append(t.A, b.term(a))
		}
		return t
	}
	var args []*Term
	for i, a := range c.Args {
		t := b.term(a)
		if c.Ellipsis.IsValid() && i == len(c.Args)-1 && t.K == "lit" && strings.HasPrefix(t.S, "[]") {
			// f(x, []T{a, b}...) passes a, b
			for _, kv := range t.A {
				if len(kv.A) == 1 {
					args = append(args, kv.A[0])
				}
			}
			continue
		}
		args = append(args, t)
	}
	fun := unparen(c.Fun)
	if ix, ok := fun.(*ast.IndexExpr); ok {
		if tv, ok := b.info.Types[ix.X]; ok {
			if _, isSig := tv.Type.Underlying().(*types.Signature); isSig {
				fun = unparen(ix.X)
			}
		}
	}
	if ix, ok := fun.(*ast.IndexListExpr); ok {
		fun = unparen(ix.X)
	}
	if fn, _ := typeutil.Callee(b.info, c).(*types.Func); fn != nil {
		sig, _ := fn.Type().(*types.Signature)
		if sig != nil && sig.Recv() != nil {
			var recv *Term
			if sel, ok := fun.(*ast.SelectorExpr); ok {
				recv = b.term(sel.X)
			} else {
				recv = mk("wild", "")
			}
			// time.Time normalisations (clock-rounding is outside the properties)
			if named, ok := derefType(sig.Recv().Type()).(*types.Named); ok && named.Obj().Pkg() != nil && named.Obj().Pkg().Path() == "time" && named.Obj().Name() == "Time" {
				if timeIdentityMethods[fn.Name()] {
					return recv
				}
				if fn.Name() == "After" && len(args) == 1 {
					return mk("mcall", "Before", args[0], recv)
				}
			}
			mt := mk("mcall", fn.Name(), append([]*Term{recv}, args...)...)
			mt.Obj = fn.Origin()
			return mt
		}
		return mk("call", objQual(fn.Origin()), args...)
	}
	if id, ok := fun.(*ast.Ident); ok {
		if bi, ok := b.info.Uses[id].(*types.Builtin); ok {
			return mk("call", bi.Name(), args...)
		}
	}
	// dynamic call through a function value
	ft := b.term(fun)
	if ft.K == "const" { // package-level func variable, e.g. oidc.ErrInvalidGrant
		return mk("call", ft.S, args...)
	}
	return mk("dyn", "", append([]*Term{ft}, args...)...)
}

func derefType(t types.Type) types.Type {
	if p, ok := t.(*types.Pointer); ok {
		return p.Elem()
	}
	return t
}

// ---------------------------------------------------------------------------------------------
// patterns

var factPreds = map[string]bool{
	"ok": true, "fail": true, "eq": true, "neq": true, "lt": true, "le": true, "true": true, "false": true,
	"is": true, "notis": true, "nil": true, "nonnil": true, "def": true, "has": true, "lacks": true,
	"errIs": true, "notErrIs": true, "errAs": true, "notErrAs": true, "inloop": true, "same": true, "zero": true,
	"literal": true, "fresh": true, "any": true,
	"member": true, "notmember": true, "all": true, "some": true, "defx": true, "segs": true,
}

// Clause: disjunction of alternatives; alternative: conjunction of fact patterns.
type Clause struct {
	Src  string
	Alts [][]*Term
}

func parsePatternExpr(src string) (ast.Expr, error) {
	s := src
	var sb strings.Builder
	for i := 0; i < len(s); i++ {
		if s[i] == '$' {
			sb.WriteString("PV_")
			continue
		}
		sb.WriteByte(s[i])
	}
	return parser.ParseExpr(sb.String())
}

func mustPattern(src string) *Term {
	e, err := parsePatternExpr(src)
	if err != nil {
		panic(fmt.Sprintf("bad pattern %q: %v", src, err))
	}
	return patTerm(e)
}

// mustFactPattern: a (possibly abstract) fact pattern, as used in guarantee tables.
func mustFactPattern(src string) *Term {
	e, err := parsePatternExpr(src)
	if err != nil {
		panic(fmt.Sprintf("bad fact pattern %q: %v", src, err))
	}
	return patFact(e)
}

func mustClause(src string) Clause {
	e, err := parsePatternExpr(src)
	if err != nil {
		panic(fmt.Sprintf("bad clause %q: %v", src, err))
	}
	return Clause{Src: src, Alts: dnf(e)}
}

// dnf turns && / || over fact patterns into a disjunction of conjunctions.
func dnf(e ast.Expr) [][]*Term {
	e = unparen(e)
	if be, ok := e.(*ast.BinaryExpr); ok {
		switch be.Op {
		case token.LOR:
			return append(dnf(be.X), dnf(be.Y)...)
		case token.LAND:
			var out [][]*Term
			for _, l := range dnf(be.X) {
				for _, r := range dnf(be.Y) {
					c := append(append([]*Term{}, l...), r...)
					out = append(out, c)
				}
			}
			return out
		}
	}
	return [][]*Term{{patFact(e)}}
}

// patFact: a clause atom; any call with a bare lower-case head is a (possibly abstract) predicate.
func patFact(e ast.Expr) *Term {
	e = unparen(e)
	if c, ok := e.(*ast.CallExpr); ok {
		if id, ok := unparen(c.Fun).(*ast.Ident); ok && !strings.HasPrefix(id.Name, "PV_") && id.Name != "_" {
			var args []*Term
			for _, a := range c.Args {
				args = append(args, patTerm(a))
			}
			return &Term{K: "fact", S: id.Name, A: args}
		}
	}
	return patTerm(e)
}

func bareIdent(e ast.Expr) (string, bool) {
	id, ok := e.(*ast.Ident)
	if !ok {
		return "", false
	}
	if strings.HasPrefix(id.Name, "PV_") || id.Name == "_" || id.Name == "__" {
		return "", false
	}
	return id.Name, true
}

func patTerm(e ast.Expr) *Term {
	e = unparen(e)
	switch x := e.(type) {
	case *ast.Ident:
		switch {
		case strings.HasPrefix(x.Name, "PV_"):
			return mk("pv", strings.TrimPrefix(x.Name, "PV_"))
		case x.Name == "_":
			return mk("wild", "")
		case x.Name == "__":
			return mk("rest", "")
		case x.Name == "nil":
			return mk("nil", "")
		case x.Name == "ELEM":
			return elemTerm
		case x.Name == "KEY":
			return keyTerm
		}
		return mk("const", x.Name)
	case *ast.BasicLit:
		return mk("const", x.Value)
	case *ast.SelectorExpr:
		if q, ok := bareIdent(x.X); ok {
			return mk("const", q+"."+x.Sel.Name)
		}
		return mk("sel", x.Sel.Name, patTerm(x.X))
	case *ast.StarExpr:
		return mk("op", "*", patTerm(x.X))
	case *ast.UnaryExpr:
		return mk("op", x.Op.String(), patTerm(x.X))
	case *ast.BinaryExpr:
		return mk("op", x.Op.String(), patTerm(x.X), patTerm(x.Y))
	case *ast.IndexExpr:
		return mk("index", "", patTerm(x.X), patTerm(x.Index))
	case *ast.SliceExpr:
		a := []*Term{patTerm(x.X)}
		for _, y := range []ast.Expr{x.Low, x.High, x.Max} {
			if y != nil {
				a = append(a, patTerm(y))
			} else {
				a = append(a, mk("const", ""))
			}
		}
		return mk("slice", "", a...)
	case *ast.TypeAssertExpr:
		return mk("assert", types.ExprString(x.Type), patTerm(x.X))
	case *ast.CompositeLit:
		ts := ""
		if x.Type != nil {
			ts = types.ExprString(x.Type)
		}
		t := mk("lit", ts)
		for i, el := range x.Elts {
			if kv, ok := el.(*ast.KeyValueExpr); ok {
				t.A = append(t.A, mk("kv", types.ExprString(kv.Key), patTerm(kv.Value)))
			} else {
				t.A = append(t.A, mk("kv", fmt.Sprint(i), patTerm(el)))
			}
		}
		return t
	case *ast.CallExpr:
		var args []*Term
		for _, a := range x.Args {
			args = append(args, patTerm(a))
		}
		fun := unparen(x.Fun)
		switch f := fun.(type) {
		case *ast.Ident:
			if strings.HasPrefix(f.Name, "PV_") || f.Name == "_" {
				return mk("dyn", "", append([]*Term{patTerm(f)}, args...)...)
			}
			if factPreds[f.Name] {
				return &Term{K: "fact", S: f.Name, A: args}
			}
			switch f.Name {
			case "ret", "backedge":
				return mk(f.Name, "", args...)
			case "gostmt":
				return mk("go", "", args...)
			case "store":
				return &Term{K: "store", S: "", A: args}
			case "res": // res(i, call)
				return mk("res", args[0].S, args[1:]...)
			}
			if f.Name == "conv" { // conv(T, x)
				return mk("conv", args[0].S, args[1:]...)
			}
			return mk("call", f.Name, args...)
		case *ast.SelectorExpr:
			if q, ok := bareIdent(f.X); ok {
				return mk("call", q+"."+f.Sel.Name, args...)
			}
			return mk("mcall", f.Sel.Name, append([]*Term{patTerm(f.X)}, args...)...)
		}
		return mk("dyn", "", append([]*Term{patTerm(fun)}, args...)...)
	}
	return mk("const", types.ExprString(e))
}

// Bind: pattern variable bindings.
type Bind map[string]*Term

func (b Bind) clone() Bind {
	n := make(Bind, len(b)+2)
	for k, v := range b {
		n[k] = v
	}
	return n
}

func nameMatches(pat, have string) bool {
	if pat == have || pat == "" || pat == "_" {
		return true
	}
	if i := strings.Index(have, "["); i > 0 && !strings.HasPrefix(have, "[") && !strings.Contains(pat, "[") {
		have = have[:i]
		if pat == have {
			return true
		}
	}
	if strings.HasSuffix(have, "."+pat) {
		return true
	}
	// allow pattern "Storage" to match "op.Storage", "*op.Provider" via "Provider"
	if strings.HasPrefix(have, "*") && nameMatches(strings.TrimPrefix(pat, "*"), have[1:]) {
		return true
	}
	return false
}

// unify matches pattern p against term t extending b in place (callers clone before trying).
func unify(p, t *Term, b Bind) bool {
	if p == nil || t == nil {
		return p == t
	}
	switch p.K {
	case "wild":
		return true
	case "pv":
		if old, ok := b[p.S]; ok {
			if old.Key() == t.Key() {
				return true
			}
			// a pointer conversion between a type and the type it is defined from names the same value
			if (t.K == "conv" || old.K == "conv") && isPtrConv(t) && isPtrConv(old) {
				return stripConv(old).Key() == stripConv(t).Key()
			}
			// a conversion to a map / slice type with the same element layout (url.Values <-> map[string][]string) names the same value
			if (t.K == "conv" || old.K == "conv") && isContainerConv(t) && isContainerConv(old) {
				return stripConv(old).Key() == stripConv(t).Key()
			}
			return false
		}
		if t.K == "conv" && len(t.A) == 1 && isContainerConv(t) {
			t = stripConv(t)
		}
		b[p.S] = t
		return true
	}
	if t.K == "wild" {
		return true
	}
	// conversions and address-of are transparent unless the pattern asks for them
	if t.K == "conv" && p.K != "conv" && len(t.A) == 1 {
		return unify(p, t.A[0], b)
	}
	// a call through a func-typed field v.F(args) is written like a method call in patterns
	if p.K == "mcall" && t.K == "dyn" && len(t.A) >= 1 && t.A[0].K == "sel" && t.A[0].S == p.S && len(p.A) >= 1 {
		if !unify(p.A[0], t.A[0].A[0], b) {
			return false
		}
		pa, ta := p.A[1:], t.A[1:]
		if n := len(pa); n > 0 && pa[n-1].K == "rest" {
			if len(ta) < n-1 {
				return false
			}
			pa, ta = pa[:n-1], ta[:n-1]
		}
		if len(pa) != len(ta) {
			return false
		}
		for i := range pa {
			if !unify(pa[i], ta[i], b) {
				return false
			}
		}
		return true
	}
	if p.K == "const" && t.K == "type" {
		return nameMatches(p.S, t.S)
	}
	// a pointer type written *pkg.T in a pattern
	if p.K == "op" && p.S == "*" && len(p.A) == 1 && p.A[0].K == "const" && t.K == "type" && strings.HasPrefix(t.S, "*") {
		return nameMatches(p.A[0].S, t.S[1:])
	}
	if p.K != t.K {
		return false
	}
	switch p.K {
	case "const", "call", "type", "lit", "assert", "conv":
		if !nameMatches(p.S, t.S) {
			// a named constant matches a literal of its value
			if c, ok := t.Obj.(*types.Const); p.K == "const" && ok && c.Val() != nil && (c.Val().ExactString() == p.S || c.Val().String() == p.S) {
				break
			}
			// ... and an unexported alias of a named constant matches that constant's name
			if a, ok := constAlias[t.Obj]; p.K == "const" && ok && t.Obj != nil && nameMatches(p.S, a) {
				break
			}
			return false
		}
	case "store":
	default:
		if p.S != t.S {
			return false
		}
	}
	if p.K == "lit" { // subset match on fields
		for _, pk := range p.A {
			found := false
			for _, tk := range t.A {
				if tk.S == pk.S {
					nb := b.clone()
					if unify(pk.A[0], tk.A[0], nb) {
						for k, v := range nb {
							b[k] = v
						}
						found = true
					}
					break
				}
			}
			if !found {
				return false
			}
		}
		return true
	}
	if p.K == "fact" && (p.S == "eq" || p.S == "neq") && len(p.A) == 2 && len(t.A) == 2 {
		nb := b.clone()
		if unify(p.A[0], t.A[0], nb) && unify(p.A[1], t.A[1], nb) {
			for k, v := range nb {
				b[k] = v
			}
			return true
		}
		nb = b.clone()
		if unify(p.A[0], t.A[1], nb) && unify(p.A[1], t.A[0], nb) {
			for k, v := range nb {
				b[k] = v
			}
			return true
		}
		return false
	}
	// rest wildcard
	if n := len(p.A); n > 0 && p.A[n-1].K == "rest" {
		if len(t.A) < n-1 {
			return false
		}
		for i := 0; i < n-1; i++ {
			if !unify(p.A[i], t.A[i], b) {
				return false
			}
		}
		return true
	}
	if len(p.A) != len(t.A) {
		return false
	}
	for i := range p.A {
		if !unify(p.A[i], t.A[i], b) {
			return false
		}
	}
	return true
}

// subst instantiates a pattern with bindings (unbound variables stay patterns).
func subst(p *Term, b Bind) *Term {
	if p == nil {
		return nil
	}
	if p.K == "pv" {
		if v, ok := b[p.S]; ok {
			return v
		}
		return p
	}
	if len(p.A) == 0 {
		return p
	}
	n := &Term{K: p.K, S: p.S, Obj: p.Obj}
	for _, a := range p.A {
		n.A = append(n.A, subst(a, b))
	}
	return n
}

func hasPV(t *Term) bool {
	found := false
	t.walk(func(x *Term) bool {
		if x.K == "pv" {
			found = true
		}
		return !found
	})
	return found
}

func sortedKeys(m map[string]*Term) []string {
	ks := make([]string, 0, len(m))
	for k := range m {
		ks = append(ks, k)
	}
	sort.Strings(ks)
	return ks
}

func constInt(o *types.Const) (int64, bool) {
	return constant.Int64Val(constant.ToInt(o.Val()))
}

// isPtrConv: not a conversion, or a conversion written with a pointer type ((*T)(v)): the value keeps its identity.
// isContainerConv: every conversion layer of t targets a map or (non-byte, non-rune) slice type: the value is the same
// container under another static type.
func isContainerConv(t *Term) bool {
	for t.K == "conv" && len(t.A) == 1 {
		if !(strings.HasPrefix(t.S, "map[") || (strings.HasPrefix(t.S, "[]") && t.S != "[]byte" && t.S != "[]rune" && t.S != "[]uint8" && t.S != "[]int32")) {
			return false
		}
		t = t.A[0]
	}
	return true
}

func isPtrConv(t *Term) bool {
	for t.K == "conv" && len(t.A) == 1 {
		if !strings.HasPrefix(t.S, "*") && !strings.HasPrefix(t.S, "(*") {
			return false
		}
		t = t.A[0]
	}
	return true
}
