package main

// E1 — derived membership facts and quantified loop facts.
//
// member(x, xs) / notmember(x, xs) are derived from every spelling of a membership test the engine meets
// (slices.Contains, slices.Index compared with 0 / -1, equality with the variable of an enclosing range loop), so
// that the specification tables can ask for membership without caring how it was written.
// all(xs, F) holds after a range loop over xs was exhausted when F (with the element written ELEM) held at the
// end of every iteration; some(xs, F) holds inside an iteration in which F holds for the current element.
// Both mention only xs and what F mentions besides the element, so they survive the return of a helper function.

import (
	"fmt"
	"go/ast"
	"os"
	"go/types"

	"golang.org/x/tools/go/cfg"
)

// keyTerm stands for "the key / index" inside all(xs, F) over a map or slice.
var keyTerm = mk("key", "")

func isConstS(t *Term, s string) bool { return t.K == "const" && t.S == s }

func isIndexCall(t *Term) (xs, x *Term, ok bool) {
	if t.K == "call" && (t.S == "slices.Index") && len(t.A) == 2 {
		return t.A[0], t.A[1], true
	}
	return nil, nil, false
}

func hasElem(t *Term) bool {
	hit := false
	t.walk(func(x *Term) bool {
		if x.K == "elem" {
			hit = true
		}
		return !hit
	})
	return hit
}

// deriveFacts: consequences of freshly established facts fs in state st.
func deriveFacts(st *fstate, fs []*Term) []*Term {
	var out []*Term
	var loops []*Term
	for _, fc := range st.facts {
		if fc.S == "inloop" && len(fc.A) == 2 {
			loops = append(loops, fc)
		}
	}
	add := func(t *Term) { out = append(out, t) }
	for _, f := range fs {
		switch f.S {
		case "true", "false":
			// before, after, found := strings.Cut(s, sep); found && !strings.Contains(after, sep): exactly two segments
			if len(f.A) == 1 {
				cutOf := func(t *Term, idx string) (*Term, bool) {
					if t.K == "res" && t.S == idx && len(t.A) == 1 && t.A[0].K == "call" && t.A[0].S == "strings.Cut" && len(t.A[0].A) == 2 {
						return t.A[0], true
					}
					return nil, false
				}
				holds := func(g *Term) bool {
					if st.has(g) {
						return true
					}
					for _, x := range fs {
						if x.Key() == g.Key() {
							return true
						}
					}
					return false
				}
				if f.S == "true" {
					if cut, ok := cutOf(f.A[0], "2"); ok {
						if holds(fact("false", mk("call", "strings.Contains", mk("res", "1", cut), cut.A[1]))) {
							add(fact("segs", cut.A[0], cut.A[1], mk("const", "2")))
						}
					}
				} else if f.A[0].K == "call" && f.A[0].S == "strings.Contains" && len(f.A[0].A) == 2 {
					if cut, ok := cutOf(f.A[0].A[0], "1"); ok && cut.A[1].Key() == f.A[0].A[1].Key() {
						if holds(fact("true", mk("res", "2", cut))) {
							add(fact("segs", cut.A[0], cut.A[1], mk("const", "2")))
						}
					}
				}
			}
			if len(f.A) == 1 && f.A[0].K == "call" && f.A[0].S == "slices.Contains" && len(f.A[0].A) == 2 {
				if f.S == "true" {
					add(fact("member", f.A[0].A[1], f.A[0].A[0]))
				} else {
					add(fact("notmember", f.A[0].A[1], f.A[0].A[0]))
				}
			}
		case "lt":
			// 0 < n: n is not zero
			if isConstS(f.A[0], "0") {
				add(fact("neq", f.A[1], mk("const", "0")))
			}
			if xs, x, ok := isIndexCall(f.A[0]); ok && isConstS(f.A[1], "0") {
				add(fact("notmember", x, xs))
			}
			if xs, x, ok := isIndexCall(f.A[1]); ok && isConstS(f.A[0], "-1") {
				add(fact("member", x, xs))
			}
		case "le":
			// len(x) <= 0: x is empty
			if isConstS(f.A[1], "0") && f.A[0].K == "call" && f.A[0].S == "len" {
				add(fact("eq", f.A[0], mk("const", "0")))
			}
			if isConstS(f.A[0], "1") {
				add(fact("neq", f.A[1], mk("const", "0")))
				add(fact("lt", mk("const", "0"), f.A[1]))
			}
			if xs, x, ok := isIndexCall(f.A[0]); ok && isConstS(f.A[1], "-1") {
				add(fact("notmember", x, xs))
			}
			if xs, x, ok := isIndexCall(f.A[1]); ok && isConstS(f.A[0], "0") {
				add(fact("member", x, xs))
			}
		case "eq", "neq":
			// "s consists of exactly n sep-separated segments", however it was counted
			if f.S == "eq" {
				for i := 0; i < 2; i++ {
					if f.A[1-i].K == "const" && f.A[i].K == "call" && f.A[i].S == "len" && len(f.A[1-i].S) > 0 && f.A[1-i].S[0] >= '0' && f.A[1-i].S[0] <= '9' {
						add(fact("le", f.A[i], f.A[1-i]))
						add(fact("le", f.A[1-i], f.A[i]))
					}
				}
				for i := 0; i < 2; i++ {
					l, c := f.A[i], f.A[1-i]
					if c.K != "const" {
						continue
					}
					var n int
					if _, err := fmt.Sscan(c.S, &n); err != nil {
						continue
					}
					if l.K == "call" && l.S == "len" && len(l.A) == 1 && l.A[0].K == "call" && l.A[0].S == "strings.Split" && len(l.A[0].A) == 2 {
						add(fact("segs", l.A[0].A[0], l.A[0].A[1], mk("const", fmt.Sprint(n))))
					}
					if l.K == "call" && l.S == "strings.Count" && len(l.A) == 2 {
						add(fact("segs", l.A[0], l.A[1], mk("const", fmt.Sprint(n+1))))
					}
				}
			}
			// a length that differs from 0..n is greater than n
			if f.S == "neq" {
				for i := 0; i < 2; i++ {
					l, c := f.A[i], f.A[1-i]
					if l.K != "call" || l.S != "len" || c.K != "const" {
						continue
					}
					has := func(k int) bool {
						kc := mk("const", fmt.Sprint(k))
						if st.has(fact("neq", l, kc)) || st.has(fact("neq", kc, l)) {
							return true
						}
						for _, g := range fs {
							if g.S == "neq" && len(g.A) == 2 && ((g.A[0].Key() == l.Key() && g.A[1].Key() == kc.Key()) || (g.A[1].Key() == l.Key() && g.A[0].Key() == kc.Key())) {
								return true
							}
						}
						return false
					}
					for n := 0; n <= 3; n++ {
						all := true
						for k := 0; k <= n; k++ {
							if !has(k) {
								all = false
							}
						}
						if all {
							add(fact("lt", mk("const", fmt.Sprint(n)), l))
						}
					}
				}
			}
			for i := 0; i < 2; i++ {
				if xs, x, ok := isIndexCall(f.A[i]); ok && isConstS(f.A[1-i], "-1") {
					if f.S == "eq" {
						add(fact("notmember", x, xs))
					} else {
						add(fact("member", x, xs))
					}
				}
			}
			if f.S == "eq" {
				for _, l := range loops {
					for i := 0; i < 2; i++ {
						if f.A[i].Key() == l.A[0].Key() && !mentionsTerm(f.A[1-i], l.A[0]) {
							add(fact("member", f.A[1-i], l.A[1]))
						}
					}
				}
			}
		}
	}
	// some(xs, F): F holds for the current element of an enclosing loop over xs
	n := len(out)
	for _, l := range loops {
		v := l.A[0]
		if v.K != "var" && v.K != "index" {
			continue
		}
		for _, f := range append(append([]*Term{}, fs...), out[:n]...) {
			switch f.S {
			case "def", "defx", "orig", "inloop", "called", "some", "all":
				continue
			}
			if !mentionsTerm(f, v) {
				continue
			}
			if g := replaceTerm(f, v.Key(), elemTerm); g != nil {
				add(fact("some", l.A[1], g))
			}
		}
	}
	return out
}

func mentionsTerm(t, sub *Term) bool {
	k := sub.Key()
	hit := false
	t.walk(func(x *Term) bool {
		if x.Key() == k {
			hit = true
		}
		return !hit
	})
	return hit
}

// updateLoopFacts recomputes, from the fixpoint states in `in`, the all(xs, F) facts of every range loop; reports change.
func (f *e1func) updateLoopFacts(g *cfg.CFG, in []map[string]*fstate) bool {
	changed := false
	for _, head := range g.Blocks {
		if !head.Live || head.Kind != cfg.KindRangeLoop {
			continue
		}
		rs, ok := head.Stmt.(*ast.RangeStmt)
		if !ok {
			continue
		}
		var elemVar *Term
		if rs.Value != nil {
			elemVar = f.lhsTerm(rs.Value)
		}
		var keyVar *Term
		if rs.Key != nil {
			keyVar = f.lhsTerm(rs.Key)
		}
		xs := f.term(rs.X)
		if elemVar == nil && keyVar == nil {
			continue
		}
		// variables assigned or declared inside the loop body change per iteration: facts naming them say nothing afterwards
		perIter := map[types.Object]bool{}
		ast.Inspect(rs.Body, func(n ast.Node) bool {
			switch s := n.(type) {
			case *ast.AssignStmt:
				for _, l := range s.Lhs {
					if id, ok := unparen(l).(*ast.Ident); ok {
						if o := f.objOfIdent(id); o != nil {
							perIter[o] = true
						}
					}
				}
			case *ast.ValueSpec:
				for _, id := range s.Names {
					if o := f.info.Defs[id]; o != nil {
						perIter[o] = true
					}
				}
			case *ast.IncDecStmt:
				if id, ok := unparen(s.X).(*ast.Ident); ok {
					if o := f.objOfIdent(id); o != nil {
						perIter[o] = true
					}
				}
			case *ast.RangeStmt:
				for _, kv := range []ast.Expr{s.Key, s.Value} {
					if id, ok := kv.(*ast.Ident); ok {
						if o := f.objOfIdent(id); o != nil {
							perIter[o] = true
						}
					}
				}
			}
			return true
		})
		// back-edge states: out-states of the predecessors that come after the head
		var back []*fstate
		for _, b := range g.Blocks {
			if !b.Live || b.Index <= head.Index || len(in[b.Index]) == 0 {
				continue
			}
			for si, s := range b.Succs {
				if s != head {
					continue
				}
				save := f.curSites
				outs := f.flowBlock(b, f.sorted(in[b.Index]), nil)
				f.curSites = save
				back = append(back, outs[si]...)
			}
		}
		var common map[string]*Term
		for _, st := range back {
			cur := map[string]*Term{}
			// the loop facts are only meaningful while the loop variable still is the current element of xs
			valid := false
			for _, fc := range st.facts {
				if fc.S == "inloop" && len(fc.A) == 2 && fc.A[1].Key() == xs.Key() {
					valid = true
				}
			}
			if valid {
				for _, fc := range st.facts {
					switch fc.S {
					case "def", "defx", "orig", "inloop", "called", "some":
						continue
					}
					t := fc
					touched := false
					if elemVar != nil && mentionsTerm(t, elemVar) {
						t = replaceTerm(t, elemVar.Key(), elemTerm)
						touched = true
					}
					if keyVar != nil {
						ik := mk("index", "", xs, keyVar).Key()
						if r := replaceTerm(t, ik, elemTerm); r != nil {
							t = r
							touched = true
						}
						// the key itself (e.g. copied[k] = v while ranging over a map)
						if touched {
							if r := replaceTerm(t, keyVar.Key(), keyTerm); r != nil {
								t = r
							}
						}
					}
					if !touched {
						continue
					}
					bad := false
					t.walk(func(x *Term) bool {
						if x.K == "var" && (perIter[x.Obj] || (keyVar != nil && x.Obj == keyVar.Obj) || (elemVar != nil && x.Obj == elemVar.Obj)) {
							bad = true
						}
						return !bad
					})
					if bad {
						continue
					}
					cur[t.Key()] = t
				}
			}
			if common == nil {
				common = cur
			} else {
				for k := range common {
					if _, ok := cur[k]; !ok {
						delete(common, k)
					}
				}
			}
		}
		var qs []*Term
		for _, k := range sortedKeys(common) {
			body := common[k]
			qs = append(qs, fact("all", xs, body))
			// no element equals A: A is not a member
			if body.S == "neq" && len(body.A) == 2 {
				for i := 0; i < 2; i++ {
					if body.A[i].K == "elem" && !hasElem(body.A[1-i]) {
						qs = append(qs, fact("notmember", body.A[1-i], xs))
					}
				}
			}
			if len(qs) >= 24 {
				break
			}
		}
		if f.loopAll == nil {
			f.loopAll = map[*ast.RangeStmt][]*Term{}
		}
		old := f.loopAll[rs]
		same := len(old) == len(qs)
		if same {
			for i := range qs {
				if old[i].Key() != qs[i].Key() {
					same = false
				}
			}
		}
		if !same {
			f.loopAll[rs] = qs
			changed = true
		}
	}
	return changed
}


// indexLoop recognises the canonical index loop `for i := 0; i < len(xs); i++ { ... }` whose body assigns neither i nor xs;
// it returns the index variable and the ranged expression.
func (f *e1func) indexLoop(fs *ast.ForStmt) (*Term, *Term, bool) {
	if fs == nil || fs.Init == nil || fs.Cond == nil || fs.Post == nil {
		return nil, nil, false
	}
	as, ok := fs.Init.(*ast.AssignStmt)
	if !ok || len(as.Lhs) != 1 || len(as.Rhs) != 1 {
		return nil, nil, false
	}
	id, ok := as.Lhs[0].(*ast.Ident)
	if !ok {
		return nil, nil, false
	}
	if tv, ok := f.info.Types[as.Rhs[0]]; !ok || tv.Value == nil || tv.Value.String() != "0" {
		return nil, nil, false
	}
	iv := f.objOfIdent(id)
	if iv == nil {
		return nil, nil, false
	}
	be, ok := unparen(fs.Cond).(*ast.BinaryExpr)
	if !ok || be.Op.String() != "<" {
		return nil, nil, false
	}
	cid, ok := unparen(be.X).(*ast.Ident)
	if !ok || f.objOfIdent(cid) != iv {
		return nil, nil, false
	}
	lc, ok := unparen(be.Y).(*ast.CallExpr)
	if !ok || len(lc.Args) != 1 {
		return nil, nil, false
	}
	if lid, ok := unparen(lc.Fun).(*ast.Ident); !ok || lid.Name != "len" {
		return nil, nil, false
	}
	inc, ok := fs.Post.(*ast.IncDecStmt)
	if !ok || inc.Tok.String() != "++" {
		return nil, nil, false
	}
	if pid, ok := unparen(inc.X).(*ast.Ident); !ok || f.objOfIdent(pid) != iv {
		return nil, nil, false
	}
	// the body must not assign the index or the ranged variable
	var xsRoot types.Object
	if xid, ok := unparen(lc.Args[0]).(*ast.Ident); ok {
		xsRoot = f.objOfIdent(xid)
	}
	bad := false
	ast.Inspect(fs.Body, func(n ast.Node) bool {
		switch s := n.(type) {
		case *ast.AssignStmt:
			for _, l := range s.Lhs {
				if lid, ok := unparen(l).(*ast.Ident); ok {
					if o := f.objOfIdent(lid); o == iv || (xsRoot != nil && o == xsRoot) {
						bad = true
					}
				}
			}
		case *ast.IncDecStmt:
			if lid, ok := unparen(s.X).(*ast.Ident); ok && f.objOfIdent(lid) == iv {
				bad = true
			}
		}
		return !bad
	})
	if bad {
		return nil, nil, false
	}
	return &Term{K: "var", S: iv.Name(), Obj: iv}, f.term(lc.Args[0]), true
}

// updateIndexLoopFacts: the all(xs, F) facts of canonical index loops, from the states entering the post statement.
func (f *e1func) updateIndexLoopFacts(g *cfg.CFG, in []map[string]*fstate) bool {
	changed := false
	for _, head := range g.Blocks {
		if !head.Live || head.Kind != cfg.KindForLoop {
			continue
		}
		fs, ok := head.Stmt.(*ast.ForStmt)
		if !ok {
			continue
		}
		iv, xs, ok := f.indexLoop(fs)
		if !ok {
			continue
		}
		elem := mk("index", "", xs, iv)
		perIter := map[types.Object]bool{}
		ast.Inspect(fs.Body, func(n ast.Node) bool {
			switch s := n.(type) {
			case *ast.AssignStmt:
				for _, l := range s.Lhs {
					if id, ok := unparen(l).(*ast.Ident); ok {
						if o := f.objOfIdent(id); o != nil {
							perIter[o] = true
						}
					}
				}
			case *ast.ValueSpec:
				for _, id := range s.Names {
					if o := f.info.Defs[id]; o != nil {
						perIter[o] = true
					}
				}
			}
			return true
		})
		var back []*fstate
		for _, b := range g.Blocks {
			if b.Live && b.Kind == cfg.KindForPost && b.Stmt == ast.Stmt(fs) {
				for _, st := range in[b.Index] {
					back = append(back, st)
				}
			}
		}
		var common map[string]*Term
		for _, st := range back {
			cur := map[string]*Term{}
			for _, fc := range st.facts {
				switch fc.S {
				case "def", "defx", "orig", "inloop", "called", "some":
					continue
				}
				t := replaceTerm(fc, elem.Key(), elemTerm)
				if t == nil {
					continue
				}
				bad := false
				t.walk(func(x *Term) bool {
					if x.K == "var" && (perIter[x.Obj] || x.Obj == iv.Obj) {
						bad = true
					}
					return !bad
				})
				if !bad {
					cur[t.Key()] = t
				}
			}
			if common == nil {
				common = cur
			} else {
				for k := range common {
					if _, ok := cur[k]; !ok {
						delete(common, k)
					}
				}
			}
		}
		var qs []*Term
		for _, k := range sortedKeys(common) {
			body := common[k]
			qs = append(qs, fact("all", xs, body))
			if body.S == "neq" && len(body.A) == 2 {
				for i := 0; i < 2; i++ {
					if body.A[i].K == "elem" && !hasElem(body.A[1-i]) {
						qs = append(qs, fact("notmember", body.A[1-i], xs))
					}
				}
			}
			if len(qs) >= 24 {
				break
			}
		}
		if os.Getenv("E1DEBUG") != "" {
			fmt.Fprintf(os.Stderr, "index loop in %s over %s: %d back states, %d facts\n", f.fi.Name, xs, len(back), len(qs))
		}
		if f.forAll == nil {
			f.forAll = map[*ast.ForStmt][]*Term{}
		}
		old := f.forAll[fs]
		same := len(old) == len(qs)
		if same {
			for i := range qs {
				if old[i].Key() != qs[i].Key() {
					same = false
				}
			}
		}
		if !same {
			f.forAll[fs] = qs
			changed = true
		}
	}
	return changed
}


// higherOrderFacts: slices.ContainsFunc(xs, pred) with pred a function literal (or a local variable holding one):
// true  -> some(xs, F) for every fact F that pred(ELEM) == true establishes on all of its paths,
// false -> all(xs, F)  for every fact F that pred(ELEM) == false establishes.
func (f *e1func) higherOrderFacts(st *fstate, cond ast.Expr, val bool) []*Term {
	call, ok := unparen(cond).(*ast.CallExpr)
	if !ok || len(call.Args) != 2 {
		return nil
	}
	ct := f.tb.callTerm(call)
	if os.Getenv("E1DEBUG") != "" {
		fmt.Fprintf(os.Stderr, "higherOrder? %s K=%s S=%s\n", ct, ct.K, ct.S)
	}
	if ct.K != "call" || ct.S != "slices.ContainsFunc" {
		return nil
	}
	var lit *ast.FuncLit
	switch a := unparen(call.Args[1]).(type) {
	case *ast.FuncLit:
		lit = a
	case *ast.Ident:
		if o := f.info.Uses[a]; o != nil {
			ds := localDefsOf(f.fi)[o]
			if len(ds) == 1 && ds[0].idx == -1 {
				lit, _ = unparen(ds[0].e).(*ast.FuncLit)
			}
		}
	}
	if os.Getenv("E1DEBUG") != "" {
		fmt.Fprintf(os.Stderr, "higherOrder pre %s lit=%v depth=%d\n", ct, lit != nil, f.depth)
	}
	if lit == nil || f.depth >= e1InlineDepth {
		return nil
	}
	pfi := f.eng.c.P.FuncOfNode(lit)
	if os.Getenv("E1DEBUG") != "" {
		fmt.Fprintf(os.Stderr, "higherOrder enter %s lit=%v pfi=%v\n", ct, lit != nil, pfi != nil)
	}
	if pfi == nil || pfi.Sig == nil || pfi.Sig.Params().Len() != 1 || pfi.Sig.Results().Len() != 1 {
		return nil
	}
	g := &e1func{eng: f.eng, fi: pfi, info: pfi.Pkg.TypesInfo, caseTag: map[ast.Expr]ast.Expr{}, caseType: map[ast.Expr]ast.Expr{}, tsClause: map[*ast.CaseClause]ast.Expr{},
		closureW: map[types.Object][]types.Object{}, statusOf: map[string]int{}, errIdx: -1, parent: f, depth: f.depth + 1, callPos: call.Pos()}
	g.prepare()
	// the literal shares the enclosing function's variables: keep the caller's inlined locals and substitutions
	for o, e := range f.tb.inl {
		if _, dup := g.tb.inl[o]; !dup {
			g.tb.inl[o] = e
		}
	}
	g.tb.sub = map[types.Object]*Term{}
	for o, t := range f.tb.sub {
		g.tb.sub[o] = t
	}
	p := pfi.Sig.Params().At(0)
	if p.Name() == "" || p.Name() == "_" || g.assigned[p] != 0 || g.addrTaken[p] {
		return nil
	}
	g.tb.sub[p] = elemTerm
	g.entry = &fstate{facts: st.facts, key: st.key, from: st, via: "predicate of ContainsFunc"}
	g.run()
	var common map[string]*Term
	for _, s := range g.sites {
		if s.kind != "ret" {
			continue
		}
		for i, es := range s.states {
			if i >= len(s.sure) || !s.sure[i] || s.ok[i] != val {
				if i < len(s.sure) && !s.sure[i] {
					return nil // undecided outcome: nothing can be said
				}
				continue
			}
			cur := map[string]*Term{}
			// the predicate's own temporaries are replaced by their definitions
			es = g.projectLocals(es)
			for k, fc := range es.facts {
				if _, had := st.facts[k]; had {
					continue
				}
				if !hasElem(fc) || mentionsLocalOf(fc, g) {
					continue
				}
				switch fc.S {
				case "def", "defx", "orig", "inloop", "called", "some", "all":
					continue
				}
				cur[k] = fc
			}
			if common == nil {
				common = cur
			} else {
				for k := range common {
					if _, ok := cur[k]; !ok {
						delete(common, k)
					}
				}
			}
		}
	}
	q := "all"
	if val {
		q = "some"
	}
	if os.Getenv("E1DEBUG") != "" {
		fmt.Fprintf(os.Stderr, "higherOrder %s val=%v: %d ret sites, common=%v\n", ct, val, len(g.sites), sortedKeys(common))
		for _, s := range g.sites {
			if s.kind == "ret" {
				for i, es := range s.states {
					fmt.Fprintf(os.Stderr, "   ret %s ok=%v sure=%v: %v\n", s.term, s.ok[i], s.sure[i], es.sortedKeys())
				}
			}
		}
	}
	var out []*Term
	for _, k := range sortedKeys(common) {
		out = append(out, fact(q, ct.A[0], common[k]))
	}
	return out
}
