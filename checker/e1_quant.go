package main

// E1 — derived membership facts and quantified loop facts.
//
// member(x, xs) / notmember(x, xs) are derived from every spelling of a membership test the engine meets
// (slices.Contains, slices.Index compared with 0 / -1, equality with the variable of an enclosing range loop), so
// that the specification tables can ask for membership without caring how it was written.
// all(xs, F) holds after a range loop over xs was exhausted when F (with the element written ELEM) held at the
// end of every iteration; some(xs, F) holds inside an iteration in which F holds for the current element.
// Both mention only xs and what F mentions besides the element, so they survive the return of a helper function.

import (
	"fmt"
	"go/ast"
	"go/types"

	"golang.org/x/tools/go/cfg"
)

func isConstS(t *Term, s string) bool { return t.K == "const" && t.S == s }

func isIndexCall(t *Term) (xs, x *Term, ok bool) {
	if t.K == "call" && (t.S == "slices.Index") && len(t.A) == 2 {
		return t.A[0], t.A[1], true
	}
	return nil, nil, false
}

func hasElem(t *Term) bool {
	hit := false
	t.walk(func(x *Term) bool {
		if x.K == "elem" {
			hit = true
		}
		return !hit
	})
	return hit
}

// deriveFacts: consequences of freshly established facts fs in state st.
func deriveFacts(st *fstate, fs []*Term) []*Term {
	var out []*Term
	var loops []*Term
	for _, fc := range st.facts {
		if fc.S == "inloop" && len(fc.A) == 2 {
			loops = append(loops, fc)
		}
	}
	add := func(t *Term) { out = append(out, t) }
	for _, f := range fs {
		switch f.S {
		case "true", "false":
			if len(f.A) == 1 && f.A[0].K == "call" && f.A[0].S == "slices.Contains" && len(f.A[0].A) == 2 {
				if f.S == "true" {
					add(fact("member", f.A[0].A[1], f.A[0].A[0]))
				} else {
					add(fact("notmember", f.A[0].A[1], f.A[0].A[0]))
				}
			}
		case "lt":
			if xs, x, ok := isIndexCall(f.A[0]); ok && isConstS(f.A[1], "0") {
				add(fact("notmember", x, xs))
			}
			if xs, x, ok := isIndexCall(f.A[1]); ok && isConstS(f.A[0], "-1") {
				add(fact("member", x, xs))
			}
		case "le":
			if xs, x, ok := isIndexCall(f.A[0]); ok && isConstS(f.A[1], "-1") {
				add(fact("notmember", x, xs))
			}
			if xs, x, ok := isIndexCall(f.A[1]); ok && isConstS(f.A[0], "0") {
				add(fact("member", x, xs))
			}
		case "eq", "neq":
			// "s consists of exactly n sep-separated segments", however it was counted
			if f.S == "eq" {
				for i := 0; i < 2; i++ {
					l, c := f.A[i], f.A[1-i]
					if c.K != "const" {
						continue
					}
					var n int
					if _, err := fmt.Sscan(c.S, &n); err != nil {
						continue
					}
					if l.K == "call" && l.S == "len" && len(l.A) == 1 && l.A[0].K == "call" && l.A[0].S == "strings.Split" && len(l.A[0].A) == 2 {
						add(fact("segs", l.A[0].A[0], l.A[0].A[1], mk("const", fmt.Sprint(n))))
					}
					if l.K == "call" && l.S == "strings.Count" && len(l.A) == 2 {
						add(fact("segs", l.A[0], l.A[1], mk("const", fmt.Sprint(n+1))))
					}
				}
			}
			// a length that differs from 0..n is greater than n
			if f.S == "neq" {
				for i := 0; i < 2; i++ {
					l, c := f.A[i], f.A[1-i]
					if l.K != "call" || l.S != "len" || c.K != "const" {
						continue
					}
					has := func(k int) bool {
						kc := mk("const", fmt.Sprint(k))
						if st.has(fact("neq", l, kc)) || st.has(fact("neq", kc, l)) {
							return true
						}
						for _, g := range fs {
							if g.S == "neq" && len(g.A) == 2 && ((g.A[0].Key() == l.Key() && g.A[1].Key() == kc.Key()) || (g.A[1].Key() == l.Key() && g.A[0].Key() == kc.Key())) {
								return true
							}
						}
						return false
					}
					for n := 0; n <= 3; n++ {
						all := true
						for k := 0; k <= n; k++ {
							if !has(k) {
								all = false
							}
						}
						if all {
							add(fact("lt", mk("const", fmt.Sprint(n)), l))
						}
					}
				}
			}
			for i := 0; i < 2; i++ {
				if xs, x, ok := isIndexCall(f.A[i]); ok && isConstS(f.A[1-i], "-1") {
					if f.S == "eq" {
						add(fact("notmember", x, xs))
					} else {
						add(fact("member", x, xs))
					}
				}
			}
			if f.S == "eq" {
				for _, l := range loops {
					for i := 0; i < 2; i++ {
						if f.A[i].Key() == l.A[0].Key() && !mentionsTerm(f.A[1-i], l.A[0]) {
							add(fact("member", f.A[1-i], l.A[1]))
						}
					}
				}
			}
		}
	}
	// some(xs, F): F holds for the current element of an enclosing loop over xs
	n := len(out)
	for _, l := range loops {
		v := l.A[0]
		if v.K != "var" {
			continue
		}
		for _, f := range append(append([]*Term{}, fs...), out[:n]...) {
			switch f.S {
			case "def", "defx", "orig", "inloop", "called", "some", "all":
				continue
			}
			if !mentionsTerm(f, v) {
				continue
			}
			if g := replaceTerm(f, v.Key(), elemTerm); g != nil {
				add(fact("some", l.A[1], g))
			}
		}
	}
	return out
}

func mentionsTerm(t, sub *Term) bool {
	k := sub.Key()
	hit := false
	t.walk(func(x *Term) bool {
		if x.Key() == k {
			hit = true
		}
		return !hit
	})
	return hit
}

// updateLoopFacts recomputes, from the fixpoint states in `in`, the all(xs, F) facts of every range loop; reports change.
func (f *e1func) updateLoopFacts(g *cfg.CFG, in []map[string]*fstate) bool {
	changed := false
	for _, head := range g.Blocks {
		if !head.Live || head.Kind != cfg.KindRangeLoop {
			continue
		}
		rs, ok := head.Stmt.(*ast.RangeStmt)
		if !ok {
			continue
		}
		var elemVar *Term
		if rs.Value != nil {
			elemVar = f.lhsTerm(rs.Value)
		}
		var keyVar *Term
		if rs.Key != nil {
			keyVar = f.lhsTerm(rs.Key)
		}
		xs := f.term(rs.X)
		if elemVar == nil && keyVar == nil {
			continue
		}
		// variables assigned or declared inside the loop body change per iteration: facts naming them say nothing afterwards
		perIter := map[types.Object]bool{}
		ast.Inspect(rs.Body, func(n ast.Node) bool {
			switch s := n.(type) {
			case *ast.AssignStmt:
				for _, l := range s.Lhs {
					if id, ok := unparen(l).(*ast.Ident); ok {
						if o := f.objOfIdent(id); o != nil {
							perIter[o] = true
						}
					}
				}
			case *ast.ValueSpec:
				for _, id := range s.Names {
					if o := f.info.Defs[id]; o != nil {
						perIter[o] = true
					}
				}
			case *ast.IncDecStmt:
				if id, ok := unparen(s.X).(*ast.Ident); ok {
					if o := f.objOfIdent(id); o != nil {
						perIter[o] = true
					}
				}
			case *ast.RangeStmt:
				for _, kv := range []ast.Expr{s.Key, s.Value} {
					if id, ok := kv.(*ast.Ident); ok {
						if o := f.objOfIdent(id); o != nil {
							perIter[o] = true
						}
					}
				}
			}
			return true
		})
		// back-edge states: out-states of the predecessors that come after the head
		var back []*fstate
		for _, b := range g.Blocks {
			if !b.Live || b.Index <= head.Index || len(in[b.Index]) == 0 {
				continue
			}
			for si, s := range b.Succs {
				if s != head {
					continue
				}
				save := f.curSites
				outs := f.flowBlock(b, f.sorted(in[b.Index]), nil)
				f.curSites = save
				back = append(back, outs[si]...)
			}
		}
		var common map[string]*Term
		for _, st := range back {
			cur := map[string]*Term{}
			// the loop facts are only meaningful while the loop variable still is the current element of xs
			valid := false
			for _, fc := range st.facts {
				if fc.S == "inloop" && len(fc.A) == 2 && fc.A[1].Key() == xs.Key() {
					valid = true
				}
			}
			if valid {
				for _, fc := range st.facts {
					switch fc.S {
					case "def", "defx", "orig", "inloop", "called", "some":
						continue
					}
					t := fc
					touched := false
					if elemVar != nil && mentionsTerm(t, elemVar) {
						t = replaceTerm(t, elemVar.Key(), elemTerm)
						touched = true
					}
					if keyVar != nil {
						ik := mk("index", "", xs, keyVar).Key()
						if r := replaceTerm(t, ik, elemTerm); r != nil {
							t = r
							touched = true
						}
					}
					if !touched {
						continue
					}
					bad := false
					t.walk(func(x *Term) bool {
						if x.K == "var" && (perIter[x.Obj] || (keyVar != nil && x.Obj == keyVar.Obj) || (elemVar != nil && x.Obj == elemVar.Obj)) {
							bad = true
						}
						return !bad
					})
					if bad {
						continue
					}
					cur[t.Key()] = t
				}
			}
			if common == nil {
				common = cur
			} else {
				for k := range common {
					if _, ok := cur[k]; !ok {
						delete(common, k)
					}
				}
			}
		}
		var qs []*Term
		for _, k := range sortedKeys(common) {
			body := common[k]
			qs = append(qs, fact("all", xs, body))
			// no element equals A: A is not a member
			if body.S == "neq" && len(body.A) == 2 {
				for i := 0; i < 2; i++ {
					if body.A[i].K == "elem" && !hasElem(body.A[1-i]) {
						qs = append(qs, fact("notmember", body.A[1-i], xs))
					}
				}
			}
			if len(qs) >= 24 {
				break
			}
		}
		if f.loopAll == nil {
			f.loopAll = map[*ast.RangeStmt][]*Term{}
		}
		old := f.loopAll[rs]
		same := len(old) == len(qs)
		if same {
			for i := range qs {
				if old[i].Key() != qs[i].Key() {
					same = false
				}
			}
		}
		if !same {
			f.loopAll[rs] = qs
			changed = true
		}
	}
	return changed
}
