package main

// C09 — malformed requests and tokens yield an error response, never a panic (DESIGN §5 C09).

func nullRejectingObs() []Ob {
	return []Ob{
		// the RP's callback handlers call these function values on every error path: the getters never hand out nil
		{ID: "E3.rp.error-handler-never-nil", Fn: "client/rp.(*relyingParty).ErrorHandler", P: []string{"rp"}, Kind: "ret any", Min: 1,
			Why: "CodeExchangeHandler calls rp.ErrorHandler()(...) when the provider answers with an error: a nil handler panics instead of answering",
			Req: []string{"nonnil($r0) || eq($r0, rp.DefaultErrorHandler) || def($r0, rp.DefaultErrorHandler)"}},
		{ID: "E3.rp.unauthorized-handler-never-nil", Fn: "client/rp.(*relyingParty).UnauthorizedHandler", P: []string{"rp"}, Kind: "ret any", Min: 1,
			Why: "the callback handlers call rp.UnauthorizedHandler()(...) on every state / cookie / exchange failure",
			Req: []string{"nonnil($r0) || eq($r0, rp.DefaultUnauthorizedHandler) || def($r0, rp.DefaultUnauthorizedHandler)"}},
		{ID: "E3.null-rejecting", Fn: "oidc.ParseToken", P: []string{"tokenString", "claims"}, Kind: "call", Pat: "json.Unmarshal($payload, $claims)", Max: 1,
			Why: "a JWT payload that is the JSON literal null leaves pointer claims nil without an error",
			Req: []string{`false(bytes.Equal(bytes.TrimSpace($payload), conv(_, "null"))) || neq(conv(string, bytes.TrimSpace($payload)), "null") || neq(strings.TrimSpace(conv(string, $payload)), "null")`}},
		{ID: "E3.null-rejecting", Fn: "http.HttpRequest", P: []string{"client", "req", "response"}, Kind: "call", Pat: "json.Unmarshal($body, $response)", Max: 1,
			Why: "a response body that is the JSON literal null leaves pointer response values nil without an error",
			Req: []string{`false(bytes.Equal(bytes.TrimSpace($body), conv(_, "null"))) || neq(conv(string, bytes.TrimSpace($body)), "null") || neq(strings.TrimSpace(conv(string, $body)), "null")`}},
	}
}

var c09AssertAllow = []allowSite{
	{"oidc.NewEncoder", "value.Interface().(oidc.SpaceDelimitedArray)", "schema invokes a registered encoder only with values of the registered type (RegisterEncoder(SpaceDelimitedArray{}, ...))"},
}

var c09PreconditionAllow = []allowSite{
	// expr = callee | parameters the argument may derive from
	{"op.NewDeviceCode", "make|nBytes", "the size is the provider's configuration constant RecommendedDeviceCodeBytes (>= 16, checked in C16), not request input"},
	{"op.NewUserCode", "crypto/rand.Int|charSet", "max = len(charSet) of the provider's configured user-code alphabet (configuration, not request input); an empty alphabet is a deployment error"},
	{"op.NewUserCode", "strings.Builder.Grow|charAmount,dashInterval", "provider configuration (UserCodeConfig), not request input"},
}

// expr = name-insensitive rendering (canon.go): single-assignment locals replaced by their definitions, other locals "_"
var c09BoundsAllow = []allowSite{
	{"client/rp.AuthURLHandler", "_[_]", "opts is make(len(urlParam)) and i ranges over urlParam"},
	{"client/rp.AuthURLHandler", "make([]rp.AuthURLOpt, len(urlParam))[_]", "the same site when the slice is built in a helper of AuthURLHandler: make(len(urlParam)), index from ranging over urlParam"},
	{"crypto.HashString", "hash.Sum(nil)[, _, :]", "size is hash.Size() or half of it; Sum(nil) returns exactly Size() bytes"},
	{"http.ConcatenateJSON", "first[(len(first) - 1)]", "first ends in '}' (HasSuffix checked), so len(first) >= 1"},
	{"http.ConcatenateJSON", "second[1, , :]", "second starts with '{' (HasPrefix checked), so len(second) >= 1"},
	{"oidc.(*Audience).UnmarshalJSON", "*a[_]", "*a is make(len(aud)) and i ranges over aud"},
	{"oidc.mergeAndMarshalClaims", "", "inlined bytes.Buffer.Bytes(): a slice of the buffer's own storage"},
	{"op.NewUserCode", "charSet[int(res:0(rand.Int(rand.Reader, big.NewInt(int64(len(charSet))))).Int64())]", "the index is drawn from [0, len(charSet)) by rand.Int(_, big.NewInt(len(charSet)))"},
}

func init() {
	register(&PropSpec{
		ID: "C09",
		Explanation: "Decides, for all paths of in-module code: (E2) every function or closure that takes an http.ResponseWriter answers at most once, performs no further work after an error responder fired, and every root handler answers on every path (typestate over go/cfg with summaries for derived responders); (E3.N1) every decode-into call with a nillable target (&pointer, &type-parameter, &interface, &map) either goes through a decode function that rejects the JSON document null before decoding (ParseToken, HttpRequest: E1 obligations on their bodies) or is followed only by nil-guarded dereferences; (E3.N2) results that a callee may return nil together with a success status are nil-tested before every dereference; (E4) no unchecked type assertion, no panic call, no bounds check the compiler cannot prove outside a reviewed table, and no codec method that hands its own type back to the JSON codec (unbounded recursion). Third-party and standard-library code is trusted not to panic on data.",
		RuleText:    "obligation = (rule, function, construct): one per handler and rule for E2, one per decode site / risky result binding / assertion / bounds site / codec method otherwise; non-trivial when the function contains at least one responder, decode target, assertion or index expression of that kind",
		Assumptions: []string{"a failed write to the ResponseWriter means the peer is gone (not counted as a second response)", "dynamic callees that receive the ResponseWriter (next.ServeHTTP, application callbacks) answer exactly once", "stdlib, go-jose, schema, securecookie do not panic on data"},
		Trusted:     []string{"go/types, go/cfg (x/tools v0.50.0)", "cmd/compile prove pass (bounds-check report)", "stdlib and third-party decoders"},
		Level:       "Sound static check of the structural clauses of the property for in-module code: at most one response and stop-after-error on every path of every handler; no nil dereference of nullable decode targets or nil-with-success results; no unchecked assertion / explicit panic / unreviewed unproven bounds check / codec recursion. This is most of what 'never panics, never answers twice' means for this code base; panics inside dependencies are outside.",
		Note:        "Trusted: go/types+go/cfg, the compiler's prove pass for the bounds report, dependencies. Allow-lists are keyed by function and expression with a reason each.",
		Technique:   "static analysis: response typestate over go/cfg with interprocedural summaries; nil-flow rules over the typed AST; compiler bounds-check report; codec recursion rule",
		Rules:       []string{"E2.R-once", "E2.R-stop", "E2.R-answer", "E3.N1", "E3.N2", "E3.N3", "E4.R-assert", "E4.R-panic", "E4.R-recursion", "E4.R-precondition", "E5.R-examined", "E1"},
		Floors:      []Floor{{"E2.R-once", 55}, {"E3.N1", 8}, {"E4.R-recursion", 10}},
		Run: func(c *Ctx) {
			RunE2(c)
			RunE1(c, "C09", nullRejectingObs())
			nr := map[string]bool{"oidc.ParseToken": true, "http.HttpRequest": true}
			for _, f := range c.R.Findings {
				if f.Rule == "E3.null-rejecting" || f.Rule == "vacuity" || f.Rule == "anchor-unresolved" {
					delete(nr, f.Func)
				}
			}
			RunN1(c, nr)
			RunN2(c)
			RunN3(c, []string{"oidc", "op", "client", "client/rp", "client/rs", "client/profile", "client/tokenexchange", "http", "crypto"})
			RunAssertPanic(c, []string{"oidc", "op", "client", "client/rp", "client/rs", "client/profile", "client/tokenexchange", "http", "crypto", "strings"}, c09AssertAllow, nil)
			RunBounds(c, c09BoundsAllow)
			RunMarshalRecursion(c, []string{"oidc", "op", "client", "client/rp"})
			RunErrorsExamined(c, []string{"oidc", "op", "client", "client/rp", "client/rs", "client/profile", "client/tokenexchange", "http", "crypto"})
			RunPreconditions(c, []string{"oidc", "op", "client", "client/rp", "client/rs", "client/profile", "client/tokenexchange", "http", "crypto"}, c09PreconditionAllow)
		},
	})
}
