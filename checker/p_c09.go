package main

func init() {
	register(&PropSpec{ID: "C09", Explanation: "tmp", Rules: []string{"E2.R-once", "E2.R-stop", "E2.R-answer"}, Run: func(c *Ctx) { RunE2(c) }})
}
