package main

import (
	"encoding/json"
	"fmt"
	"os"
	"path/filepath"
	"sort"
	"strings"
	"time"
)

// Finding is one reported violation of a rule by a specific construct.
type Finding struct {
	Prop      string   `json:"property"`
	Rule      string   `json:"rule"`
	Func      string   `json:"function"`
	Construct string   `json:"construct"`
	Pos       string   `json:"pos"`
	Msg       string   `json:"message"`
	Path      []string `json:"path,omitempty"`
	Ctl       bool     `json:"-"`
}

// Key identifies a finding by rule + construct, never by line.
func (f Finding) Key() string { return f.Rule + " | " + f.Func + " | " + f.Construct }

// Obligation is one rule instance evaluated on the tree.
type Obligation struct {
	Rule       string   `json:"rule"`
	Func       string   `json:"function"`
	Construct  string   `json:"construct"`
	Pos        string   `json:"pos"`
	Discharged bool     `json:"discharged"`
	Nontrivial bool     `json:"nontrivial"`
	How        []string `json:"how,omitempty"`
	Ctl        bool     `json:"-"`
}

type KnownEntry struct {
	Status   string `json:"status"` // "known" | "fixed"
	Property string `json:"property"`
	Key      string `json:"key"`
	What     string `json:"what"`
	Commit   string `json:"commit,omitempty"`
}

type KnownFile struct {
	Comment string       `json:"comment,omitempty"`
	Entries []KnownEntry `json:"entries"`
}

// Floor: the minimum number of obligations a rule must evaluate (vacuity guard).
type Floor struct {
	Rule string
	Min  int
}

type Reporter struct {
	Prop        string
	Tier        string
	Seed        int
	start       time.Time
	Findings    []Finding
	Obls        []Obligation
	Floors      []Floor
	Explanation string
	RuleText    string
	Assumptions []string
	Trusted     []string
	Extra       map[string]any
	Pkgs        int
	FuncsSeen   map[string]bool
	CallSites   int
	CtlExpect   map[string]bool // control functions expected to fire, by "rule | func"
	failures    []string        // hard failures (anchor unresolved, vacuity ...)
}

func NewReporter(prop, tier string, seed int) *Reporter {
	return &Reporter{Prop: prop, Tier: tier, Seed: seed, start: time.Now(), Extra: map[string]any{}, FuncsSeen: map[string]bool{}, CtlExpect: map[string]bool{}}
}

func (r *Reporter) Saw(fn string) { r.FuncsSeen[fn] = true }

func (r *Reporter) Obl(o Obligation) {
	r.Obls = append(r.Obls, o)
	r.Saw(o.Func)
}

func (r *Reporter) Find(f Finding) {
	f.Prop = r.Prop
	r.Findings = append(r.Findings, f)
}

// Fail records a hard failure of the check itself (unresolved anchor, vacuity, engine error).
func (r *Reporter) Fail(rule, fn, construct, msg string) {
	r.Find(Finding{Rule: rule, Func: fn, Construct: construct, Pos: "-", Msg: msg})
}

func isCtlFunc(name string) bool { return strings.HasPrefix(name, "zzverifctl.") }

func loadKnown(path string) (*KnownFile, error) {
	kf := &KnownFile{}
	if path == "" {
		return kf, nil
	}
	b, err := os.ReadFile(path)
	if err != nil {
		if os.IsNotExist(err) {
			return kf, nil
		}
		return nil, err
	}
	if err := json.Unmarshal(b, kf); err != nil {
		return nil, fmt.Errorf("%s: %v", path, err)
	}
	return kf, nil
}

// Finish evaluates controls and floors, writes evidence and replay files, prints the verdict lines
// and returns the process exit code.
func (r *Reporter) Finish(verifDir string, known *KnownFile, ctl *ctlResult) int {
	// 1. split control findings from real ones
	var real []Finding
	ctlFired := map[string]int{}
	for _, f := range r.Findings {
		if isCtlFunc(f.Func) {
			ctlFired[f.Rule+" | "+rootFunc(f.Func)]++
			continue
		}
		real = append(real, f)
	}
	ctlChecked, ctlOK := 0, 0
	if ctl != nil {
		for _, c := range ctl.Expect {
			ctlChecked++
			n := ctlFired[c.Rule+" | "+c.Func]
			if c.Bad && n == 0 {
				real = append(real, Finding{Prop: r.Prop, Rule: "control-silent", Func: c.Func, Construct: c.Rule, Pos: "-", Msg: "positive control did not fire: rule " + c.Rule + " is blind to the bad construct in " + c.Func})
			} else if !c.Bad && n > 0 {
				real = append(real, Finding{Prop: r.Prop, Rule: "control-noisy", Func: c.Func, Construct: c.Rule, Pos: "-", Msg: "negative control fired: rule " + c.Rule + " reports the accepted idiom in " + c.Func})
			} else {
				ctlOK++
			}
		}
	}
	// 2. floors
	counts := map[string]int{}
	nobl, ndis, nnon := 0, 0, 0
	distinct := map[string]bool{}
	for _, o := range r.Obls {
		if o.Ctl || isCtlFunc(o.Func) {
			continue
		}
		counts[o.Rule]++
		nobl++
		if o.Discharged {
			ndis++
		}
		if o.Nontrivial {
			k := o.Rule + " | " + o.Func + " | " + o.Construct
			if !distinct[k] {
				distinct[k] = true
				nnon++
			}
		}
	}
	for _, fl := range r.Floors {
		if counts[fl.Rule] < fl.Min {
			real = append(real, Finding{Prop: r.Prop, Rule: "vacuity", Func: "-", Construct: fl.Rule, Pos: "-",
				Msg: fmt.Sprintf("rule %s evaluated %d instance(s), below the confirmed floor of %d: the rule no longer sees the code it was written for (re-point the anchor)", fl.Rule, counts[fl.Rule], fl.Min)})
		}
	}
	// 3. known findings
	knownKeys := map[string]KnownEntry{}
	for _, e := range known.Entries {
		if e.Status == "known" && e.Property == r.Prop {
			knownKeys[e.Key] = e
		}
	}
	sort.SliceStable(real, func(i, j int) bool { return real[i].Key() < real[j].Key() })
	var viol []Finding
	seenKnown := map[string]bool{}
	for _, f := range real {
		if e, ok := knownKeys[f.Key()]; ok {
			if !seenKnown[f.Key()] {
				fmt.Printf("KNOWN-FINDING: property=%s %s [%s] at %s\n", r.Prop, e.What, f.Key(), f.Pos)
				seenKnown[f.Key()] = true
			}
			continue
		}
		viol = append(viol, f)
	}
	// 4. replay files + verdict lines
	replayDir := filepath.Join(verifDir, "replay")
	os.MkdirAll(replayDir, 0o755)
	old, _ := filepath.Glob(filepath.Join(replayDir, r.Prop+"-*.json"))
	for _, o := range old {
		os.Remove(o)
	}
	for i, f := range viol {
		path := filepath.Join(replayDir, fmt.Sprintf("%s-%d.json", r.Prop, i+1))
		b, _ := json.MarshalIndent(f, "", "  ")
		os.WriteFile(path, b, 0o644)
		fmt.Printf("%s: %s %s: %s\n", f.Pos, r.Prop, f.Rule, f.Msg)
		if len(f.Path) > 0 {
			fmt.Printf("    path: %s\n", strings.Join(f.Path, " -> "))
		}
		fmt.Printf("    in %s, construct: %s\n", f.Func, f.Construct)
		fmt.Printf("VIOLATION property=%s replay=%s\n", r.Prop, path)
	}
	// 5. evidence
	var samples []any
	step := 1
	var realObls []Obligation
	for _, o := range r.Obls {
		if !o.Ctl && !isCtlFunc(o.Func) {
			realObls = append(realObls, o)
		}
	}
	if len(realObls) > 14 {
		step = len(realObls) / 14
	}
	for i := 0; i < len(realObls) && len(samples) < 14; i += step {
		samples = append(samples, realObls[i])
	}
	var fns []string
	for f := range r.FuncsSeen {
		if !isCtlFunc(f) {
			fns = append(fns, f)
		}
	}
	sort.Strings(fns)
	perRule := map[string]int{}
	for k, v := range counts {
		perRule[k] = v
	}
	cov := map[string]any{
		"explanation":         r.Explanation,
		"rule":                r.RuleText,
		"obligations":         nobl,
		"discharged":          ndis,
		"evaluations":         nobl,
		"distinct_nontrivial": nnon,
		"samples":             samples,
		"obligations_by_rule": perRule,
		"functions_analysed":  len(fns),
		"functions":           fns,
		"packages":            r.Pkgs,
		"call_sites":          r.CallSites,
		"controls_checked":    ctlChecked,
		"controls_ok":         ctlOK,
		"known_findings_seen": len(seenKnown),
		"trusted_base":        r.Trusted,
		"checker_cmd":         fmt.Sprintf("bin/oidcheck -repo /repo -prop %s -tier %s", r.Prop, r.Tier),
		"exhaustive":          false,
	}
	for k, v := range r.Extra {
		cov[k] = v
	}
	var vl []any
	for _, f := range viol {
		vl = append(vl, f)
	}
	if vl != nil {
		cov["violation_list"] = vl
	}
	if r.Assumptions == nil {
		r.Assumptions = []string{}
	}
	if r.Trusted == nil {
		cov["trusted_base"] = []string{}
	}
	ev := map[string]any{
		"property_id": r.Prop,
		"tier":        r.Tier,
		"seed":        r.Seed,
		"level":       "other",
		"coverage":    cov,
		"assumptions": r.Assumptions,
		"wall_s":      time.Since(r.start).Seconds(),
		"violations":  len(viol),
	}
	evDir := filepath.Join(verifDir, "evidence")
	os.MkdirAll(evDir, 0o755)
	b, _ := json.MarshalIndent(ev, "", " ")
	if err := os.WriteFile(filepath.Join(evDir, r.Prop+".json"), append(b, '\n'), 0o644); err != nil {
		fmt.Fprintln(os.Stderr, "evidence:", err)
		return 2
	}
	fmt.Printf("%s %s: %d obligations (%d discharged, %d non-trivial), %d functions, controls %d/%d, known findings %d, violations %d, %.1fs\n",
		r.Prop, r.Tier, nobl, ndis, nnon, len(fns), ctlOK, ctlChecked, len(seenKnown), len(viol), time.Since(r.start).Seconds())
	if len(viol) > 0 {
		return 1
	}
	return 0
}

func rootFunc(name string) string {
	if i := strings.Index(name, "$"); i >= 0 {
		return name[:i]
	}
	return name
}

// ctlResult lists the control functions an engine run is expected to (not) flag.
type ctlExpect struct {
	Rule string
	Func string
	Bad  bool
}
type ctlResult struct{ Expect []ctlExpect }
