package main

// C19 — the discovery document is truthful about the provider in every configuration (DESIGN §5 C19).

import (
	"fmt"
	"go/ast"
	"go/types"
	"sort"
	"strings"
)

func init() {
	const ep = "AuthorizationEndpoint: $c.AuthorizationEndpoint().Absolute($iss), TokenEndpoint: $c.TokenEndpoint().Absolute($iss), IntrospectionEndpoint: $c.IntrospectionEndpoint().Absolute($iss), UserinfoEndpoint: $c.UserinfoEndpoint().Absolute($iss), RevocationEndpoint: $c.RevocationEndpoint().Absolute($iss), EndSessionEndpoint: $c.EndSessionEndpoint().Absolute($iss), JwksURI: $c.KeysEndpoint().Absolute($iss), DeviceAuthorizationEndpoint: $c.DeviceAuthorizationEndpoint().Absolute($iss)"
	const ep2 = "AuthorizationEndpoint: $e.Authorization.Absolute($iss), TokenEndpoint: $e.Token.Absolute($iss), IntrospectionEndpoint: $e.Introspection.Absolute($iss), UserinfoEndpoint: $e.Userinfo.Absolute($iss), RevocationEndpoint: $e.Revocation.Absolute($iss), EndSessionEndpoint: $e.EndSession.Absolute($iss), JwksURI: $e.JwksURI.Absolute($iss), DeviceAuthorizationEndpoint: $e.DeviceAuthorization.Absolute($iss)"
	const common = "Issuer: $iss, GrantTypesSupported: op.GrantTypes($c), CodeChallengeMethodsSupported: op.CodeChallengeMethods($c), RequestParameterSupported: $c.RequestObjectSupported(), TokenEndpointAuthMethodsSupported: op.AuthMethodsTokenEndpoint($c), RevocationEndpointAuthMethodsSupported: op.AuthMethodsRevocationEndpoint($c), IntrospectionEndpointAuthMethodsSupported: op.AuthMethodsIntrospectionEndpoint($c)"
	obs := []Ob{
		// T2/T4/T5: what the document says
		{ID: "E8.discovery.provider", Fn: "op.CreateDiscoveryConfig", P: []string{"ctx", "c", "storage"}, Kind: "ret any", Max: 1,
			Pat: "ret(&DiscoveryConfiguration{" + common + ", " + ep + ", CheckSessionIframe: $c.CheckSessionIframe().Absolute($iss)})",
			Req: []string{"def($iss, op.IssuerFromContext($ctx))"}},
		{ID: "E8.discovery.server", Fn: "op.createDiscoveryConfigV2", P: []string{"ctx", "c", "storage", "e"}, Kind: "ret any", Max: 1,
			Pat: "ret(&DiscoveryConfiguration{" + common + ", " + ep2 + "})",
			Req: []string{"def($iss, op.IssuerFromContext($ctx))"}},
		// the document is built for the request at hand: its issuer comes from this request's context (a provider may serve
		// several issuers), so it is neither cached across requests nor built from another context
		{ID: "E8.discovery.provider.per-request", Fn: "op.discoveryHandler$1", Kind: "call", Pat: "op.Discover($w, op.CreateDiscoveryConfig($r.Context(), $c, $s))", Min: 1, Max: 1,
			Why: "the served document is the one built from this request's context"},
		{ID: "E8.discovery.provider.per-request.only", Fn: "op.discoveryHandler$1", Kind: "call", Pat: "op.Discover(__)", Max: 1},
		{ID: "E8.discovery.server.per-request", Fn: "op.(*LegacyServer).Discovery", P: []string{"s", "ctx", "r"}, Kind: "ret ok", Pat: "ret(op.NewResponse(op.createDiscoveryConfigV2(_, $s.provider, $s.provider.Storage(), &$s.endpoints)), nil)", Min: 1, Max: 1,
			Why: "sibling of discoveryHandler"},
		{ID: "E8.discovery.server.per-request.only", Fn: "op.(*LegacyServer).Discovery", Kind: "ret ok", Max: 1},
		{ID: "E8.discovery.server.handler", Fn: "op.simpleHandler$1", Kind: "call", Pat: "$method($r.Context(), op.newRequest($r, _))", Min: 1, Max: 1},
		{ID: "E8.discovery.server.endpoints", Fn: "op.(*LegacyServer).Discovery", P: []string{"s", "ctx"}, Kind: "call", Pat: "op.createDiscoveryConfigV2(_, $s.provider, _, &$s.endpoints)", Max: 1},
		{ID: "E8.discovery.server.same-endpoints-routed", Fn: "op.RegisterLegacyServer", P: []string{"s"}, Kind: "ret any", Pat: "ret(op.RegisterServer($s, $s.Endpoints(), __))", Max: 1, Only: true},
		{ID: "E8.discovery.server.endpoints-getter", Fn: "op.(*LegacyServer).Endpoints", P: []string{"s"}, Kind: "ret any", Pat: "ret($s.endpoints)", Max: 1, Only: true},
		// routes
		// routes: decided by RunRouteTargets below (handler spelling is irrelevant, its target is not)
		{ID: "E1.routes.server.nil-not-routed", Fn: "op.(*webServer).endpointRoute", P: []string{"s", "e", "hf"}, Kind: "call", Pat: "$s.router.HandleFunc($e.Relative(), _)", Max: 1, Req: []string{"nonnil($e)"}},
		{ID: "E1.endpoint.absolute.nil", Fn: "op.(*Endpoint).Absolute", P: []string{"e", "host"}, Kind: "ret any", Pat: `ret("")`, Max: 1, Req: []string{"nil($e)"}},
		{ID: "E1.endpoint.absolute.relative-to-issuer", Fn: "op.(*Endpoint).Absolute", P: []string{"e", "host"}, Kind: "ret any", Pat: "ret(op.absoluteEndpoint($host, $e.path))", Max: 1, Req: []string{`eq($e.url, "")`, "nonnil($e)"}},
		{ID: "E1.endpoint.relative", Fn: "op.(*Endpoint).Relative", P: []string{"e"}, Kind: "ret any", Pat: "ret(op.relativeEndpoint($e.path))", Max: 1, Req: []string{"nonnil($e)"}},
		{ID: "E8.endpoint.absolute.same-path", Fn: "op.absoluteEndpoint", P: []string{"host", "endpoint"}, Kind: "ret any", Pat: `ret(strings.TrimSuffix($host, "/") + op.relativeEndpoint($endpoint))`, Max: 1, Only: true},
		// T1/T3/T6: advertise-iff-supported lists (the iff part is the table rule below)
		{ID: "E1.advertise.refresh", Fn: "op.GrantTypes", P: []string{"c"}, Kind: "call", Pat: "append($g, oidc.GrantTypeRefreshToken)", Max: 1, Req: []string{"true($c.GrantTypeRefreshTokenSupported())"}},
		{ID: "E1.advertise.cc", Fn: "op.GrantTypes", P: []string{"c"}, Kind: "call", Pat: "append($g, oidc.GrantTypeClientCredentials)", Max: 1, Req: []string{"true($c.GrantTypeClientCredentialsSupported())"}},
		{ID: "E1.advertise.te", Fn: "op.GrantTypes", P: []string{"c"}, Kind: "call", Pat: "append($g, oidc.GrantTypeTokenExchange)", Max: 1, Req: []string{"true($c.GrantTypeTokenExchangeSupported())"}},
		{ID: "E1.advertise.jwt", Fn: "op.GrantTypes", P: []string{"c"}, Kind: "call", Pat: "append($g, oidc.GrantTypeBearer)", Max: 1, Req: []string{"true($c.GrantTypeJWTAuthorizationSupported())"}},
		{ID: "E1.advertise.device", Fn: "op.GrantTypes", P: []string{"c"}, Kind: "call", Pat: "append($g, oidc.GrantTypeDeviceCode)", Max: 1, Req: []string{"true($c.GrantTypeDeviceCodeSupported())"}},
		{ID: "E1.advertise.s256", Fn: "op.CodeChallengeMethods", P: []string{"c"}, Kind: "call", Pat: "append($m, oidc.CodeChallengeMethodS256)", Max: 1, Req: []string{"true($c.CodeMethodS256Supported())"}},
		{ID: "E1.advertise.s256.only", Fn: "op.CodeChallengeMethods", Kind: "call", Pat: "append(__)", Max: 1},
		{ID: "E1.advertise.token-auth.post", Fn: "op.AuthMethodsTokenEndpoint", P: []string{"c"}, Kind: "call", Pat: "append($m, oidc.AuthMethodPost)", Max: 1, Req: []string{"true($c.AuthMethodPostSupported())"}},
		{ID: "E1.advertise.token-auth.jwt", Fn: "op.AuthMethodsTokenEndpoint", P: []string{"c"}, Kind: "call", Pat: "append($m, oidc.AuthMethodPrivateKeyJWT)", Max: 1, Req: []string{"true($c.AuthMethodPrivateKeyJWTSupported())"}},
		{ID: "E1.advertise.iff.refresh", Fn: "op.GrantTypes", P: []string{"c"}, Kind: "ret any", Why: "advertised whenever the capability holds (no extra condition on the advertising side)",
			Req: []string{"false($c.GrantTypeRefreshTokenSupported()) || called(append(_, oidc.GrantTypeRefreshToken))"}},
		{ID: "E1.advertise.iff.cc", Fn: "op.GrantTypes", P: []string{"c"}, Kind: "ret any", Why: "advertised whenever the capability holds (no extra condition on the advertising side)",
			Req: []string{"false($c.GrantTypeClientCredentialsSupported()) || called(append(_, oidc.GrantTypeClientCredentials))"}},
		{ID: "E1.advertise.iff.te", Fn: "op.GrantTypes", P: []string{"c"}, Kind: "ret any", Why: "advertised whenever the capability holds (no extra condition on the advertising side)",
			Req: []string{"false($c.GrantTypeTokenExchangeSupported()) || called(append(_, oidc.GrantTypeTokenExchange))"}},
		{ID: "E1.advertise.iff.jwt", Fn: "op.GrantTypes", P: []string{"c"}, Kind: "ret any", Why: "advertised whenever the capability holds (no extra condition on the advertising side)",
			Req: []string{"false($c.GrantTypeJWTAuthorizationSupported()) || called(append(_, oidc.GrantTypeBearer))"}},
		{ID: "E1.advertise.iff.device", Fn: "op.GrantTypes", P: []string{"c"}, Kind: "ret any", Why: "advertised whenever the capability holds (no extra condition on the advertising side)",
			Req: []string{"false($c.GrantTypeDeviceCodeSupported()) || called(append(_, oidc.GrantTypeDeviceCode))"}},
		{ID: "E1.advertise.iff.s256", Fn: "op.CodeChallengeMethods", P: []string{"c"}, Kind: "ret any", Why: "advertised whenever the capability holds (no extra condition on the advertising side)",
			Req: []string{"false($c.CodeMethodS256Supported()) || called(append(_, oidc.CodeChallengeMethodS256))"}},
		{ID: "E1.advertise.iff.token-auth.post", Fn: "op.AuthMethodsTokenEndpoint", P: []string{"c"}, Kind: "ret any", Why: "advertised whenever the capability holds (no extra condition on the advertising side)",
			Req: []string{"false($c.AuthMethodPostSupported()) || called(append(_, oidc.AuthMethodPost))"}},
		{ID: "E1.advertise.iff.token-auth.jwt", Fn: "op.AuthMethodsTokenEndpoint", P: []string{"c"}, Kind: "ret any", Why: "advertised whenever the capability holds (no extra condition on the advertising side)",
			Req: []string{"false($c.AuthMethodPrivateKeyJWTSupported()) || called(append(_, oidc.AuthMethodPrivateKeyJWT))"}},
		{ID: "E1.advertise.iff.revocation-auth.post", Fn: "op.AuthMethodsRevocationEndpoint", P: []string{"c"}, Kind: "ret any", Why: "advertised whenever the capability holds (no extra condition on the advertising side)",
			Req: []string{"false($c.AuthMethodPostSupported()) || called(append(_, oidc.AuthMethodPost))"}},
		{ID: "E1.advertise.iff.revocation-auth.jwt", Fn: "op.AuthMethodsRevocationEndpoint", P: []string{"c"}, Kind: "ret any", Why: "advertised whenever the capability holds (no extra condition on the advertising side)",
			Req: []string{"false($c.AuthMethodPrivateKeyJWTSupported()) || called(append(_, oidc.AuthMethodPrivateKeyJWT))"}},
		{ID: "E1.advertise.revocation-auth.post", Fn: "op.AuthMethodsRevocationEndpoint", P: []string{"c"}, Kind: "call", Pat: "append($m, oidc.AuthMethodPost)", Max: 1, Req: []string{"true($c.AuthMethodPostSupported())"}},
		{ID: "E1.advertise.revocation-auth.jwt", Fn: "op.AuthMethodsRevocationEndpoint", P: []string{"c"}, Kind: "call", Pat: "append($m, oidc.AuthMethodPrivateKeyJWT)", Max: 1, Req: []string{"true($c.AuthMethodPrivateKeyJWTSupported())"}},
		{ID: "E1.dispatch.iff.refresh", Fn: "op.Exchange", P: []string{"w", "r", "exchanger"}, Kind: "ret any", MutOK: []string{"r"}, Why: "served whenever advertised: the dispatch guard is exactly the advertised capability",
			Req: []string{"neq($r.FormValue(\"grant_type\"), oidc.GrantTypeRefreshToken) || false($exchanger.GrantTypeRefreshTokenSupported()) || called(op.RefreshTokenExchange(__))"}},
		{ID: "E1.dispatch.iff.cc", Fn: "op.Exchange", P: []string{"w", "r", "exchanger"}, Kind: "ret any", MutOK: []string{"r"}, Why: "served whenever advertised: the dispatch guard is exactly the advertised capability",
			Req: []string{"neq($r.FormValue(\"grant_type\"), oidc.GrantTypeClientCredentials) || false($exchanger.GrantTypeClientCredentialsSupported()) || called(op.ClientCredentialsExchange(__))"}},
		{ID: "E1.dispatch.iff.te", Fn: "op.Exchange", P: []string{"w", "r", "exchanger"}, Kind: "ret any", MutOK: []string{"r"}, Why: "served whenever advertised: the dispatch guard is exactly the advertised capability",
			Req: []string{"neq($r.FormValue(\"grant_type\"), oidc.GrantTypeTokenExchange) || false($exchanger.GrantTypeTokenExchangeSupported()) || called(op.TokenExchange(__))"}},
		{ID: "E1.dispatch.iff.device", Fn: "op.Exchange", P: []string{"w", "r", "exchanger"}, Kind: "ret any", MutOK: []string{"r"}, Why: "served whenever advertised: the dispatch guard is exactly the advertised capability",
			Req: []string{"neq($r.FormValue(\"grant_type\"), oidc.GrantTypeDeviceCode) || false($exchanger.GrantTypeDeviceCodeSupported()) || called(op.DeviceAccessToken(__))"}},
		{ID: "E1.dispatch.iff.jwt", Fn: "op.Exchange", P: []string{"w", "r", "exchanger"}, Kind: "ret any", MutOK: []string{"r"},
			Req: []string{"neq($r.FormValue(\"grant_type\"), oidc.GrantTypeBearer) || false($exchanger.GrantTypeJWTAuthorizationSupported()) || notis($exchanger, JWTAuthorizationGrantExchanger) || called(op.JWTProfile(__))"}},
		// the Server router serves a grant whenever discovery advertises it: LegacyServer answers "grant not implemented" only
		// when the very capability predicate that GrantTypes() advertises is false (no extra condition on the serving side)
		{ID: "E1.serve.iff.legacy.refresh", Fn: "op.(*LegacyServer).RefreshToken", P: []string{"s", "ctx", "r"}, Kind: "ret fail", When: []string{"errOrig($r1, op.unimplementedGrantError)"},
			Why: "refresh_token is refused as unimplemented only if it is not advertised", Req: []string{"false($s.provider.GrantTypeRefreshTokenSupported())"}},
		{ID: "E1.serve.iff.legacy.te", Fn: "op.(*LegacyServer).TokenExchange", P: []string{"s", "ctx", "r"}, Kind: "ret fail", When: []string{"errOrig($r1, op.unimplementedGrantError)"},
			Why: "token-exchange is refused as unimplemented only if it is not advertised", Req: []string{"false($s.provider.GrantTypeTokenExchangeSupported())"}},
		{ID: "E1.serve.iff.legacy.device", Fn: "op.(*LegacyServer).DeviceToken", P: []string{"s", "ctx", "r"}, Kind: "ret fail", When: []string{"errOrig($r1, op.unimplementedGrantError)"},
			Why: "device_code is refused as unimplemented only if it is not advertised", Req: []string{"false($s.provider.GrantTypeDeviceCodeSupported())"}},
		{ID: "E1.serve.iff.legacy.device-authorization", Fn: "op.(*LegacyServer).DeviceAuthorization", P: []string{"s", "ctx", "r"}, Kind: "ret fail", Opt: true, When: []string{"errOrig($r1, op.unimplementedGrantError)"},
			Why: "device authorization is refused as unimplemented only if the device grant is not advertised", Req: []string{"false($s.provider.GrantTypeDeviceCodeSupported())"}},
		{ID: "E1.serve.iff.legacy.cc", Fn: "op.(*LegacyServer).ClientCredentialsExchange", P: []string{"s", "ctx", "r"}, Kind: "ret fail", When: []string{"errOrig($r1, op.unimplementedGrantError)"},
			Why: "client_credentials is refused as unimplemented only if the storage lacks the capability that advertises it", Req: []string{"notis($s.provider.Storage(), ClientCredentialsStorage)"}},
		{ID: "E1.serve.iff.legacy.jwt", Fn: "op.(*LegacyServer).JWTProfile", P: []string{"s", "ctx", "r"}, Kind: "ret fail", When: []string{"errOrig($r1, op.unimplementedGrantError)"},
			Why: "jwt-bearer is refused as unimplemented only if the provider is no JWT exchanger", Req: []string{"notis($s.provider, JWTAuthorizationGrantExchanger)"}},
		// capability normal forms
		{ID: "E7.capability.refresh", Fn: "op.(*Provider).GrantTypeRefreshTokenSupported", P: []string{"o"}, Kind: "ret any", Pat: "ret($o.config.GrantTypeRefreshToken)", Max: 1, Only: true},
		{ID: "E7.capability.cc", Fn: "op.(*Provider).GrantTypeClientCredentialsSupported", P: []string{"o"}, Kind: "ret any", Pat: "ret($ok)", Max: 1, Only: true, Req: []string{"def($ok, $o.storage.(ClientCredentialsStorage), 1)"}},
		{ID: "E7.capability.te", Fn: "op.(*Provider).GrantTypeTokenExchangeSupported", P: []string{"o"}, Kind: "ret any", Pat: "ret($ok)", Max: 1, Only: true, Req: []string{"def($ok, $o.storage.(TokenExchangeStorage), 1)"}},
		{ID: "E7.capability.device", Fn: "op.(*Provider).GrantTypeDeviceCodeSupported", P: []string{"o"}, Kind: "ret any", Pat: "ret($ok)", Max: 1, Only: true, Req: []string{"def($ok, $o.storage.(DeviceAuthorizationStorage), 1)"}},
		{ID: "E7.capability.s256", Fn: "op.(*Provider).CodeMethodS256Supported", P: []string{"o"}, Kind: "ret any", Pat: "ret($o.config.CodeMethodS256)", Max: 1, Only: true},
		{ID: "E7.capability.request-object", Fn: "op.(*Provider).RequestObjectSupported", P: []string{"o"}, Kind: "ret any", Pat: "ret($o.config.RequestObjectSupported)", Max: 1, Only: true},
		// S256 is implemented by the verifier
		{ID: "E1.pkce.s256-transform", Fn: "oidc.VerifyCodeChallenge", P: []string{"c", "v"}, Kind: "call", Pat: "oidc.NewSHACodeChallenge($x)", Max: 1, MutOK: []string{"v"},
			Why: "the S256 transform is applied exactly when the stored challenge says S256", Req: []string{"eq($c.Method, oidc.CodeChallengeMethodS256)"}},
		{ID: "E1.pkce.compare", Fn: "oidc.VerifyCodeChallenge", P: []string{"c", "v"}, Kind: "ret ok", MutOK: []string{"v"},
			Why: "a verifier is accepted only if it (transformed under S256) equals the stored challenge",
			Req: []string{"nonnil($c)", "eq($t, $c.Challenge)", "neq($c.Method, oidc.CodeChallengeMethodS256) || called(oidc.NewSHACodeChallenge(_))"}},
		{ID: "E8.pkce.sha256", Fn: "oidc.NewSHACodeChallenge", P: []string{"code"}, Kind: "ret any", Pat: "ret(crypto.HashString(sha256.New(), $code, false))", Max: 1, Only: true},
		// T5: the token issuer is the discovery issuer
		{ID: "E8.issuer.id-token.code", Fn: "op.CreateTokenResponse", Kind: "call", Pat: "op.CreateIDToken($ctx, op.IssuerFromContext($ctx), __)", Max: 1},
		{ID: "E8.issuer.id-token.device", Fn: "op.CreateDeviceTokenResponse", Kind: "call", Pat: "op.CreateIDToken($ctx, op.IssuerFromContext($ctx), __)", Max: 1},
		{ID: "E8.issuer.id-token.exchange", Fn: "op.CreateTokenExchangeResponse", Kind: "call", Pat: "op.CreateIDToken($ctx, op.IssuerFromContext($ctx), __)", Max: 1},
		{ID: "E8.issuer.jwt-access-token", Fn: "op.CreateAccessToken", Kind: "call", Pat: "op.CreateJWT($ctx, op.IssuerFromContext($ctx), __)", Max: 1},
		// issuer validation
		{ID: "E1.issuer.validate.accept", Fn: "op.ValidateIssuer", P: []string{"issuer", "allowInsecure"}, Kind: "ret ok", Max: 1,
			Req: []string{`neq($issuer, "")`, "def($u, url.Parse($issuer), 0)", "ok(url.Parse($issuer))", `neq($u.Host, "")`, `eq($u.Scheme, "https") || true(op.devLocalAllowed($u, $allowInsecure))`, "ok(op.ValidateIssuerPath($u))"}},
		// devLocalAllowed is true exactly when insecure issuers were opted into and the scheme is http (stated on the outcomes:
		// any boolean spelling is accepted)
		{ID: "E1.issuer.insecure-optin", Fn: "op.devLocalAllowed", P: []string{"u", "allowInsecure"}, Kind: "ret ok", Req: []string{"true($allowInsecure)", `eq($u.Scheme, "http")`}},
		{ID: "E1.issuer.insecure-optin.false", Fn: "op.devLocalAllowed", P: []string{"u", "allowInsecure"}, Kind: "ret fail", Req: []string{`false($allowInsecure) || neq($u.Scheme, "http")`}},
		{ID: "E1.issuer.path.accept", Fn: "op.ValidateIssuerPath", P: []string{"issuer"}, Kind: "ret ok", Max: 1, Req: []string{`eq($issuer.Fragment, "")`, "le(len($issuer.Query()), 0)"}},
		{ID: "E1.issuer.static", Fn: "op.StaticIssuer$1", P: []string{"allowInsecure"}, Kind: "ret ok", Max: 1, Req: []string{"ok(op.ValidateIssuer($issuer, $allowInsecure))"}},
		{ID: "E1.issuer.dynamic", Fn: "op.issuerFromForwardedOrHost$1", P: []string{"allowInsecure"}, Kind: "ret ok", Max: 1, Req: []string{"def($p, url.Parse($path), 0)", "ok(url.Parse($path))", "ok(op.ValidateIssuerPath($p))"}},
		{ID: "E1.issuer.provider-construction", Fn: "op.NewProvider", P: []string{"config", "storage", "issuer"}, Kind: "ret ok", Max: 1, Req: []string{"ok($issuer($o.insecure))"}},
		{ID: "E8.discover.rp-asks-for-own-issuer", Fn: "client/rp.NewRelyingPartyOIDC", P: []string{"ctx", "issuer"}, Kind: "call", Pat: "client.Discover(_, $rp.issuer, $rp.httpClient, $rp.DiscoveryEndpoint)", Min: 1, Max: 1,
			Why: "the issuer the discovery document is compared with is the one the relying party was created for",
			Req: []string{"def($rp, &relyingParty{issuer: $issuer}) || eq($rp.issuer, $issuer)"}},
		{ID: "E8.discover.rs-asks-for-own-issuer", Fn: "client/rs.newResourceServer", P: []string{"ctx", "issuer"}, Kind: "call", Pat: "client.Discover(_, $rs.issuer, $rs.httpClient)", Min: 1, Max: 1,
			Req: []string{"def($rs, &resourceServer{issuer: $issuer})"}},
		{ID: "E1.discover.issuer-equal", Fn: "client.Discover", P: []string{"ctx", "issuer", "httpClient"}, Kind: "ret ok", Max: 1,
			Req: []string{"ok(httphelper.HttpRequest($httpClient, _, &$r0))", "eq($r0.Issuer, $issuer)"}},
	}
	register(&PropSpec{
		ID: "C19",
		Explanation: "Decides structurally, for every configuration: both discovery builders put IssuerFromContext(ctx) into Issuer (the value every token-creating call site passes as issuer - closed-world tables), build each endpoint URL with Absolute(issuer) from exactly the endpoint getter / Endpoints field that the corresponding router registers with Relative() for the handler of that endpoint (8+8 route rows, nil endpoints neither routed nor advertised; CheckSessionIframe is advertised without a route only while its field has no writer), take grant types / PKCE methods / auth methods from lists that append a value if and only if the capability predicate holds (the same predicate the token-endpoint dispatch tests, C05), and report request-object support from the flag that gates ParseRequestObject (C14); VerifyCodeChallenge implements S256; ValidateIssuer accepts only non-empty, parseable, host-carrying https (or opted-in http) issuers without query or fragment, and every issuer constructor and NewProvider propagate its error; client.Discover returns a document only if its issuer equals the requested one. Does not decide free-form absolute URLs of NewEndpointWithURL nor probing. Round 3: routes are decided by handler target (go/types reachability through factories, literals, method values, wrappers) instead of handler spelling; middleware installed by the library on its routers is reviewed (no URL / query / form rewriting, issuer interceptor in front of every endpoint route); Provider.endpoints is set during construction only.",
		RuleText:    "obligation = (rule, function, sink site) incl. route-table rows and literal-binding patterns; non-trivial when a guard fact or a table row was needed",
		Assumptions: []string{"chi routes exactly the registered patterns", "applications using NewEndpointWithURL supply a truthful absolute URL"},
		Trusted:     []string{"go/types, go/cfg (x/tools v0.50.0)", "chi router", "net/url"},
		Level:       "Sound static check of table agreement (advertised <-> served) and of the issuer predicates on all paths. It decides that the document is computed from the same sources as the routes, dispatch guards and token issuer, for all configurations; it does not execute any configuration.",
		Note:        "Trusted: go/types+go/cfg, chi, net/url.",
		Technique:   "static analysis: table extraction and agreement (routes, advertise lists, capability normal forms) + must-facts dataflow for the issuer predicates",
		Rules:       []string{"E1"},
		Run: func(c *Ctx) {
			RunE1(c, "C19", obs)
			RunRouteTargets(c, "E7.routes.provider", "op.CreateRouter", []routeRow{
				{"AuthorizationEndpoint", []string{"op.Authorize"}}, {"TokenEndpoint", []string{"op.Exchange"}}, {"IntrospectionEndpoint", []string{"op.Introspect"}},
				{"UserinfoEndpoint", []string{"op.Userinfo"}}, {"RevocationEndpoint", []string{"op.Revoke"}}, {"EndSessionEndpoint", []string{"op.EndSession"}},
				{"KeysEndpoint", []string{"op.Keys"}}, {"DeviceAuthorizationEndpoint", []string{"op.DeviceAuthorization"}}, {"discovery", []string{"op.Discover"}},
			}, providerRouteKey)
			RunRouteTargets(c, "E7.routes.server", "op.(*webServer).createRouter", []routeRow{
				{"Authorization", []string{"op.Server.Authorize"}}, {"Token", []string{"op.Server.CodeExchange"}}, {"Introspection", []string{"op.Server.Introspect"}},
				{"Userinfo", []string{"op.Server.UserInfo"}}, {"Revocation", []string{"op.Server.Revocation"}}, {"EndSession", []string{"op.Server.EndSession"}},
				{"JwksURI", []string{"op.Server.Keys"}}, {"DeviceAuthorization", []string{"op.Server.DeviceAuthorization"}}, {"discovery", []string{"op.Server.Discovery"}},
			}, serverRouteKey)
			RunRouterMiddleware(c, "E7.router.middleware", []string{"op"})
			RunIssuerCoverage(c, "E7.routes.issuer-interceptor", []string{"KeysEndpoint"})
			RunFieldSetOnlyIn(c, "E6.provider-endpoints-set-once", "op", "Provider", "endpoints", []string{"op.NewProvider"}, "the endpoints a Provider advertises are the ones its router was built with: the pointer is set during construction only")
			RunNoFieldWriters(c, "E6.checksession-unwritten", "op", "Endpoints", "CheckSessionIframe", "check_session_iframe is advertised from this field but no route exists: a writer needs a route")
			RunCallers(c, "E8.issuer.id-token-table", "op.CreateIDToken", []string{"op.CreateTokenResponse", "op.CreateDeviceTokenResponse", "op.CreateTokenExchangeResponse"}, "every ID token is issued with IssuerFromContext(ctx)")
			RunCallers(c, "E8.issuer.jwt-table", "op.CreateJWT", []string{"op.CreateAccessToken"}, "every JWT access token is issued with IssuerFromContext(ctx)")
			RunStaticImplements(c, "E7.provider-is-jwt-exchanger", "op", "Provider", "JWTAuthorizationGrantExchanger")
		},
	})
}

// RunAdvertiseIff: in fn, every `if <cond> { x = append(x, K) }` has cond == exactly one call of the table's method
// on the function's first parameter, and every table row occurs exactly once.
func RunAdvertiseIff(c *Ctx, rule, fn string, table map[string]string) {
	fi := c.P.Fn(fn)
	if fi == nil || fi.Body == nil {
		c.R.Fail("anchor-unresolved", fn, rule, "function not found")
		return
	}
	info := fi.Pkg.TypesInfo
	tb := &termBuilder{info: info, inl: map[types.Object]ast.Expr{}, fset: c.P.Fset}
	seen := map[string]int{}
	ast.Inspect(fi.Body, func(n ast.Node) bool {
		is, ok := n.(*ast.IfStmt)
		if !ok {
			return true
		}
		if len(is.Body.List) != 1 || is.Else != nil || is.Init != nil {
			return true
		}
		as, ok := is.Body.List[0].(*ast.AssignStmt)
		if !ok || len(as.Rhs) != 1 {
			return true
		}
		call, ok := unparen(as.Rhs[0]).(*ast.CallExpr)
		if !ok || len(call.Args) != 2 {
			return true
		}
		if id, ok := unparen(call.Fun).(*ast.Ident); !ok || id.Name != "append" {
			return true
		}
		k := tb.term(call.Args[1]).String()
		cond := tb.term(is.Cond)
		want, inTable := table[k]
		good := inTable && cond.K == "mcall" && cond.S == want && len(cond.A) == 1 && cond.A[0].K == "var" && fi.Sig.Params().Len() > 0 && cond.A[0].Obj == fi.Sig.Params().At(0)
		seen[k]++
		c.R.Obl(Obligation{Rule: rule, Func: fn, Construct: "advertise " + k, Pos: c.P.Position(is.Pos()), Discharged: good, Nontrivial: true, How: []string{"condition: " + cond.String()}})
		if !good {
			c.R.Find(Finding{Rule: rule, Func: fn, Construct: "advertise " + k + " under " + cond.String(), Pos: c.P.Position(is.Pos()),
				Msg: fmt.Sprintf("%s appends %s under the condition `%s`; the advertised list must contain it if and only if %s() holds (no extra conjunct, no other predicate)", fn, k, cond, want)})
		}
		return true
	})
	var ks []string
	for k := range table {
		ks = append(ks, k)
	}
	sort.Strings(ks)
	for _, k := range ks {
		if seen[k] != 1 {
			c.R.Find(Finding{Rule: rule, Func: fn, Construct: "advertise " + k + " rows", Pos: c.P.Position(fi.Pos()),
				Msg: fmt.Sprintf("%s must append %s exactly once under its capability predicate; found %d such statement(s)", fn, k, seen[k])})
		}
	}
}

// RunDispatchGuards: in op.Exchange every `case K:` whose body is `if <cond> { Handler(...); return }` tests exactly the
// capability predicate that op.GrantTypes uses for K (extra conjuncts only as comma-ok interface assertions).
func RunDispatchGuards(c *Ctx) {
	const rule = "E7.dispatch-guards"
	fi := c.P.Fn("op.Exchange")
	if fi == nil {
		c.R.Fail("anchor-unresolved", "op.Exchange", rule, "function not found")
		return
	}
	want := map[string]string{"oidc.GrantTypeRefreshToken": "GrantTypeRefreshTokenSupported", "oidc.GrantTypeClientCredentials": "GrantTypeClientCredentialsSupported",
		"oidc.GrantTypeTokenExchange": "GrantTypeTokenExchangeSupported", "oidc.GrantTypeBearer": "GrantTypeJWTAuthorizationSupported", "oidc.GrantTypeDeviceCode": "GrantTypeDeviceCodeSupported"}
	info := fi.Pkg.TypesInfo
	tb := &termBuilder{info: info, inl: map[types.Object]ast.Expr{}, fset: c.P.Fset}
	seen := map[string]bool{}
	ast.Inspect(fi.Body, func(n ast.Node) bool {
		cc, ok := n.(*ast.CaseClause)
		if !ok || len(cc.List) != 1 {
			return true
		}
		k := tb.term(cc.List[0]).String()
		w, inTable := want[k]
		if !inTable {
			return true
		}
		good := false
		condS := "(no guard)"
		if len(cc.Body) == 1 {
			if is, ok := cc.Body[0].(*ast.IfStmt); ok {
				cond := is.Cond
				condS = types.ExprString(cond)
				// strip `ok &&` of a comma-ok assertion in the init statement
				if be, isB := unparen(cond).(*ast.BinaryExpr); isB && be.Op.String() == "&&" && is.Init != nil {
					if id, isID := unparen(be.X).(*ast.Ident); isID && id.Name == "ok" {
						cond = be.Y
					}
				}
				t := tb.term(cond)
				good = t.K == "mcall" && t.S == w && len(t.A) == 1
			}
		}
		seen[k] = true
		c.R.Obl(Obligation{Rule: rule, Func: "op.Exchange", Construct: "case " + k, Pos: c.P.Position(cc.Pos()), Discharged: good, Nontrivial: true, How: []string{"guard: " + condS, "advertised under " + w + "()"}})
		if !good {
			c.R.Find(Finding{Rule: rule, Func: "op.Exchange", Construct: "case " + k + " guard " + condS, Pos: c.P.Position(cc.Pos()),
				Msg: fmt.Sprintf("the token endpoint serves %s under `%s` but discovery advertises it under %s(): served and advertised grant types must coincide", k, condS, w)})
		}
		return true
	})
	for k := range want {
		if !seen[k] {
			c.R.Find(Finding{Rule: "vacuity", Func: "op.Exchange", Construct: rule + " case " + k, Pos: "-", Msg: "no case for " + k + " found in op.Exchange"})
		}
	}
}

// RunNoFieldWriters: field pkg.typ.field is never assigned and never set in a composite literal.
func RunNoFieldWriters(c *Ctx, rule, pkg, typ, field, why string) {
	found := false
	for _, pk := range c.P.Scope {
		if shortPkg(pk.PkgPath) == pkg {
			if tn, ok := pk.Types.Scope().Lookup(typ).(*types.TypeName); ok {
				if st, ok := tn.Type().Underlying().(*types.Struct); ok {
					for i := 0; i < st.NumFields(); i++ {
						if st.Field(i).Name() == field {
							found = true
						}
					}
				}
			}
		}
	}
	if !found {
		c.R.Fail("anchor-unresolved", pkg+"."+typ+"."+field, rule, "field not found")
		return
	}
	n := 0
	for _, fi := range c.P.Funcs {
		if fi.Body == nil || fi.Ctl {
			continue
		}
		info := fi.Pkg.TypesInfo
		isField := func(sel *ast.SelectorExpr) bool {
			if sel.Sel.Name != field {
				return false
			}
			s, has := info.Selections[sel]
			if !has || s.Kind() != types.FieldVal {
				return false
			}
			named, _ := derefType(s.Recv()).(*types.Named)
			return named != nil && named.Obj().Name() == typ && named.Obj().Pkg() != nil && shortPkg(named.Obj().Pkg().Path()) == pkg
		}
		ast.Inspect(fi.Body, func(nd ast.Node) bool {
			switch s := nd.(type) {
			case *ast.AssignStmt:
				for _, l := range s.Lhs {
					if sel, ok := unparen(l).(*ast.SelectorExpr); ok && isField(sel) {
						n++
						c.R.Find(Finding{Rule: rule, Func: fi.Name, Construct: "write to " + typ + "." + field, Pos: c.P.Position(sel.Pos()), Msg: typ + "." + field + " is written: " + why})
					}
				}
			case *ast.CompositeLit:
				if named, _ := derefType(info.TypeOf(s)).(*types.Named); named != nil && named.Obj().Name() == typ && named.Obj().Pkg() != nil && shortPkg(named.Obj().Pkg().Path()) == pkg {
					for _, el := range s.Elts {
						if kv, ok := el.(*ast.KeyValueExpr); ok {
							if id, ok := kv.Key.(*ast.Ident); ok && id.Name == field {
								n++
								c.R.Find(Finding{Rule: rule, Func: fi.Name, Construct: "literal sets " + typ + "." + field, Pos: c.P.Position(kv.Pos()), Msg: typ + "." + field + " is set in a literal: " + why})
							}
						}
					}
				}
			}
			return true
		})
	}
	// package-level initialisers (DefaultEndpoints)
	for _, pk := range c.P.Scope {
		if pk.PkgPath == ctlPkgPath {
			continue
		}
		for _, f := range pk.Syntax {
			if excludedFile(c.P.Fset.Position(f.Pos()).Filename) {
				continue
			}
			for _, d := range f.Decls {
				gd, ok := d.(*ast.GenDecl)
				if !ok {
					continue
				}
				ast.Inspect(gd, func(nd ast.Node) bool {
					cl, ok := nd.(*ast.CompositeLit)
					if !ok {
						return true
					}
					if named, _ := derefType(pk.TypesInfo.TypeOf(cl)).(*types.Named); named != nil && named.Obj().Name() == typ && strings.HasSuffix(named.Obj().Pkg().Path(), "/"+pkg) {
						for _, el := range cl.Elts {
							if kv, ok := el.(*ast.KeyValueExpr); ok {
								if id, ok := kv.Key.(*ast.Ident); ok && id.Name == field {
									n++
									c.R.Find(Finding{Rule: rule, Func: shortPkg(pk.PkgPath) + ".init", Construct: "literal sets " + typ + "." + field, Pos: c.P.Position(kv.Pos()), Msg: typ + "." + field + " is set in a package-level literal: " + why})
								}
							}
						}
					}
					return true
				})
			}
		}
	}
	c.R.Obl(Obligation{Rule: rule, Func: pkg + "." + typ, Construct: "no writer of field " + field, Pos: "-", Discharged: n == 0, Nontrivial: true})
}

// RunStaticImplements: *pkg.typ implements interface pkg.iface (checked, not assumed).
func RunStaticImplements(c *Ctx, rule, pkg, typ, iface string) {
	for _, pk := range c.P.Scope {
		if shortPkg(pk.PkgPath) != pkg {
			continue
		}
		tn, _ := pk.Types.Scope().Lookup(typ).(*types.TypeName)
		in, _ := pk.Types.Scope().Lookup(iface).(*types.TypeName)
		if tn == nil || in == nil {
			break
		}
		it, _ := in.Type().Underlying().(*types.Interface)
		good := it != nil && types.Implements(types.NewPointer(tn.Type()), it)
		c.R.Obl(Obligation{Rule: rule, Func: pkg + "." + typ, Construct: "implements " + iface, Pos: c.P.Position(tn.Pos()), Discharged: good, Nontrivial: true})
		if !good {
			c.R.Find(Finding{Rule: rule, Func: pkg + "." + typ, Construct: "does not implement " + iface, Pos: c.P.Position(tn.Pos()),
				Msg: fmt.Sprintf("*%s.%s no longer implements %s: the jwt-bearer grant is advertised (GrantTypeJWTAuthorizationSupported) but the dispatch assertion fails", pkg, typ, iface)})
		}
		return
	}
	c.R.Fail("anchor-unresolved", pkg+"."+typ, rule, "type or interface not found")
}
