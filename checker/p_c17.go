package main

// C17 — RP callback exchanges a code only if state matches its signed cookie; PKCE bound (DESIGN §5 C17).

func init() {
	guarP("C17", "client/rp.tryReadStateCookie", []string{"w", "r", "rp"},
		[]string{"stateChecked($r0, $r, $rp)"},
		[]string{`nil($rp.CookieHandler()) || (ok($rp.CookieHandler().CheckQueryCookie($r, rp.stateParam)) && def($r0, $rp.CookieHandler().CheckQueryCookie($r, rp.stateParam), 0))`})
	guarP("C17", "http.(*CookieHandler).CheckQueryCookie", []string{"c", "r", "name"},
		[]string{"cookieEqualsQuery($r0, $r, $name)"},
		[]string{"def($r0, $c.CheckCookie($r, $name), 0)", "ok($c.CheckCookie($r, $name))", "eq($r0, $r.FormValue($name))"})
	guarP("C17", "http.(*CookieHandler).CheckCookie", []string{"c", "r", "name"},
		[]string{"cookieAuthentic($r0, $r, $name)"},
		[]string{"def($cookie, $r.Cookie($name), 0)", "ok($r.Cookie($name))", "ok($c.securecookie.Decode($name, $cookie.Value, &$r0))"})
	obs := []Ob{
		{ID: "E1.rp.callback.exchange", Fn: "client/rp.CodeExchangeHandler$1", Kind: "call", Pat: "rp.CodeExchange(__)", Max: 1,
			Why: "no request to the provider unless the state of the callback equals the state in the signed cookie",
			Req: []string{"stateChecked($state, $r, $rp)", `eq($r.FormValue("error"), "")`}},
		{ID: "E1.rp.callback.callback", Fn: "client/rp.CodeExchangeHandler$1", Kind: "call", Pat: "$callback(_, _, $tokens, $state, _)", Not: "$rp.ErrorHandler()(__)", Max: 1,
			Req: []string{"stateChecked($state, $r, $rp)", `def($tokens, rp.CodeExchange(_, $r.FormValue("code"), $rp, __), 0)`, `ok(rp.CodeExchange(_, $r.FormValue("code"), $rp, __))`}},
		{ID: "E1.rp.callback.error-handler", Fn: "client/rp.CodeExchangeHandler$1", Kind: "call", Pat: "$rp.ErrorHandler()(__)", Max: 1,
			Req: []string{"stateChecked($state, $r, $rp)"}},
		{ID: "E8.rp.callback.verifier-from-cookie", Fn: "client/rp.CodeExchangeHandler$1", Kind: "call", Pat: "rp.WithCodeVerifier($v)", Max: 1,
			Why: "the code_verifier sent to the token endpoint is the value of the authentic pkce cookie",
			Req: []string{"def($v, $rp.CookieHandler().CheckCookie($r, rp.pkceCode), 0)", "ok($rp.CookieHandler().CheckCookie($r, rp.pkceCode))", "true($rp.IsPKCE())"}},
		{ID: "E8.rp.pkce.same-verifier", Fn: "client/rp.GenerateAndStoreCodeChallenge", P: []string{"w", "rp"}, Kind: "ret ok", Pat: "ret(oidc.NewSHACodeChallenge($v), nil)", Max: 1,
			Why: "the verifier stored in the cookie is the one hashed into the challenge",
			Req: []string{"ok($rp.CookieHandler().SetCookie($w, rp.pkceCode, $v))", "def($v, base64.RawURLEncoding.EncodeToString(__))"}},
		{ID: "E8.rp.pkce.s256", Fn: "client/rp.WithCodeChallenge$1", Kind: "ret any", Max: 1,
			Pat: `ret([]oauth2.AuthCodeOption{0: oauth2.SetAuthURLParam("code_challenge", $c), 1: oauth2.SetAuthURLParam("code_challenge_method", "S256")})`},
		{ID: "E8.rp.pkce.verifier-param", Fn: "client/rp.WithCodeVerifier$1", Kind: "ret any", Max: 1,
			Pat: `ret([]oauth2.AuthCodeOption{0: oauth2.SetAuthURLParam("code_verifier", $v)})`},
		{ID: "E8.rp.authurl.same-state", Fn: "client/rp.AuthURLHandler$1", Kind: "call", Pat: "http.Redirect(_, _, rp.AuthURL($state, $rp, __), _)", Max: 1,
			Why: "the state put into the cookie is the state put into the authorization URL",
			Req: []string{"ok(rp.trySetStateCookie(_, $state, $rp))", "def($state, $stateFn())"}},
		{ID: "E8.rp.authurl.challenge", Fn: "client/rp.AuthURLHandler$1", Kind: "call", Pat: "rp.WithCodeChallenge($c)", Max: 1,
			Req: []string{"true($rp.IsPKCE())", "def($c, rp.GenerateAndStoreCodeChallenge(_, $rp), 0)", "ok(rp.GenerateAndStoreCodeChallenge(_, $rp))"}},
		{ID: "E8.rp.authurl.config", Fn: "client/rp.AuthURL", P: []string{"state", "rp"}, Kind: "ret any", Pat: "ret($rp.OAuthConfig().AuthCodeURL($state, __))", Max: 1, Only: true},
		{ID: "E1.rp.setcookie", Fn: "client/rp.trySetStateCookie", P: []string{"w", "state", "rp"}, Kind: "ret ok",
			Req: []string{"nil($rp.CookieHandler()) || ok($rp.CookieHandler().SetCookie($w, rp.stateParam, $state))"}},
		{ID: "E8.rp.cookie.set", Fn: "http.(*CookieHandler).SetCookie", P: []string{"c", "w", "name", "value"}, Kind: "call", Pat: "http.SetCookie($w, &Cookie{Name: $name, Value: $enc})", Max: 1,
			Req: []string{"def($enc, $c.securecookie.Encode($name, $value), 0)", "ok($c.securecookie.Encode($name, $value))"}},
	}
	register(&PropSpec{
		ID: "C17",
		Explanation: "Decides, for all paths: the RP callback handler calls CodeExchange, the application callback and the error handler only after tryReadStateCookie succeeded; with a cookie handler that requires CheckQueryCookie(r, \"state\"), which requires an authentic cookie of that very name (securecookie.Decode with the same name) whose value equals r.FormValue(\"state\"); the code verifier passed to the token request is the value of the authentic pkce cookie; GenerateAndStoreCodeChallenge stores and hashes the same verifier; WithCodeChallenge sets method S256; AuthURLHandler puts the same state into cookie and URL and AuthURL delegates to OAuthConfig().AuthCodeURL(state, ...). Does not decide securecookie's MAC nor browser behaviour. Round 3: the cookie codec is built from the caller's keys themselves.",
		RuleText:    "obligation = (rule, function, sink site); non-trivial when guard facts were needed",
		Assumptions: []string{"securecookie authenticates name and value", "oauth2.Config.AuthCodeURL emits client id, redirect URI, scopes and state"},
		Trusted:     []string{"go/types, go/cfg (x/tools v0.50.0)", "gorilla/securecookie", "golang.org/x/oauth2"},
		Level:       "Sound static check (all paths) that the state check dominates exchange and callbacks and that verifier/challenge/state values are the same values on both sides.",
		Note:        "Trusted: go/types+go/cfg, securecookie, oauth2.",
		Technique:   "static analysis: assume/guarantee must-facts dataflow over go/cfg; same-value binding patterns; getter-anchored who-may-write table for the PKCE switch",
		Rules:       []string{"E1", "E6.R-closure-shared"},
		Run: func(c *Ctx) {
			RunE1(c, "C17", obs)
			// per-request values (state, code challenge, options) must not live in variables shared by all requests of a handler
			RunSliceAndClosureWrites(c, []string{"client/rp"}, nil)
			// "with PKCE enabled": the switch is what the application chose - set by the WithPKCE option only, never recomputed
			RunGetterFieldWriters(c, "E6.rp.pkce-writers", "client/rp.(*relyingParty).IsPKCE", []string{"client/rp.WithPKCE"}, "PKCE is switched by the WithPKCE option only (a relying party that asked for PKCE never runs a flow without it)")
		},
	})
}
