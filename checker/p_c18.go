package main

import "strings"

// C18 — logout redirects only to post-logout URIs registered for the proven client (DESIGN §5 C18).

func init() {
	const hint = "op.VerifyIDTokenHint(_, $req.IdTokenHint, _)"
	const hintOK = "(ok(" + hint + ") || errAs(" + hint + ", IDTokenHintExpiredError{}))"
	P := []string{"ctx", "req", "ender"}
	obs := []Ob{
		{ID: "E1.logout.redirect-registered", Fn: "op.ValidateEndSessionRequest", P: P, Kind: "store", Pat: "store($session.RedirectURI, $req.PostLogoutRedirectURI)", Max: 1,
			Why: "the requested post_logout_redirect_uri is used only if registered for the client proven by the hint's azp (or named by client_id without a hint)",
			Req: []string{
				"def($client, _.GetClientByClientID(_, $req.ClientID), 0)", "ok(_.GetClientByClientID(_, $req.ClientID))",
				"ok(op.ValidateEndSessionPostLogoutRedirectURI($req.PostLogoutRedirectURI, $client))",
				`eq($req.IdTokenHint, "") || (eq($req.ClientID, $claims.GetAuthorizedParty()) && def($claims, ` + hint + `, 0) && ` + hintOK + `)`,
			}},
		{ID: "E1.logout.client-id-agrees", Fn: "op.ValidateEndSessionRequest", P: P, Kind: "store", Pat: "store($req.ClientID, $claims.GetAuthorizedParty())", Max: 1,
			Why: "a client_id contradicting the hint's authorized party is rejected before it is overwritten",
			Req: []string{"def($claims, " + hint + ", 0)", hintOK, `eq($req.ClientID, "") || eq($req.ClientID, $claims.GetAuthorizedParty())`}},
		{ID: "E1.logout.client-id.single-writer", Fn: "op.ValidateEndSessionRequest", P: P, Kind: "store", Pat: "store($req.ClientID, _)", Max: 1},
		{ID: "E8.logout.session-user", Fn: "op.ValidateEndSessionRequest", P: P, Kind: "store", Pat: "store($session.UserID, $claims.GetSubject())", Max: 1,
			Req: []string{"def($claims, " + hint + ", 0)", hintOK}},
		{ID: "E8.logout.session-user.single-writer", Fn: "op.ValidateEndSessionRequest", P: P, Kind: "store", Pat: "store($session.UserID, _)", Max: 1},
		{ID: "E8.logout.session-client", Fn: "op.ValidateEndSessionRequest", P: P, Kind: "store", Pat: "store($session.ClientID, $client.GetID())", Max: 1,
			Req: []string{"def($client, _.GetClientByClientID(_, $req.ClientID), 0)", "ok(_.GetClientByClientID(_, $req.ClientID))"}},
		{ID: "E8.logout.session-client.single-writer", Fn: "op.ValidateEndSessionRequest", P: P, Kind: "store", Pat: "store($session.ClientID, _)", Not: "store($req.ClientID, _)", Max: 1},
		{ID: "E8.logout.state-appended", Fn: "op.ValidateEndSessionRequest", P: P, Kind: "store", Pat: `store($session.RedirectURI, op.mergeQueryParams($u, url.Values{"state": {$req.State}}))`, Max: 1,
			Req: []string{"def($u, url.Parse($session.RedirectURI), 0)", "ok(url.Parse($session.RedirectURI))", `neq($req.State, "")`}},
		{ID: "E8.logout.redirect.writers", Fn: "op.ValidateEndSessionRequest", P: P, Kind: "store", Pat: "store($session.RedirectURI, _)", Max: 2},
		{ID: "E8.logout.default", Fn: "op.ValidateEndSessionRequest", P: P, Kind: "store", Pat: "store($session, &EndSessionRequest{RedirectURI: $ender.DefaultLogoutRedirectURI()})", Max: 1},
		// registration predicate
		{ID: "E1.logout.registered.accept", Fn: "op.ValidateEndSessionPostLogoutRedirectURI", P: []string{"uri", "client"}, Kind: "ret ok",
			Req: []string{"member($uri, $client.PostLogoutRedirectURIs()) || (is($client, HasRedirectGlobs) && some(_.PostLogoutRedirectURIGlobs(), true(res(0, path.Match(ELEM, $uri)))))"}},
		// the hint verifier: expired class only from the three time checks
		{ID: "E1.hint.expired-class", Fn: "op.VerifyIDTokenHint", P: []string{"ctx", "token", "v", "claims", "err"}, Kind: "ret fail", Pat: "ret($claims, IDTokenHintExpiredError{})", Min: 3, Max: 3,
			Why: "an 'expired' hint error (which callers may accept) is produced only by the time checks, after issuer/signature/acr passed (C02)",
			Req: []string{"fail(oidc.CheckExpiration($claims, $v.Offset)) || fail(oidc.CheckIssuedAt($claims, $v.MaxAgeIAT, $v.Offset)) || fail(oidc.CheckAuthTime($claims, $v.MaxAge))"}},
		{ID: "E1.hint.claims-returned", Fn: "op.VerifyIDTokenHint", P: []string{"ctx", "token", "v", "claims", "err"}, Kind: "ret any", Pat: "ret($claims, _)", Max: 4},
		{ID: "E8.hint.verifier-per-request-issuer", Fn: "op.(*Provider).IDTokenHintVerifier", P: []string{"o", "ctx"}, Kind: "ret any", Pat: "ret(op.NewIDTokenHintVerifier(op.IssuerFromContext($ctx), $o.idTokenHinKeySet, __))", Max: 1, Only: true,
			Why: "the hint must name the issuer of the request at hand (a provider may serve several issuers)"},
		{ID: "E8.hint.verifier-per-request-issuer.only", Fn: "op.(*Provider).IDTokenHintVerifier", Kind: "ret any", Max: 1},
		{ID: "E8.hint.verifier.constructor-binds-configuration", Fn: "op.NewIDTokenHintVerifier", P: []string{"issuer", "keySet"}, Kind: "ret any", Pat: "ret(&IDTokenHintVerifier{Issuer: $issuer, KeySet: $keySet})", Max: 1, Only: true},
		{ID: "E8.hint.verifier.constructor-binds-configuration.only", Fn: "op.NewIDTokenHintVerifier", Kind: "ret any", Max: 1},
		{ID: "E1.hint.caller.authorize", Fn: "op.ValidateAuthReqIDTokenHint", P: []string{"ctx", "idTokenHint", "verifier"}, Kind: "ret ok", Pat: "ret($claims.GetSubject(), nil)", Max: 1,
			Req: []string{"def($claims, op.VerifyIDTokenHint(_, $idTokenHint, $verifier), 0)", "ok(op.VerifyIDTokenHint(_, $idTokenHint, $verifier)) || errAs(op.VerifyIDTokenHint(_, $idTokenHint, $verifier), IDTokenHintExpiredError{})"}},
	}
	for _, o := range obs {
		if strings.HasPrefix(o.ID, "E8.hint.verifier-per-request-issuer") {
			sharedObs["C15"] = append(sharedObs["C15"], o) // token exchange verifies subject / actor tokens through this verifier
		}
	}
	register(&PropSpec{
		ID: "C18",
		Explanation: "Decides, for all paths: ValidateEndSessionRequest assigns the requested post_logout_redirect_uri to the session only after the client named by req.ClientID was fetched and ValidateEndSessionPostLogoutRedirectURI accepted the URI for it, and - with a hint - only after VerifyIDTokenHint succeeded or failed in the 'expired' class, a contradicting client_id was rejected and req.ClientID was set to the hint's authorized party (single writers for ClientID, UserID, session.ClientID); the session user is the hint's subject, the session client the fetched client's id, a state is appended by mergeQueryParams to the already chosen URI; the registration predicate accepts only exact equality with a registered URI or a path.Match of an opted-in glob; VerifyIDTokenHint builds IDTokenHintExpiredError only from the three time checks and both callers accept the expired class only via errors.As. The storage-chosen redirect of TerminateSessionFromRequest is by design and not decided. Round 3: the id_token_hint key set is application-supplied or the provider's storage-backed key set; the shared claim predicates used by the hint verifier are part of this verdict.",
		RuleText:    "obligation = (rule, function, sink site) incl. single-writer stores; non-trivial when guard facts were needed",
		Assumptions: []string{"CanTerminateSessionFromRequest storages choose their own redirect (documented)"},
		Trusted:     []string{"go/types, go/cfg (x/tools v0.50.0)", "stdlib path.Match, net/url"},
		Level:       "Sound static check (all paths) that the only store of the requested logout URI is dominated by client proof and registration, with value bindings for session user/client and state.",
		Note:        "Trusted: go/types+go/cfg, stdlib. Both EndSession handlers are bound to this validation in C08.",
		Technique:   "static analysis: must-facts dataflow over go/cfg with store sinks and single-writer rules",
		Rules:       []string{"E1"},
		Run: func(c *Ctx) {
			RunE1(c, "C18", append(append([]Ob{}, obs...), sharedObs["C18"]...))
			// the id_token_hint is verified against the provider's own signing keys unless the application configures another key set
			RunFieldSources(c, "E8.hint.keyset-default", "op", "Provider", "idTokenHinKeySet", "OpenIDKeySet", "an id_token_hint must be verified with the provider's own (storage-backed) key set unless the application explicitly supplies one")
			RunCallers(c, "E1.logout-validation-table", "op.ValidateEndSessionRequest", []string{"op.EndSession", "op.(*LegacyServer).EndSession"}, "logout entry points")
		},
	})
}
