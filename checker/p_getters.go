package main

// Getter-binding obligations for the request types whose getters the OP-side checks read through (same rule as
// E8.claims.getter.* in C01): a getter hands out exactly the decoded field, on every return.

func getterObs(prefix, recvType, recvVar string, fields map[string]string, why string) []Ob {
	var out []Ob
	for _, g := range sortedKeysS(fields) {
		expr := "$" + recvVar + "." + fields[g]
		fn := "oidc.(*" + recvType + ")." + g
		out = append(out,
			Ob{ID: prefix + "." + g, Fn: fn, P: []string{recvVar}, Kind: "ret any", Pat: "ret(" + expr + ")", Why: why},
			Ob{ID: prefix + "." + g + ".only", Fn: fn, P: []string{recvVar}, Kind: "ret any", Nots: []string{"ret(" + expr + ")"}, Forbid: true, Why: "no other value is handed to the checks"})
	}
	return out
}

func sortedKeysS(m map[string]string) []string {
	var ks []string
	for k := range m {
		ks = append(ks, k)
	}
	for i := range ks {
		for j := i + 1; j < len(ks); j++ {
			if ks[j] < ks[i] {
				ks[i], ks[j] = ks[j], ks[i]
			}
		}
	}
	return ks
}

func init() {
	jwt := getterObs("E8.assertion.getter", "JWTTokenRequest", "j", map[string]string{
		"GetIssuer": "Issuer", "GetSubject": "Subject", "GetAudience": "Audience", "GetExpiration": "ExpiresAt.AsTime()", "GetIssuedAt": "IssuedAt.AsTime()", "GetScopes": "Scopes",
	}, "the assertion checks (issuer, subject, audience, exp, iat) read the decoded claim itself")
	sharedObs["C14"] = append(sharedObs["C14"], jwt...)
	ro := getterObs("E8.request-object.getter", "RequestObject", "r", map[string]string{"GetIssuer": "Issuer"}, "the request object's issuer selects the client key set")
	sharedObs["C14"] = append(sharedObs["C14"], ro...)
	ar := getterObs("E8.authrequest.getter", "AuthRequest", "a", map[string]string{
		"GetRedirectURI": "RedirectURI", "GetResponseType": "ResponseType", "GetState": "State", "GetResponseMode": "ResponseMode",
	}, "error redirects and responses read the parsed request parameter itself")
	sharedObs["C03"] = append(sharedObs["C03"], ar...)
	sharedObs["C11"] = append(sharedObs["C11"], ar...)
}

// Shared low-level helpers several properties stand on.
func init() {
	httpReq := []Ob{
		{ID: "E1.http.request.success-means-decoded", Fn: "http.HttpRequest", P: []string{"client", "req", "response"}, Kind: "ret ok",
			Why: "a nil error means: the request was sent, the body was read completely, the status was 200 and the body was decoded into the caller's value - an empty, unreadable or undecodable answer is a failure (a JWKS / discovery / token download must not 'succeed' with nothing)",
			Req: []string{"def($resp, $client.Do($req), 0)", "ok($client.Do($req))", "def($body, io.ReadAll($resp.Body), 0)", "ok(io.ReadAll($resp.Body))",
				"eq($resp.StatusCode, http.StatusOK)", "ok(json.Unmarshal($body, $response))"}},
	}
	for _, p := range []string{"C13", "C19", "C09", "C02"} {
		sharedObs[p] = append(sharedObs[p], httpReq...)
	}
	cookie := []Ob{
		{ID: "E8.cookie.handler.keys", Fn: "http.NewCookieHandler", P: []string{"hashKey", "encryptKey", "opts"}, Kind: "call", Pat: "securecookie.New($hashKey, $encryptKey)", Max: 1,
			Why: "the MAC key of the state / PKCE cookies is the caller's hash key itself (not padded, truncated or defaulted): an unset key must stay unusable and different keys must stay different"},
	}
	sharedObs["C17"] = append(sharedObs["C17"], cookie...)
}
