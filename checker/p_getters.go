package main

// Getter-binding obligations for the request types whose getters the OP-side checks read through (same rule as
// E8.claims.getter.* in C01): a getter hands out exactly the decoded field, on every return.

func getterObs(prefix, recvType, recvVar string, fields map[string]string, why string) []Ob {
	var out []Ob
	for _, g := range sortedKeysS(fields) {
		expr := "$" + recvVar + "." + fields[g]
		fn := "oidc.(*" + recvType + ")." + g
		out = append(out,
			Ob{ID: prefix + "." + g, Fn: fn, P: []string{recvVar}, Kind: "ret any", Pat: "ret(" + expr + ")", Why: why},
			Ob{ID: prefix + "." + g + ".only", Fn: fn, P: []string{recvVar}, Kind: "ret any", Nots: []string{"ret(" + expr + ")"}, Forbid: true, Why: "no other value is handed to the checks"})
	}
	return out
}

func sortedKeysS(m map[string]string) []string {
	var ks []string
	for k := range m {
		ks = append(ks, k)
	}
	for i := range ks {
		for j := i + 1; j < len(ks); j++ {
			if ks[j] < ks[i] {
				ks[i], ks[j] = ks[j], ks[i]
			}
		}
	}
	return ks
}

func init() {
	jwt := getterObs("E8.assertion.getter", "JWTTokenRequest", "j", map[string]string{
		"GetIssuer": "Issuer", "GetSubject": "Subject", "GetAudience": "Audience", "GetExpiration": "ExpiresAt.AsTime()", "GetIssuedAt": "IssuedAt.AsTime()", "GetScopes": "Scopes",
	}, "the assertion checks (issuer, subject, audience, exp, iat) read the decoded claim itself")
	sharedObs["C14"] = append(sharedObs["C14"], jwt...)
	ro := getterObs("E8.request-object.getter", "RequestObject", "r", map[string]string{"GetIssuer": "Issuer"}, "the request object's issuer selects the client key set")
	sharedObs["C14"] = append(sharedObs["C14"], ro...)
	ar := getterObs("E8.authrequest.getter", "AuthRequest", "a", map[string]string{
		"GetRedirectURI": "RedirectURI", "GetResponseType": "ResponseType", "GetState": "State", "GetResponseMode": "ResponseMode",
	}, "error redirects and responses read the parsed request parameter itself")
	sharedObs["C03"] = append(sharedObs["C03"], ar...)
	sharedObs["C11"] = append(sharedObs["C11"], ar...)
}

// Shared low-level helpers several properties stand on.
func init() {
	httpReq := []Ob{
		{ID: "E1.http.request.success-means-decoded", Fn: "http.HttpRequest", P: []string{"client", "req", "response"}, Kind: "ret ok",
			Why: "a nil error means: the request was sent, the body was read completely, the status was 200 and the body was decoded into the caller's value - an empty, unreadable or undecodable answer is a failure (a JWKS / discovery / token download must not 'succeed' with nothing)",
			Req: []string{"def($resp, $client.Do($req), 0)", "ok($client.Do($req))", "def($body, io.ReadAll($resp.Body), 0)", "ok(io.ReadAll($resp.Body))",
				"eq($resp.StatusCode, http.StatusOK)", "ok(json.Unmarshal($body, $response))"}},
	}
	for _, p := range []string{"C13", "C19", "C09", "C02"} {
		sharedObs[p] = append(sharedObs[p], httpReq...)
	}
	cookie := []Ob{
		{ID: "E8.cookie.handler.keys", Fn: "http.NewCookieHandler", P: []string{"hashKey", "encryptKey", "opts"}, Kind: "call", Pat: "securecookie.New($hashKey, $encryptKey)", Max: 1,
			Why: "the MAC key of the state / PKCE cookies is the caller's hash key itself (not padded, truncated or defaulted): an unset key must stay unusable and different keys must stay different"},
	}
	sharedObs["C17"] = append(sharedObs["C17"], cookie...)
}

// Error responders answer with the error they were given (after the reviewed normalisation): the OAuth error code a
// handler chose (slow_down, authorization_pending, invalid_grant ...) is the one the client receives.
func init() {
	resp := []Ob{
		{ID: "E8.error-responder.request-error", Fn: "op.RequestError", P: []string{"w", "r", "err", "logger"}, Kind: "call", Pat: "httphelper.MarshalJSONWithStatus($w, $e, _)", Max: 1,
			Why: "the error document is the caller's error, normalised by DefaultToServerError only", Req: []string{"def($e, oidc.DefaultToServerError($err, _))"}},
		{ID: "E8.error-responder.request-error.only", Fn: "op.RequestError", Kind: "call", Pat: "httphelper.MarshalJSONWithStatus(__)", Max: 1, Why: "one answer, the one above"},
		// WriteError, spelled through the private writeError helper or answering directly; the two cases are told apart by the
		// path condition (errors.As matched a StatusError or not), not by the spelling of the argument
		{ID: "E8.error-responder.write-error.status", AltOf: "E8.error-responder.write-error.status-error", Fn: "op.WriteError", P: []string{"w", "r", "err", "logger"}, Kind: "call", Pat: "op.writeError($w, $r, $e, $se.statusCode, _)",
			When: []string{"errAs($err, $se)"}, Why: "a StatusError is answered with its own parent error and status", Req: []string{"def($e, oidc.DefaultToServerError($se.parent, _))"}},
		{ID: "E8.error-responder.write-error.status.direct", AltOf: "E8.error-responder.write-error.status-error", Fn: "op.WriteError", P: []string{"w", "r", "err", "logger"}, Kind: "call", Pat: "httphelper.MarshalJSONWithStatus($w, $e, $code)",
			When: []string{"errAs($err, $se)"}, Why: "a StatusError is answered with its own parent error and status", Req: []string{"def($e, oidc.DefaultToServerError($se.parent, _))", "def($code, $se.statusCode)"}},
		{ID: "E8.error-responder.write-error.plain", AltOf: "E8.error-responder.write-error.plain-error", Fn: "op.WriteError", P: []string{"w", "r", "err", "logger"}, Kind: "call", Pat: "op.writeError($w, $r, $e, __)",
			When: []string{"notErrAs($err, _)"}, Why: "any other error is answered as itself, normalised by DefaultToServerError only", Req: []string{"def($e, oidc.DefaultToServerError($err, _))"}},
		{ID: "E8.error-responder.write-error.plain.direct", AltOf: "E8.error-responder.write-error.plain-error", Fn: "op.WriteError", P: []string{"w", "r", "err", "logger"}, Kind: "call", Pat: "httphelper.MarshalJSONWithStatus($w, $e, _)",
			When: []string{"notErrAs($err, _)"}, Why: "any other error is answered as itself, normalised by DefaultToServerError only", Req: []string{"def($e, oidc.DefaultToServerError($err, _))"}},
		{ID: "E8.error-responder.write-error.only", Fn: "op.WriteError", Kind: "call", Pat: "op.writeError(__)", Max: 2, Opt: true},
		{ID: "E8.error-responder.write-error.only.direct", Fn: "op.WriteError", Kind: "call", Pat: "httphelper.MarshalJSONWithStatus(__)", Max: 1, Opt: true},
		{ID: "E8.error-responder.write", Fn: "op.writeError", P: []string{"w", "r", "err", "statusCode", "logger"}, Kind: "call", Pat: "httphelper.MarshalJSONWithStatus($w, $err, $statusCode)", Max: 1, Opt: true},
	}
	for _, p := range []string{"C16", "C10", "C09"} {
		sharedObs[p] = append(sharedObs[p], resp...)
	}
}
