package main

// C20 — shared instances are race-free and isolated: no hidden writes to global state (DESIGN §5 C20).

var c20ParamSliceAllow = []allowSite{
	{"op.ValidateAuthReqScopes", "slices.DeleteFunc(scopes)", "filter-and-return by contract, exactly like slices.DeleteFunc itself: the function returns the filtered slice and its only in-module callers (ValidateAuthRequestClient, LegacyServer.VerifyAuthRequest path) assign the result back to the very field they passed (authReq.Scopes = ...), a per-request object that is not shared"},
	{"http.ConcatenateJSON", "first[(len(first) - 1)]", "append-style byte-slice builder: the result reuses and extends `first` exactly like append(first, ...) would; the argument is consumed by contract and is not a shared instance (no in-module caller)"},
}

func init() {
	pkgs := []string{"op", "oidc", "client", "client/rp", "client/rs", "client/profile", "client/tokenexchange", "http", "crypto", "strings"}
	register(&PropSpec{
		ID: "C20",
		Explanation: "Decides structurally over all of pkg/...: (R-global) no assignment outside init writes a package-level variable or memory that may alias one - aliasing is tracked field-based and flow-insensitively (a pointer/map/slice read from a global taints locals, struct fields via literals and assignments, parameters and results along static calls; a store through any tainted prefix is reported); (R-foreign) no field of an *http.Client is written unless the client is a by-value copy or was allocated in the same function; (R-getter) no Get*/Is*/Has* method writes through its receiver; (R-frozen) every field store to the shared-instance types (Provider, webServer, LegacyServer, relyingParty, resourceServer, remoteKeySet, CookieHandler, OAuthTokenExchange, jwtProfileTokenSource) happens in a constructor, in an option literal applied during construction, under the type's own mutex, or in a nil-guarded lazy initialiser that every constructor provably calls before returning (must-call on the constructor's CFG). This decides the isolation clause (defaults and caller-supplied clients keep their values) and the write-discipline half of race freedom. It does not decide absence of races in general (no happens-before model of application goroutines) nor races inside third-party values held in fields.",
		RuleText:    "obligation = (rule, function, store site / accessor / constructor); non-trivial for every store that touches a tracked type or alias; zero-expected rules carry positive controls",
		Assumptions: []string{"values of function type, interfaces and third-party objects stored in fields are themselves safe for concurrent use", "an instance is shared only after its constructor returned"},
		Trusted:     []string{"go/types (x/tools v0.50.0)"},
		Level:       "Sound (field-based, flow-insensitive, over-approximating) static check of the isolation clause and of the write discipline that race freedom of the shared instance types relies on. Race freedom in general is not decided.",
		Note:        "Trusted: go/types. The shared-instance table (types, constructors, lazy initialisers, mutex) is reviewed and frozen in the checker.",
		Technique:   "static analysis: who-may-write / alias-taint analysis over the typed AST, lock-region and must-call rules",
		Rules:       []string{"E6.R-global", "E6.R-foreign", "E6.R-getter", "E6.R-param-slice", "E6.R-closure-shared"},
		Run: func(c *Ctx) {
			RunGlobalWrites(c, pkgs)
			RunForeignClient(c, pkgs)
			RunGetters(c, pkgs)
			RunFrozen(c)
			RunSliceAndClosureWrites(c, pkgs, c20ParamSliceAllow)
		},
	})
}
