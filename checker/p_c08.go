package main

import "strings"

// C08 — only live tokens are honoured; revocation and logout take effect everywhere (DESIGN §5 C08).

func init() {
	// the three readers of an access token: (token id, subject) only from a decrypted "id:subject" pair or a verified JWT
	readerReq := func(crypto string) []string {
		return []string{
			"(ok(" + crypto + ".Decrypt($accessToken)) && segs($plain, \":\", 2) && def($plain, " + crypto + ".Decrypt($accessToken), 0))" +
				" || (fail(" + crypto + ".Decrypt($accessToken)) && ok(op.VerifyAccessToken(_, $accessToken, _)))",
		}
	}
	// "didTryToken" is an event (never invalidated): the provider looked at the presented string as one of its own access tokens
	tried := func(crypto string) []string {
		return []string{"ok(" + crypto + ".Decrypt($accessToken)) || fail(" + crypto + ".Decrypt($accessToken))"}
	}
	for _, fn := range []string{"op.getTokenIDAndSubject", "op.getTokenIDAndSubjectForRevocation", "op.getTokenIDAndClaims"} {
		allGuars = append(allGuars, &Guar{Prop: "C08", Fn: fn, P: []string{"ctx", "p", "accessToken"},
			Facts: []string{"tokenResolved($r0, $r1, $accessToken)", "didTryToken($accessToken)"}, Proof: readerReq("$p.Crypto()"),
			FailFacts: []string{"didTryToken($accessToken)"}, FailProof: tried("$p.Crypto()")})
	}
	obs := []Ob{
		{ID: "E1.userinfo.provider", Fn: "op.Userinfo", Kind: "call", Pat: "httphelper.MarshalJSON(_, $info)", Max: 1,
			Why: "claims are returned only for a token the provider resolved and the storage accepted",
			Req: []string{"tokenResolved($tokenID, $subject, $accessToken)", "def($accessToken, op.ParseUserinfoRequest(__), 0)", "ok(_.SetUserinfoFromToken(_, $info, $tokenID, $subject, _))"}},
		{ID: "E1.userinfo.legacy-server", Fn: "op.(*LegacyServer).UserInfo", P: []string{"s", "ctx", "r"}, Kind: "ret ok", Max: 1,
			Req: []string{"tokenResolved($tokenID, $subject, $r.Data.AccessToken)", "ok(_.SetUserinfoFromToken(_, $info, $tokenID, $subject, _))", "same($r0, op.NewResponse($info))"}},
		{ID: "E1.userinfo.provider.only", Fn: "op.Userinfo", Kind: "call", Pat: "httphelper.MarshalJSON(__)", Max: 1},
		{ID: "E1.access-token-verifier", Fn: "op.VerifyAccessToken", P: []string{"ctx", "token", "v"}, Kind: "ret ok", Max: 1,
			Req: []string{"ok(oidc.CheckIssuer($r0, $v.Issuer))", "ok(oidc.CheckExpiration($r0, $v.Offset))", "ok(oidc.CheckSignature(_, _, _, $r0, $v.SupportedSignAlgs, $v.KeySet))"}},
		{ID: "E8.access-token-verifier-per-request-issuer", Fn: "op.(*Provider).AccessTokenVerifier", P: []string{"o", "ctx"}, Kind: "ret any", Pat: "ret(op.NewAccessTokenVerifier(op.IssuerFromContext($ctx), $o.accessTokenKeySet, __))", Max: 1, Only: true},
		{ID: "E8.access-token-verifier-per-request-issuer.only", Fn: "op.(*Provider).AccessTokenVerifier", Kind: "ret any", Max: 1},
		{ID: "E8.access-token-verifier.constructor-binds-configuration", Fn: "op.NewAccessTokenVerifier", P: []string{"issuer", "keySet"}, Kind: "ret any", Pat: "ret(&AccessTokenVerifier{Issuer: $issuer, KeySet: $keySet})", Max: 1, Only: true},
		{ID: "E8.access-token-verifier.constructor-binds-configuration.only", Fn: "op.NewAccessTokenVerifier", Kind: "ret any", Max: 1},
		// introspection: the Active store is the only one and needs lookup + storage success (caller authentication: the C05 obligations E1.introspect.* and the authentication guarantees are re-evaluated here as E1.introspect.caller.*)
		{ID: "E1.introspect.active.provider", Fn: "op.Introspect", Kind: "store", Pat: "store($resp.Active, true)", Max: 1,
			Req: []string{"tokenResolved($tokenID, $subject, $token)", "ok(_.SetIntrospectionFromToken(_, $resp, $tokenID, $subject, _))"}},
		{ID: "E1.introspect.active.legacy-server", Fn: "op.(*LegacyServer).Introspect", P: []string{"s", "ctx", "r"}, Kind: "store", Pat: "store($resp.Active, true)", Max: 1,
			Req: []string{"tokenResolved($tokenID, $subject, $r.Data.Token)", "ok(_.SetIntrospectionFromToken(_, $resp, $tokenID, $subject, _))"}},
		// revocation
		{ID: "E1.revoke.provider", Fn: "op.Revoke", Kind: "call", Pat: "httphelper.MarshalJSON(_, nil)", Max: 1,
			Why: "the 200 answer is written only after the storage revoked the token for the authenticated client",
			Req: []string{"ok(_.RevokeToken(_, _, _, $clientID))", "def($clientID, op.ParseTokenRevocationRequest(__), 2)", "ok(op.ParseTokenRevocationRequest(__))"}},
		{ID: "E1.revoke.provider.resolves-token", Fn: "op.Revoke", Kind: "call", Pat: "_.RevokeToken(_, $token, __)", Max: 1,
			Why: "the type hint is only a hint: unless the storage recognised the token as a refresh token, the access-token resolver must have run before the storage is asked to revoke",
			Req: []string{"didOk(GetRefreshTokenInfo) || didTryToken(_)"}},
		{ID: "E1.revoke.legacy-server.resolves-token", Fn: "op.(*LegacyServer).Revocation", P: []string{"s", "ctx", "r"}, Kind: "call", Pat: "_.RevokeToken(__)", Max: 1,
			Why: "sibling of op.Revoke",
			Req: []string{"didOk(GetRefreshTokenInfo) || didTryToken(_)"}},
		{ID: "E1.revoke.legacy-server", Fn: "op.(*LegacyServer).Revocation", P: []string{"s", "ctx", "r"}, Kind: "ret ok", Max: 1,
			Req: []string{"ok(_.RevokeToken(_, _, _, $r.Client.GetID()))"}},
		// logout
		{ID: "E1.endsession.provider", Fn: "op.EndSession", Kind: "call", Pat: "http.Redirect(__)", Max: 1,
			Req: []string{"ok(op.ValidateEndSessionRequest(_, $req, _))", "def($session, op.ValidateEndSessionRequest(_, $req, _), 0)",
				"ok(_.TerminateSessionFromRequest(_, $session)) || ok(_.TerminateSession(_, $session.UserID, $session.ClientID))"}},
		{ID: "E1.endsession.legacy-server", Fn: "op.(*LegacyServer).EndSession", P: []string{"s", "ctx", "r"}, Kind: "ret ok", Max: 1,
			Req: []string{"ok(op.ValidateEndSessionRequest(_, $r.Data, _))", "def($session, op.ValidateEndSessionRequest(_, $r.Data, _), 0)",
				"ok(_.TerminateSessionFromRequest(_, $session)) || ok(_.TerminateSession(_, $session.UserID, $session.ClientID))"}},
	}
	for _, o := range obs {
		if strings.HasPrefix(o.ID, "E8.access-token-verifier-per-request-issuer") {
			sharedObs["C15"] = append(sharedObs["C15"], o) // token exchange verifies subject / actor tokens through this verifier
		}
	}
	register(&PropSpec{
		ID: "C08",
		Explanation: "Decides, for all paths of both routers: UserInfo answers with claims, introspection stores Active=true (the only write to Active, table-checked) and revocation answers 200 only after the presented token was resolved by one of the three readers (decrypted 'id:subject' pair of exactly two parts, or a JWT verified by VerifyAccessToken: issuer, signature, expiry) and the corresponding storage call succeeded with that token id/subject; RevokeToken is called with the authenticated client id (that a GetRefreshTokenInfo error other than ErrInvalidRefreshToken is not skipped is decided by C10's storage-error rule); logout redirects only after ValidateEndSessionRequest and a successful session termination for that session. Liveness itself (expiry/revocation state) lives in the storage and is not decided. Round 3: the caller-authentication obligations of introspection (owned by C05) and the shared claim predicates (exp, iss) are part of this verdict; every endpoint route is registered behind the IssuerInterceptor (token verification reads the issuer from the context); the access-token verifier's key set is application-supplied or the provider's storage-backed key set.",
		RuleText:    "obligation = (rule, function, sink site); non-trivial when guard facts were needed",
		Assumptions: []string{"the storage refuses expired/revoked tokens in SetUserinfoFromToken / SetIntrospectionFromToken / TokenRequestByRefreshToken"},
		Trusted:     []string{"go/types, go/cfg (x/tools v0.50.0)", "Storage implementation"},
		Level:       "Sound static check (all paths, both routers) that every success sink of userinfo / introspection / revocation / logout is dominated by token resolution and the storage's acceptance, with the caller id bound. Whether a token is live is decided by the storage at run time and is outside.",
		Note:        "Trusted: go/types+go/cfg; Storage contract (liveness).",
		Technique:   "static analysis: assume/guarantee must-facts dataflow over go/cfg; who-may-write table for IntrospectionResponse.Active; flow-insensitive argument-role (value-source) analysis of the revocation sinks",
		Rules:       []string{"E1"},
		Run: func(c *Ctx) {
			RunE1(c, "C08", append(append([]Ob{}, obs...), sharedObs["C08"]...))
			// argument roles of the revocation sinks (E9): token / token id, subject and client id are all strings
			tok := []string{"ParseTokenRevocationRequest#0", "GetRefreshTokenInfo#1", "getTokenIDAndSubjectForRevocation#0", "zero"} // zero: the unused results of a helper's "not found" return
			sub := []string{"zero", "GetRefreshTokenInfo#0", "getTokenIDAndSubjectForRevocation#1"}
			cid := []string{"ParseTokenRevocationRequest#2"}
			RunArgSources(c, "E9.revoke.provider.roles", "op.Revoke", "RevokeToken", 1, tok, "the storage revokes the presented token or the id it resolved to")
			RunArgSources(c, "E9.revoke.provider.roles", "op.Revoke", "RevokeToken", 2, sub, "the subject is the one the token resolved to, or empty")
			RunArgSources(c, "E9.revoke.provider.roles", "op.Revoke", "RevokeToken", 3, cid, "the revoking client is the authenticated caller")
			RunArgSources(c, "E9.revoke.provider.roles", "op.Revoke", "GetRefreshTokenInfo", 1, cid, "refresh tokens are looked up for the authenticated caller")
			RunArgSources(c, "E9.revoke.provider.roles", "op.Revoke", "GetRefreshTokenInfo", 2, tok, "the presented token is looked up")
			RunArgSources(c, "E9.revoke.provider.roles", "op.Revoke", "getTokenIDAndSubjectForRevocation", 2, tok, "the presented token is resolved")
			ltok := []string{"param:r.Data.Token", "GetRefreshTokenInfo#1", "getTokenIDAndSubjectForRevocation#0", "zero"}
			lcid := []string{"r.Client.GetID#0"}
			RunArgSources(c, "E9.revoke.legacy-server.roles", "op.(*LegacyServer).Revocation", "RevokeToken", 1, ltok, "sibling of op.Revoke")
			RunArgSources(c, "E9.revoke.legacy-server.roles", "op.(*LegacyServer).Revocation", "RevokeToken", 2, sub, "sibling of op.Revoke")
			RunArgSources(c, "E9.revoke.legacy-server.roles", "op.(*LegacyServer).Revocation", "RevokeToken", 3, lcid, "sibling of op.Revoke")
			RunArgSources(c, "E9.revoke.legacy-server.roles", "op.(*LegacyServer).Revocation", "GetRefreshTokenInfo", 1, lcid, "sibling of op.Revoke")
			RunArgSources(c, "E9.revoke.legacy-server.roles", "op.(*LegacyServer).Revocation", "GetRefreshTokenInfo", 2, ltok, "sibling of op.Revoke")
			RunArgSources(c, "E9.revoke.legacy-server.roles", "op.(*LegacyServer).Revocation", "getTokenIDAndSubjectForRevocation", 2, ltok, "sibling of op.Revoke")
			RunFieldSources(c, "E8.access-token.keyset-default", "op", "Provider", "accessTokenKeySet", "OpenIDKeySet", "JWT access tokens must be verified with the provider's own (storage-backed) key set unless the application explicitly supplies one")
			RunIssuerCoverage(c, "E7.routes.issuer-interceptor", []string{"KeysEndpoint"}) // handlers verify tokens / assertions against the issuer the interceptor puts into the context
			RunTypeWriteDiscipline(c, "E6.introspection-response-writers", "oidc", "IntrospectionResponse", []string{"op"},
				map[string][]string{"Active": {"op.Introspect", "op.(*LegacyServer).Introspect"}},
				"an inactive introspection answer discloses nothing but active:false - the provider itself fills in no field of the response except Active (after the storage accepted the token for this caller); everything else is written by Storage.SetIntrospectionFromToken")
			RunFieldWriters(c, "E6.active-writers", "oidc", "IntrospectionResponse", "Active", []string{"op.Introspect", "op.(*LegacyServer).Introspect"}, "Active=true must stay behind the introspection obligations")
		},
	})
}
