package main

import "strings"

// C14 — JWT assertions and request objects count only when signed by the named client (DESIGN §5 C14).

func init() {
	obs := []Ob{
		{ID: "E1.assertion.verify", Fn: "op.VerifyJWTAssertion", P: []string{"ctx", "assertion", "v"}, Kind: "ret ok", Max: 1,
			Why: "an assertion is accepted only after audience, expiry, issued-at, subject and signature checks on this very request",
			Req: []string{
				"ok(oidc.ParseToken($assertion, $r0))", "def($payload, oidc.ParseToken($assertion, $r0), 0)",
				"ok(oidc.CheckAudience($r0, $v.Issuer))",
				"ok(oidc.CheckExpiration($r0, $v.Offset))",
				"ok(oidc.CheckIssuedAt($r0, $v.MaxAgeIAT, $v.Offset))",
				"ok($v.CheckSubject($r0))",
				"ok(oidc.CheckSignature(_, $assertion, $payload, $r0, nil, $ks))",
				"(def($ks, $v.keySet) && nonnil($v.keySet)) || def($ks, &jwtProfileKeySet{storage: $v.Storage, clientID: $r0.Issuer})",
			}},
		{ID: "E8.assertion.default-subject-check", Fn: "op.newJWTProfileVerifier", P: []string{"storage", "keySet", "issuer", "maxAgeIAT", "offset"}, Kind: "ret any", Pat: "ret(&JWTProfileVerifier{Verifier: oidc.Verifier{Issuer: $issuer, MaxAgeIAT: $maxAgeIAT, Offset: $offset}, CheckSubject: op.SubjectIsIssuer, Storage: $storage, keySet: $keySet})", Max: 1, Only: true},
		{ID: "E1.assertion.subject-is-issuer.accept", Fn: "op.SubjectIsIssuer", P: []string{"request"}, Kind: "ret ok", Req: []string{"eq($request.Issuer, $request.Subject)"}},
		{ID: "E1.assertion.subject-is-issuer.reject", Fn: "op.SubjectIsIssuer", P: []string{"request"}, Kind: "ret fail", Req: []string{"neq($request.Issuer, $request.Subject)"}},
		{ID: "E8.assertion.client-is-issuer", Fn: "op.ClientJWTAuth", P: []string{"ctx", "ca", "verifier"}, Kind: "ret ok", Max: 1,
			Req: []string{"def($profile, op.VerifyJWTAssertion(_, $ca.ClientAssertion, _), 0)", "ok(op.VerifyJWTAssertion(_, $ca.ClientAssertion, _))", "same($r0, $profile.Issuer) || eq($r0, $profile.Issuer) || def($r0, $profile.Issuer)"}},
		{ID: "E8.assertion.verifier-per-request-issuer", Fn: "op.(*Provider).JWTProfileVerifier", P: []string{"o", "ctx"}, Kind: "ret any", Pat: "ret(op.NewJWTProfileVerifier($o.Storage(), op.IssuerFromContext($ctx), __))", Max: 1, Only: true,
			Why: "the assertion's audience must contain the issuer of the request at hand"},
		{ID: "E8.assertion.verifier-per-request-issuer.only", Fn: "op.(*Provider).JWTProfileVerifier", Kind: "ret any", Max: 1},
		// request objects
		{ID: "E1.request-object.copy", Fn: "op.ParseRequestObject", P: []string{"ctx", "authReq", "storage", "issuer"}, Kind: "call", Pat: "op.CopyRequestObjectToAuthRequest($authReq, $ro)", Max: 1,
			Why: "request-object parameters override the query only when the object is signed by the requesting client, names it as issuer, targets this issuer and agrees with the outer client_id / response_type",
			Req: []string{
				"ok(oidc.ParseToken($authReq.RequestParam, $ro))",
				`eq($ro.ClientID, "") || eq($ro.ClientID, $authReq.ClientID)`,
				`eq($ro.ResponseType, "") || eq($ro.ResponseType, $authReq.ResponseType)`,
				"eq($ro.Issuer, $ro.ClientID)",
				"member($issuer, $ro.Audience)",
				"ok(oidc.CheckSignature(_, $authReq.RequestParam, _, $ro, nil, &jwtProfileKeySet{storage: $storage, clientID: $ro.Issuer}))",
			}},
		{ID: "E1.request-object.gated.provider", Fn: "op.Authorize", Kind: "call", Pat: "op.ParseRequestObject(_, $authReq, _, op.IssuerFromContext(_))", Max: 1,
			Req: []string{"true($authorizer.RequestObjectSupported())", `neq($authReq.RequestParam, "")`}},
		{ID: "E1.request-object.gated.legacy-server", Fn: "op.(*LegacyServer).VerifyAuthRequest", P: []string{"s", "ctx", "r"}, Kind: "call", Pat: "op.ParseRequestObject(_, $r.Data, _, op.IssuerFromContext(_))", Max: 1,
			Req: []string{"true($s.provider.RequestObjectSupported())", `neq($r.Data.RequestParam, "")`}},
		{ID: "E1.request-object.unprocessed-rejected", Fn: "op.Authorize", Kind: "call", Pat: "_.CreateAuthRequest(_, $authReq, _)", Max: 1,
			Why: "a request parameter that was not processed must not be stored as an ordinary request",
			Req: []string{`eq($authReq.RequestParam, "")`}},
		// helper-made assertions meet the verifier's predicates structurally
		{ID: "E8.assertion.helper", Fn: "client.SignedJWTProfileAssertion", P: []string{"clientID", "audience", "expiration", "signer"}, Kind: "call",
			Pat: "crypto.Sign(&JWTTokenRequest{Issuer: $clientID, Subject: $clientID, Audience: $audience, ExpiresAt: oidc.FromTime($exp), IssuedAt: oidc.FromTime($iat)}, $signer)", Max: 1,
			Req: []string{"def($iat, time.Now())", "def($exp, $iat.Add($expiration))"}},
	}
	for _, o := range obs {
		if strings.HasPrefix(o.ID, "E1.assertion.") || strings.HasPrefix(o.ID, "E8.assertion.") {
			sharedObs["C05"] = append(sharedObs["C05"], o) // private_key_jwt client authentication is assertion verification
		}
		if o.ID == "E1.request-object.copy" {
			sharedObs["C02"] = append(sharedObs["C02"], o) // the request-object verifier believes a payload only under a key of the requesting client (the "configured key set" of that verifier)
		}
	}
	// "the authenticated client identity is then exactly that issuer": the guarantees of the client-identification helpers
	// (owned by C05) are part of this property's verdict
	for _, fn := range []string{"op.ClientJWTAuth", "op.ClientIDFromRequest"} {
		guarAlso[fn] = append(guarAlso[fn], "C14")
	}
	register(&PropSpec{
		ID: "C14",
		Explanation: "Decides, for all paths: VerifyJWTAssertion returns the request only after ParseToken, CheckAudience against the provider's issuer, CheckExpiration, CheckIssuedAt (with the verifier's max age/offset), the configured subject check (default SubjectIsIssuer: iss == sub, both polarities) and CheckSignature of the same assertion/payload/request under either the configured key set or a per-client key set bound to request.Issuer; AuthorizePrivateJWTKey returns exactly the client looked up by that issuer and registered for private_key_jwt (guarantee); ClientJWTAuth returns the issuer; ParseRequestObject copies object parameters only after client_id / response_type agreement, iss == client_id, issuer in aud and a signature under the key set of that client, and is reached only under RequestObjectSupported(); an unprocessed request parameter never reaches CreateAuthRequest; the client helper builds assertions with iss = sub = clientID and exp = iat + expiration. Key material held by the storage is not decided.",
		RuleText:    "obligation = (rule, function, sink site); non-trivial when guard facts were needed",
		Assumptions: []string{"Storage.GetKeyByIDAndClientID returns only keys registered for that client"},
		Trusted:     []string{"go/types, go/cfg (x/tools v0.50.0)", "go-jose/v4", "Storage implementation"},
		Level:       "Sound static check (all paths) that acceptance of an assertion / request object is dominated by the stated checks, each bound to the right configuration value and to the client named as issuer. Cryptographic validity and key material are outside.",
		Note:        "Trusted: go/types+go/cfg, go-jose, Storage key lookup.",
		Technique:   "static analysis: must-facts dataflow over go/cfg with typed patterns (guard-before-accept, predicate duals, argument binding)",
		Rules:       []string{"E1"},
		Run: func(c *Ctx) {
			RunE1(c, "C14", append(append([]Ob{}, obs...), sharedObs["C14"]...))
			RunCallers(c, "E1.request-object-table", "op.ParseRequestObject", []string{"op.Authorize", "op.(*LegacyServer).VerifyAuthRequest"}, "request objects are honoured only where support is checked")
		},
	})
}
