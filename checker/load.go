package main

import (
	"fmt"
	"go/ast"
	"go/token"
	"go/types"
	"os"
	"path/filepath"
	"sort"
	"strings"

	"golang.org/x/tools/go/callgraph"
	"golang.org/x/tools/go/callgraph/cha"
	"golang.org/x/tools/go/callgraph/vta"
	"golang.org/x/tools/go/cfg"
	"golang.org/x/tools/go/packages"
	"golang.org/x/tools/go/ssa"
	"golang.org/x/tools/go/ssa/ssautil"
)

const modPath = "github.com/zitadel/oidc/v3"
const pkgPrefix = modPath + "/pkg/"
const ctlPkgPath = pkgPrefix + "zzverifctl"

// Prog is the loaded, type-checked program under analysis.
type Prog struct {
	Repo     string
	Fset     *token.FileSet
	Loaded   []*packages.Package          // roots returned by the loader
	ByPath   map[string]*packages.Package // every package reachable (incl. deps)
	Scope    []*packages.Package          // in-scope subject packages (pkg/... minus mock) + control pkg
	Funcs    []*FuncInfo                  // every source function / closure in Scope
	FuncByNm map[string]*FuncInfo
	byNode   map[ast.Node]*FuncInfo

	SSA      *ssa.Program
	ssaBuilt bool
	cg       *callgraph.Graph
	allFns   map[*ssa.Function]bool
}

// FuncInfo describes one source-level function body (declaration or literal).
type FuncInfo struct {
	Name   string // e.g. op.CodeExchange, op.(*LegacyServer).CodeExchange, op.Authorize$1
	Pkg    *packages.Package
	File   *ast.File
	Decl   *ast.FuncDecl
	Lit    *ast.FuncLit
	Parent *FuncInfo
	Sig    *types.Signature
	Body   *ast.BlockStmt
	Obj    *types.Func
	Ctl    bool // lives in the positive-control package
	cfg    *cfg.CFG
	nlits  int
}

func (f *FuncInfo) Pos() token.Pos {
	if f.Decl != nil {
		return f.Decl.Pos()
	}
	return f.Lit.Pos()
}

func (f *FuncInfo) FuncType() *ast.FuncType {
	if f.Decl != nil {
		return f.Decl.Type
	}
	return f.Lit.Type
}

// Root returns the outermost enclosing declaration.
func (f *FuncInfo) Root() *FuncInfo {
	for f.Parent != nil {
		f = f.Parent
	}
	return f
}

func shortPkg(path string) string {
	if strings.HasPrefix(path, pkgPrefix) {
		return strings.TrimPrefix(path, pkgPrefix)
	}
	if strings.HasPrefix(path, modPath+"/") {
		return strings.TrimPrefix(path, modPath+"/")
	}
	return path
}

// inModule reports whether a package path belongs to zitadel/oidc.
func inModule(path string) bool {
	return path == modPath || strings.HasPrefix(path, modPath+"/")
}

func inScopePkg(path string) bool {
	if !strings.HasPrefix(path, pkgPrefix) {
		return false
	}
	if strings.HasPrefix(path, pkgPrefix+"op/mock") {
		return false
	}
	return true
}

func excludedFile(name string) bool {
	b := filepath.Base(name)
	return strings.HasSuffix(b, "_enumer.go") || strings.HasSuffix(b, "_test.go")
}

type LoadOpts struct {
	Repo     string
	Controls string            // directory with control .go files (overlaid as pkg/zzverifctl)
	Overlay  map[string][]byte // extra overlay (mutants)
	Whole    bool              // load ./... with tests (thorough closure)
}

func Load(o LoadOpts) (*Prog, error) {
	overlay := map[string][]byte{}
	for k, v := range o.Overlay {
		overlay[k] = v
	}
	if o.Controls != "" {
		ents, err := os.ReadDir(o.Controls)
		if err != nil {
			return nil, fmt.Errorf("controls: %v", err)
		}
		n := 0
		for _, e := range ents {
			if strings.HasSuffix(e.Name(), ".go") {
				b, err := os.ReadFile(filepath.Join(o.Controls, e.Name()))
				if err != nil {
					return nil, err
				}
				overlay[filepath.Join(o.Repo, "pkg", "zzverifctl", e.Name())] = b
				n++
			}
		}
		if n == 0 {
			return nil, fmt.Errorf("controls: no .go files in %s", o.Controls)
		}
	}
	env := []string{}
	for _, e := range os.Environ() {
		if strings.HasPrefix(e, "GOWORK=") || strings.HasPrefix(e, "GOFLAGS=") {
			continue
		}
		env = append(env, e)
	}
	env = append(env, "GOWORK=off", "GOFLAGS=-mod=mod", "GOPROXY=off", "GOSUMDB=off", "GOTOOLCHAIN=local")
	cfgp := &packages.Config{
		Mode:    packages.LoadAllSyntax,
		Dir:     o.Repo,
		Env:     env,
		Overlay: overlay,
		Tests:   o.Whole,
	}
	pat := []string{"./pkg/..."}
	if o.Whole {
		pat = []string{"./..."}
	}
	pkgs, err := packages.Load(cfgp, pat...)
	if err != nil {
		return nil, err
	}
	p := &Prog{Repo: o.Repo, Loaded: pkgs, ByPath: map[string]*packages.Package{}, FuncByNm: map[string]*FuncInfo{}, byNode: map[ast.Node]*FuncInfo{}}
	var errs []string
	packages.Visit(pkgs, nil, func(pk *packages.Package) {
		if _, dup := p.ByPath[pk.PkgPath]; !dup || !strings.Contains(pk.ID, "[") {
			if !strings.HasSuffix(pk.ID, ".test") && !strings.Contains(pk.ID, "_test") {
				p.ByPath[pk.PkgPath] = pk
			}
		}
		if inModule(pk.PkgPath) {
			for _, e := range pk.Errors {
				errs = append(errs, e.Error())
			}
		}
		if p.Fset == nil && pk.Fset != nil {
			p.Fset = pk.Fset
		}
	})
	if len(errs) > 0 {
		return p, fmt.Errorf("type-check/load errors in module: %s", strings.Join(errs, "; "))
	}
	var paths []string
	for path := range p.ByPath {
		if inScopePkg(path) {
			paths = append(paths, path)
		}
	}
	sort.Strings(paths)
	for _, path := range paths {
		p.Scope = append(p.Scope, p.ByPath[path])
	}
	if len(p.Scope) == 0 {
		return p, fmt.Errorf("no in-scope packages loaded")
	}
	for _, pk := range p.Scope {
		p.indexFuncs(pk)
	}
	resolveRenames(p)
	return p, nil
}

func recvString(t types.Type) string {
	ptr := ""
	if pt, ok := t.(*types.Pointer); ok {
		ptr = "*"
		t = pt.Elem()
	}
	if n, ok := t.(*types.Named); ok {
		return ptr + n.Obj().Name()
	}
	if a, ok := t.(*types.Alias); ok {
		return ptr + a.Obj().Name()
	}
	return ptr + t.String()
}

// FuncName gives the qualified short name used in spec tables for a *types.Func.
func FuncName(fn *types.Func) string {
	if fn == nil {
		return "<nil>"
	}
	pk := ""
	if fn.Pkg() != nil {
		pk = shortPkg(fn.Pkg().Path())
	}
	sig, _ := fn.Type().(*types.Signature)
	if sig != nil && sig.Recv() != nil {
		r := recvString(sig.Recv().Type())
		if strings.HasPrefix(r, "*") {
			return pk + ".(" + r + ")." + fn.Name()
		}
		return pk + "." + r + "." + fn.Name()
	}
	return pk + "." + fn.Name()
}

// constAlias: an unexported named constant declared as another named constant (`ivSize = aes.BlockSize`) -> the
// spelling of the constant it stands for; patterns written with the original name keep matching.
var constAlias = map[types.Object]string{}

func indexConstAliases(pk *packages.Package, f *ast.File) {
	ast.Inspect(f, func(n ast.Node) bool {
		gd, ok := n.(*ast.GenDecl)
		if !ok || gd.Tok != token.CONST {
			return true
		}
		for _, sp := range gd.Specs {
			vs, ok := sp.(*ast.ValueSpec)
			if !ok || len(vs.Values) != len(vs.Names) {
				continue
			}
			for i, nm := range vs.Names {
				var ref *ast.Ident
				switch v := unparen(vs.Values[i]).(type) {
				case *ast.Ident:
					ref = v
				case *ast.SelectorExpr:
					ref = v.Sel
				}
				if ref == nil || ast.IsExported(nm.Name) {
					continue
				}
				if c, ok := pk.TypesInfo.Uses[ref].(*types.Const); ok && pk.TypesInfo.Defs[nm] != nil {
					constAlias[pk.TypesInfo.Defs[nm]] = objQual(c)
				}
			}
		}
		return true
	})
}

func (p *Prog) indexFuncs(pk *packages.Package) {
	ctl := pk.PkgPath == ctlPkgPath
	for _, f := range pk.Syntax {
		fname := p.Fset.Position(f.Pos()).Filename
		if excludedFile(fname) {
			continue
		}
		indexConstAliases(pk, f)
		for _, d := range f.Decls {
			fd, ok := d.(*ast.FuncDecl)
			if !ok || fd.Body == nil {
				continue
			}
			obj, _ := pk.TypesInfo.Defs[fd.Name].(*types.Func)
			if obj == nil {
				continue
			}
			fi := &FuncInfo{Name: FuncName(obj), Pkg: pk, File: f, Decl: fd, Sig: obj.Type().(*types.Signature), Body: fd.Body, Obj: obj, Ctl: ctl}
			p.addFunc(fi, fd)
			p.indexLits(fi, fd.Body)
		}
		// function literals in package-level var initialisers
		for _, d := range f.Decls {
			gd, ok := d.(*ast.GenDecl)
			if !ok {
				continue
			}
			for _, sp := range gd.Specs {
				vs, ok := sp.(*ast.ValueSpec)
				if !ok {
					continue
				}
				for i, v := range vs.Values {
					holder := &FuncInfo{Name: shortPkg(pk.PkgPath) + ".init:" + nameAt(vs, i), Pkg: pk, File: f, Ctl: ctl}
					p.indexLits(holder, v)
				}
			}
		}
	}
}

func nameAt(vs *ast.ValueSpec, i int) string {
	if i < len(vs.Names) {
		return vs.Names[i].Name
	}
	return vs.Names[0].Name
}

func (p *Prog) addFunc(fi *FuncInfo, n ast.Node) {
	if old, dup := p.FuncByNm[fi.Name]; dup && old != fi {
		// disambiguate (should not happen for well-formed packages)
		fi.Name = fmt.Sprintf("%s@%d", fi.Name, p.Fset.Position(fi.Pos()).Line)
	}
	p.Funcs = append(p.Funcs, fi)
	p.FuncByNm[fi.Name] = fi
	p.byNode[n] = fi
}

func (p *Prog) indexLits(parent *FuncInfo, root ast.Node) {
	ast.Inspect(root, func(n ast.Node) bool {
		lit, ok := n.(*ast.FuncLit)
		if !ok {
			return true
		}
		parent.nlits++
		sig, _ := parent.Pkg.TypesInfo.TypeOf(lit).(*types.Signature)
		fi := &FuncInfo{Name: fmt.Sprintf("%s$%d", parent.Name, parent.nlits), Pkg: parent.Pkg, File: parent.File, Lit: lit, Parent: parent, Sig: sig, Body: lit.Body, Ctl: parent.Ctl}
		if parent.Body == nil && parent.Decl == nil && parent.Lit == nil {
			fi.Parent = nil // package-level initialiser holder is not a real function
		}
		p.addFunc(fi, lit)
		p.indexLits(fi, lit.Body)
		return false
	})
}

// FuncOfNode returns the FuncInfo for a FuncDecl / FuncLit node.
func (p *Prog) FuncOfNode(n ast.Node) *FuncInfo { return p.byNode[n] }

// Fn looks a function up by spec name; nil if unresolved.
func (p *Prog) Fn(name string) *FuncInfo { return p.FuncByNm[name] }

func (p *Prog) Position(pos token.Pos) string {
	if !pos.IsValid() {
		return "-"
	}
	ps := p.Fset.Position(pos)
	rel, err := filepath.Rel(p.Repo, ps.Filename)
	if err != nil {
		rel = ps.Filename
	}
	return fmt.Sprintf("%s:%d", rel, ps.Line)
}

func mayReturn(info *types.Info) func(*ast.CallExpr) bool {
	return func(c *ast.CallExpr) bool {
		switch fn := c.Fun.(type) {
		case *ast.Ident:
			if b, ok := info.Uses[fn].(*types.Builtin); ok && b.Name() == "panic" {
				return false
			}
		case *ast.SelectorExpr:
			if obj, ok := info.Uses[fn.Sel].(*types.Func); ok && obj.Pkg() != nil {
				full := obj.Pkg().Path() + "." + obj.Name()
				switch full {
				case "os.Exit", "log.Fatal", "log.Fatalf", "log.Fatalln", "log.Panic", "log.Panicf":
					return false
				}
			}
		}
		return true
	}
}

// CFG returns the (cached) control-flow graph of the function body.
func (f *FuncInfo) CFG() *cfg.CFG {
	if f.cfg == nil && f.Body != nil {
		f.cfg = cfg.New(f.Body, mayReturn(f.Pkg.TypesInfo))
	}
	return f.cfg
}

// ---------- SSA / call graph (built lazily: only some engines need them) ----------

func (p *Prog) BuildSSA() {
	if p.ssaBuilt {
		return
	}
	prog, _ := ssautil.AllPackages(p.Loaded, ssa.InstantiateGenerics)
	prog.Build()
	p.SSA = prog
	p.ssaBuilt = true
}

func (p *Prog) SSAPkg(path string) *ssa.Package {
	p.BuildSSA()
	pk := p.ByPath[path]
	if pk == nil {
		return nil
	}
	return p.SSA.Package(pk.Types)
}

func (p *Prog) CallGraph() *callgraph.Graph {
	if p.cg != nil {
		return p.cg
	}
	p.BuildSSA()
	p.allFns = ssautil.AllFunctions(p.SSA)
	p.cg = vta.CallGraph(p.allFns, cha.CallGraph(p.SSA))
	return p.cg
}

// SSAFunc returns the ssa.Function for a FuncInfo (generic origin, not instances).
func (p *Prog) SSAFunc(fi *FuncInfo) *ssa.Function {
	p.BuildSSA()
	root := fi.Root()
	if root.Obj == nil {
		return nil
	}
	fn := p.SSA.FuncValue(root.Obj)
	if fn == nil {
		return nil
	}
	if fi == root {
		return fn
	}
	var find func(f *ssa.Function) *ssa.Function
	find = func(f *ssa.Function) *ssa.Function {
		for _, a := range f.AnonFuncs {
			if a.Syntax() == fi.Lit {
				return a
			}
			if r := find(a); r != nil {
				return r
			}
		}
		return nil
	}
	return find(fn)
}

// SrcFuncs enumerates the ssa functions (incl. anonymous) of the in-scope packages.
func (p *Prog) SrcFuncs() []*ssa.Function {
	p.BuildSSA()
	var out []*ssa.Function
	for _, fi := range p.Funcs {
		if fn := p.SSAFunc(fi); fn != nil {
			out = append(out, fn)
		}
	}
	return out
}
