package main

import "strings"

// C05 — no tokens or token metadata without client authentication and a registered grant (DESIGN §5 C05).

// revForm: the form-credential clause of the revocation parser, with the looked-up client spelled as a local or as the call result
func revForm(client string) string {
	return `ok(_.GetClientByClientID(_, $req.ClientID)) && ((eq($req.ClientSecret, "") && eq(` + client + `.AuthMethod(), oidc.AuthMethodNone)) || (neq($req.ClientSecret, "") && secretOK($req.ClientID, $req.ClientSecret) && (neq(` + client + `.AuthMethod(), oidc.AuthMethodPost) || true($revoker.AuthMethodPostSupported())))) && (same($r2, $req.ClientID) || eq($r2, $req.ClientID))`
}

func init() {
	const gt = `$r.Form.Get("grant_type")`
	const fv = `$r.FormValue("grant_type")`
	// callee-side proofs
	guarP("C05", "op.AuthorizeClientCredentialsClient", []string{"ctx", "request", "storage"},
		[]string{"ccClient($r0, $request)"},
		[]string{"def($r0, $storage.ClientCredentials(_, $request.ClientID, $request.ClientSecret), 0)", "ok($storage.ClientCredentials(_, $request.ClientID, $request.ClientSecret))",
			"true(op.ValidateGrantType($r0, oidc.GrantTypeClientCredentials))"})
	guarP("C05", "op.ValidateClientCredentialsRequest", []string{"ctx", "request", "exchanger"},
		[]string{"ccValidated($r0, $r1, $request)"},
		[]string{"ccClient($r1, $request)", "def($r0, _.ClientCredentialsTokenRequest(_, $request.ClientID, $request.Scope), 0)", "ok(_.ClientCredentialsTokenRequest(_, $request.ClientID, $request.Scope))"})
	guarP("C05", "op.AuthorizeTokenExchangeClient", []string{"ctx", "clientID", "clientSecret", "exchanger"},
		[]string{"teClient($r0, $clientID, $clientSecret)"},
		[]string{"secretOK($clientID, $clientSecret)", "def($r0, _.GetClientByClientID(_, $clientID), 0)", "ok(_.GetClientByClientID(_, $clientID))"})
	guarP("C05", "op.ValidateTokenExchangeRequest", []string{"ctx", "req", "clientID", "clientSecret", "exchanger"},
		[]string{"teGranted($r1)", "teRequest($r0, $r1, $req)"},
		[]string{"teClient($r1, $clientID, $clientSecret)", "true(op.ValidateGrantType($r1, oidc.GrantTypeTokenExchange))",
			"def($r0, op.CreateTokenExchangeRequest(_, $req, $r1, _), 0)", "ok(op.CreateTokenExchangeRequest(_, $req, $r1, _))"})
	guarP("C05", "op.ClientBasicAuth", []string{"r", "storage"},
		[]string{"basicAuthed($r0, $r)"},
		[]string{"ok($storage.AuthorizeClientIDSecret(_, $r0, _))"})
	guarP("C05", "op.ClientJWTAuth", []string{"ctx", "ca", "verifier"},
		[]string{"jwtAuthed($r0, $ca)"},
		[]string{"def($profile, op.VerifyJWTAssertion(_, $ca.ClientAssertion, _), 0)", "ok(op.VerifyJWTAssertion(_, $ca.ClientAssertion, _))", "same($r0, $profile.Issuer) || eq($r0, $profile.Issuer) || def($r0, $profile.Issuer)"})
	guarP("C05", "op.ClientIDFromRequest", []string{"r", "p"},
		[]string{"clientIDState($r0, $r1, $r)"},
		[]string{"eq($r1, false) || basicAuthed($r0, $r) || jwtAuthed($r0, _)"})
	guarP("C05", "op.ParseTokenIntrospectionRequest", []string{"r", "introspector"},
		[]string{"introspectionCaller($r1, $r)"},
		[]string{"def($r1, op.ClientIDFromRequest($r, $introspector), 0)", "def($a, op.ClientIDFromRequest($r, $introspector), 1)", "ok(op.ClientIDFromRequest($r, $introspector))", "true($a)"})
	guarP("C05", "op.ParseDeviceCodeRequest", []string{"r", "o"},
		[]string{"deviceClientOK($r0)"},
		[]string{"def($clientID, op.ClientIDFromRequest($r, $o), 0)", "ok(op.ClientIDFromRequest($r, $o))", "def($client, _.GetClientByClientID(_, $clientID), 0)", "ok(_.GetClientByClientID(_, $clientID))",
			"true(op.ValidateGrantType($client, oidc.GrantTypeDeviceCode))", "eq($r0.ClientID, $clientID)"})
	guarP("C05", "op.(*LegacyServer).authenticateResourceClient", []string{"s", "ctx", "cc"},
		[]string{"resourceClient($r0, $cc)"},
		[]string{"jwtAuthed($r0, _) || (ok(_.AuthorizeClientIDSecret(_, $cc.ClientID, $cc.ClientSecret)) && same($r0, $cc.ClientID))"})

	obs := []Ob{
		// --- Server router: every client handler runs behind withClient
		{ID: "E1.withclient", Fn: "op.(*webServer).withClient$1", Kind: "call", Pat: "$handler(_, _, $client)", Max: 1,
			Why: "a client handler runs only for an authenticated client that is registered for the requested grant_type",
			Req: []string{"def($client, $s.verifyRequestClient($r), 0)", "ok($s.verifyRequestClient($r))",
				`eq(` + gt + `, "") || true(op.ValidateGrantType($client, ` + gt + `))`}},
		{ID: "E1.withclient.verify", Fn: "op.(*webServer).verifyRequestClient", P: []string{"s", "r"}, Kind: "ret ok", Pat: "ret(res(0, $s.server.VerifyClient(__)), _)", Max: 1,
			Req: []string{"ok($s.parseClientCredentials($r))"}},
		{ID: "E1.withclient.verify.only", Fn: "op.(*webServer).verifyRequestClient", Kind: "ret ok", Max: 1},
		{ID: "E1.legacy.verifyclient.cc", Fn: "op.(*LegacyServer).VerifyClient", P: []string{"s", "ctx", "r"}, Kind: "ret ok", Pat: "ret(res(0, $st.ClientCredentials(_, $r.Data.ClientID, $r.Data.ClientSecret)), _)", Max: 1,
			Req: []string{`eq($r.Form.Get("grant_type"), oidc.GrantTypeClientCredentials)`}},
		{ID: "E1.legacy.verifyclient.jwt", Fn: "op.(*LegacyServer).VerifyClient", P: []string{"s", "ctx", "r"}, Kind: "ret ok", Pat: "ret(res(0, op.AuthorizePrivateJWTKey(_, $r.Data.ClientAssertion, _)), _)", Max: 1,
			Req: []string{"eq($r.Data.ClientAssertionType, oidc.ClientAssertionTypeJWTAssertion)", "true($s.provider.AuthMethodPrivateKeyJWTSupported())"}},
		{ID: "E1.legacy.verifyclient.secret", Fn: "op.(*LegacyServer).VerifyClient", P: []string{"s", "ctx", "r"}, Kind: "ret ok", Pat: "ret($client, nil)", Min: 2, Max: 2,
			Why: "a client is returned only if it is public, or its secret was verified and it is not a private_key_jwt client (post only when enabled)",
			Req: []string{"def($client, _.GetClientByClientID(_, $r.Data.ClientID), 0)", "ok(_.GetClientByClientID(_, $r.Data.ClientID))",
				"eq($client.AuthMethod(), oidc.AuthMethodNone) || (secretOK($r.Data.ClientID, $r.Data.ClientSecret) && neq($client.AuthMethod(), oidc.AuthMethodPrivateKeyJWT) && (neq($client.AuthMethod(), oidc.AuthMethodPost) || true($s.provider.AuthMethodPostSupported())))"}},
		{ID: "E1.legacy.verifyclient.only", Fn: "op.(*LegacyServer).VerifyClient", Kind: "ret ok", Max: 4},
		{ID: "E1.server.parse.basic-takes-precedence", Fn: "op.(*webServer).parseClientCredentials", P: []string{"s", "r"}, Kind: "ret ok", Pat: "ret($cc, nil)", Max: 1,
			Why: "credentials in an Authorization header are the ones that get verified; a wrong Basic secret is not bypassed by form fields",
			Req: []string{
				"false(res(2, $r.BasicAuth())) || (true(res(2, $r.BasicAuth())) && (called(url.QueryUnescape(res(0, $r.BasicAuth()))) || (called(url.QueryUnescape($id)) && def($id, $r.BasicAuth(), 0))) && (called(url.QueryUnescape(res(1, $r.BasicAuth()))) || (called(url.QueryUnescape($sec)) && def($sec, $r.BasicAuth(), 1))) && eq($cc.ClientID, _) && eq($cc.ClientSecret, _))"}},
		{ID: "E1.server.parse.credentials-present", Fn: "op.(*webServer).parseClientCredentials", P: []string{"s", "r"}, Kind: "ret ok", Pat: "ret($cc, nil)", Max: 1,
			Why: "Server.VerifyClient implementations receive a client_id or an assertion, and an assertion only of the JWT-bearer type",
			Req: []string{`neq($cc.ClientID, "") || neq($cc.ClientAssertion, "")`, `eq($cc.ClientAssertion, "") || eq($cc.ClientAssertionType, oidc.ClientAssertionTypeJWTAssertion)`}},
		{ID: "E1.server.parse.only", Fn: "op.(*webServer).parseClientCredentials", Kind: "ret ok", Max: 1},
		// dispatch: the handler behind withClient belongs to the posted grant_type
		{ID: "E7.dispatch.server.code", Fn: "op.(*webServer).tokensHandler", P: []string{"s", "w", "r"}, Kind: "call", Pat: "$s.withClient($s.codeExchangeHandler)", Max: 1, Req: []string{"eq(" + gt + ", oidc.GrantTypeCode)"}},
		{ID: "E7.dispatch.server.refresh", Fn: "op.(*webServer).tokensHandler", P: []string{"s", "w", "r"}, Kind: "call", Pat: "$s.withClient($s.refreshTokenHandler)", Max: 1, Req: []string{"eq(" + gt + ", oidc.GrantTypeRefreshToken)"}},
		{ID: "E7.dispatch.server.cc", Fn: "op.(*webServer).tokensHandler", P: []string{"s", "w", "r"}, Kind: "call", Pat: "$s.withClient($s.clientCredentialsHandler)", Max: 1, Req: []string{"eq(" + gt + ", oidc.GrantTypeClientCredentials)"}},
		{ID: "E7.dispatch.server.te", Fn: "op.(*webServer).tokensHandler", P: []string{"s", "w", "r"}, Kind: "call", Pat: "$s.withClient($s.tokenExchangeHandler)", Max: 1, Req: []string{"eq(" + gt + ", oidc.GrantTypeTokenExchange)"}},
		{ID: "E7.dispatch.server.device", Fn: "op.(*webServer).tokensHandler", P: []string{"s", "w", "r"}, Kind: "call", Pat: "$s.withClient($s.deviceTokenHandler)", Max: 1, Req: []string{"eq(" + gt + ", oidc.GrantTypeDeviceCode)"}},
		{ID: "E7.dispatch.server.jwt", Fn: "op.(*webServer).tokensHandler", P: []string{"s", "w", "r"}, Kind: "call", Pat: "$s.jwtProfileHandler(__)", Max: 1, Req: []string{"eq(" + gt + ", oidc.GrantTypeBearer)"}},
		{ID: "E7.dispatch.server.unsupported", Fn: "op.(*webServer).tokensHandler", P: []string{"s", "w", "r"}, Kind: "call", Pat: "op.unimplementedGrantError(_)", Max: 1,
			Req: []string{"neq(" + gt + ", oidc.GrantTypeCode)", "neq(" + gt + ", oidc.GrantTypeRefreshToken)", "neq(" + gt + ", oidc.GrantTypeClientCredentials)", "neq(" + gt + ", oidc.GrantTypeBearer)", "neq(" + gt + ", oidc.GrantTypeTokenExchange)", "neq(" + gt + ", oidc.GrantTypeDeviceCode)"}},
		{ID: "E1.server.cc.confidential", Fn: "op.(*webServer).clientCredentialsHandler", P: []string{"s", "w", "r", "client"}, Kind: "call", Pat: "$s.server.ClientCredentialsExchange(__)", Max: 1,
			Req: []string{"neq($client.AuthMethod(), oidc.AuthMethodNone)"}},
		{ID: "E1.server.introspect.authenticated", Fn: "op.(*webServer).introspectionHandler", P: []string{"s", "w", "r"}, Kind: "call", Pat: "$s.server.Introspect(__)", Max: 1,
			Req: []string{"ok($s.parseClientCredentials($r))", `neq($cc.ClientSecret, "") || neq($cc.ClientAssertion, "")`, "def($cc, $s.parseClientCredentials($r), 0)"}},

		// --- Provider router: dispatch and per-grant sinks
		{ID: "E7.dispatch.provider.code", Fn: "op.Exchange", P: []string{"w", "r", "exchanger"}, Kind: "call", Pat: "op.CodeExchange(__)", Max: 1, Req: []string{"eq(" + fv + ", oidc.GrantTypeCode)"}},
		{ID: "E7.dispatch.provider.refresh", Fn: "op.Exchange", P: []string{"w", "r", "exchanger"}, Kind: "call", Pat: "op.RefreshTokenExchange(__)", Max: 1, Req: []string{"eq(" + fv + ", oidc.GrantTypeRefreshToken)", "true($exchanger.GrantTypeRefreshTokenSupported())"}},
		{ID: "E7.dispatch.provider.jwt", Fn: "op.Exchange", P: []string{"w", "r", "exchanger"}, Kind: "call", Pat: "op.JWTProfile(__)", Max: 1, Req: []string{"eq(" + fv + ", oidc.GrantTypeBearer)", "true($exchanger.GrantTypeJWTAuthorizationSupported())"}},
		{ID: "E7.dispatch.provider.te", Fn: "op.Exchange", P: []string{"w", "r", "exchanger"}, Kind: "call", Pat: "op.TokenExchange(__)", Max: 1, Req: []string{"eq(" + fv + ", oidc.GrantTypeTokenExchange)", "true($exchanger.GrantTypeTokenExchangeSupported())"}},
		{ID: "E7.dispatch.provider.cc", Fn: "op.Exchange", P: []string{"w", "r", "exchanger"}, Kind: "call", Pat: "op.ClientCredentialsExchange(__)", Max: 1, Req: []string{"eq(" + fv + ", oidc.GrantTypeClientCredentials)", "true($exchanger.GrantTypeClientCredentialsSupported())"}},
		{ID: "E7.dispatch.provider.device", Fn: "op.Exchange", P: []string{"w", "r", "exchanger"}, Kind: "call", Pat: "op.DeviceAccessToken(__)", Max: 1, Req: []string{"eq(" + fv + ", oidc.GrantTypeDeviceCode)", "true($exchanger.GrantTypeDeviceCodeSupported())"}},

		{ID: "E1.cc.provider", Fn: "op.ClientCredentialsExchange", Kind: "call", Pat: "op.CreateClientCredentialsTokenResponse(_, $tr, _, $client)", Max: 1,
			Req: []string{"ccValidated($tr, $client, $request)", "def($request, op.ParseClientCredentialsRequest(__), 0)"}},
		{ID: "E1.cc.legacy-server", Fn: "op.(*LegacyServer).ClientCredentialsExchange", P: []string{"s", "ctx", "r"}, Kind: "call", Pat: "op.CreateClientCredentialsTokenResponse(_, $tr, _, $r.Client)", Max: 1,
			Req: []string{"def($tr, _.ClientCredentialsTokenRequest(_, $r.Client.GetID(), $r.Data.Scope), 0)", "ok(_.ClientCredentialsTokenRequest(_, $r.Client.GetID(), $r.Data.Scope))"}},
		{ID: "E1.te.provider", Fn: "op.TokenExchange", Kind: "call", Pat: "op.CreateTokenExchangeResponse(_, $ter, $client, _)", Max: 1,
			Req: []string{"def($ter, op.ValidateTokenExchangeRequest(_, $req, $id, $secret, _), 0)", "def($client, op.ValidateTokenExchangeRequest(_, $req, $id, $secret, _), 1)", "ok(op.ValidateTokenExchangeRequest(_, $req, $id, $secret, _))", "teGranted($client)"}},
		{ID: "E1.te.legacy-server", Fn: "op.(*LegacyServer).TokenExchange", P: []string{"s", "ctx", "r"}, Kind: "call", Pat: "op.CreateTokenExchangeResponse(_, $ter, $r.Client, _)", Max: 1,
			Req: []string{"true($s.provider.GrantTypeTokenExchangeSupported())", "def($ter, op.CreateTokenExchangeRequest(_, $r.Data, $r.Client, _), 0)", "ok(op.CreateTokenExchangeRequest(_, $r.Data, $r.Client, _))"}},
		{ID: "E1.jwt.provider", Fn: "op.JWTProfile", Kind: "call", Pat: "op.CreateJWTTokenResponse(_, $tr, _)", Max: 1,
			Req: []string{"def($tr, op.VerifyJWTAssertion(_, $pr.Assertion, _), 0)", "ok(op.VerifyJWTAssertion(_, $pr.Assertion, _))", "ok(_.ValidateJWTProfileScopes(_, $tr.Issuer, $pr.Scope))"}},
		{ID: "E1.jwt.legacy-server", Fn: "op.(*LegacyServer).JWTProfile", P: []string{"s", "ctx", "r"}, Kind: "call", Pat: "op.CreateJWTTokenResponse(_, $tr, _)", Max: 1,
			Req: []string{"def($tr, op.VerifyJWTAssertion(_, $r.Data.Assertion, _), 0)", "ok(op.VerifyJWTAssertion(_, $r.Data.Assertion, _))", "ok(_.ValidateJWTProfileScopes(_, $tr.Issuer, $r.Data.Scope))"}},
		{ID: "E1.device-auth.provider", Fn: "op.DeviceAuthorization", Kind: "call", Pat: "op.createDeviceAuthorization(_, $req, $req.ClientID, _)", Max: 1,
			Req: []string{"deviceClientOK($req)"}},
		{ID: "E1.device-auth.legacy-server", Fn: "op.(*LegacyServer).DeviceAuthorization", P: []string{"s", "ctx", "r"}, Kind: "call", Pat: "op.createDeviceAuthorization(_, $r.Data, $r.Client.GetID(), _)", Max: 1,
			Req: []string{"true(op.ValidateGrantType($r.Client, oidc.GrantTypeDeviceCode))"}},

		// --- ClientIDFromRequest: the unauthenticated form client_id is handed out only when no credentials were presented at all
		{ID: "E1.clientid.unauthenticated-only-without-credentials", Fn: "op.ClientIDFromRequest", P: []string{"r", "p"}, Kind: "ret ok", Pat: "ret($data.ClientID, false, nil)", Max: 1,
			Why: "presented but wrong Basic credentials are refused, never downgraded to an unauthenticated public-client request",
			Req: []string{"errIs(op.ClientBasicAuth($r, _), op.ErrNoClientCredentials)"}},

		{ID: "E1.basicauth.no-credentials-sentinel-only-without-header", Fn: "op.ClientBasicAuth", P: []string{"r", "storage"}, Kind: "ret fail", Pat: "ret(_, _.WithParent(op.ErrNoClientCredentials))", Max: 1,
			Why: "the sentinel that lets callers fall back to the unauthenticated form client_id means 'no Authorization header', never 'wrong or malformed credentials'",
			Req: []string{"def($ok, _.BasicAuth(), 2)", "false($ok)"}},
		// --- introspection
		{ID: "E1.introspect.provider", Fn: "op.Introspect", Kind: "store", Pat: "store($resp.Active, true)", Max: 1,
			Why: "active:true only for an authenticated caller, a token the provider can resolve, and a successful storage lookup for that caller",
			Req: []string{"introspectionCaller($clientID, $r)", "def($token, op.ParseTokenIntrospectionRequest($r, _), 0)",
				"tokenResolved(_, _, $token)", "def($tokenID, op.getTokenIDAndSubject(_, _, $token), 0)", "def($subject, op.getTokenIDAndSubject(_, _, $token), 1)",
				"ok(_.SetIntrospectionFromToken(_, $resp, $tokenID, $subject, $clientID))"}},
		{ID: "E1.introspect.legacy-server", Fn: "op.(*LegacyServer).Introspect", P: []string{"s", "ctx", "r"}, Kind: "store", Pat: "store($resp.Active, true)", Max: 1,
			Req: []string{"resourceClient($clientID, $r.Data.ClientCredentials)",
				"tokenResolved(_, _, $r.Data.Token)", "def($tokenID, op.getTokenIDAndSubject(_, _, $r.Data.Token), 0)", "def($subject, op.getTokenIDAndSubject(_, _, $r.Data.Token), 1)",
				"ok(_.SetIntrospectionFromToken(_, $resp, $tokenID, $subject, $clientID))"}},

		// --- revocation (Provider); the Server router runs Revocation behind withClient
		// one obligation for every successful return, classified by what the path established (not by how the returned
		// client id is spelled): private_key_jwt assertion, Basic secret, or form credentials
		{ID: "E1.revoke.parse.authenticated", Fn: "op.ParseTokenRevocationRequest", P: []string{"r", "revoker"}, Kind: "ret ok", Min: 1,
			Why: "a client id is returned only for a verified assertion (its issuer), a verified Basic secret, or form credentials of a public client / a verified secret (post only when enabled)",
			Req: []string{
				"(def($profile, op.VerifyJWTAssertion(_, $req.ClientAssertion, _), 0) && ok(op.VerifyJWTAssertion(_, $req.ClientAssertion, _)) && true($revoker.AuthMethodPrivateKeyJWTSupported()) && same($r2, $profile.Issuer))" +
					" || (ok(op.VerifyJWTAssertion(_, $req.ClientAssertion, _)) && true($revoker.AuthMethodPrivateKeyJWTSupported()) && eq($r2, res(0, op.VerifyJWTAssertion(_, $req.ClientAssertion, _)).Issuer))" +
					" || (true(res(2, $r.BasicAuth())) && secretOK($r2, _))" +
					" || (false(res(2, $r.BasicAuth())) && def($client, _.GetClientByClientID(_, $req.ClientID), 0) && " + revForm("$client") + ")" +
					" || (false(res(2, $r.BasicAuth())) && " + revForm("res(0, _.GetClientByClientID(_, $req.ClientID))") + ")"}},
		{ID: "E1.revoke.parse.only", Fn: "op.ParseTokenRevocationRequest", Kind: "ret ok", Max: 4},
	}
	for _, o := range obs {
		if o.ID == "E1.revoke.parse.authenticated" {
			sharedObs["C08"] = append(sharedObs["C08"], o) // "revocation attempts by another client are refused": the revoking client is an authenticated one
		}
	}
	for _, o := range obs {
		if o.ID == "E1.introspect.provider" || o.ID == "E1.introspect.legacy-server" || o.ID == "E1.server.introspect.authenticated" {
			o.ID = strings.Replace(o.ID, "E1.introspect", "E1.introspect.caller", 1)
			sharedObs["C08"] = append(sharedObs["C08"], o)
		}
	}
	// "no tokens without client authentication and a registered grant": the per-grant proofs owned by C04/C07 are part of
	// C05's verdict, and the Server router's authentication gate (owned by C05) is part of the per-grant properties whose
	// LegacyServer siblings rely on it.
	for _, fn := range []string{"op.AuthorizeCodeClient", "op.ValidateAccessTokenRequest", "op.AuthorizeRefreshClient", "op.ValidateRefreshTokenRequest"} {
		guarAlso[fn] = append(guarAlso[fn], "C05")
	}
	for _, o := range obs {
		if strings.HasPrefix(o.ID, "E1.withclient") || strings.HasPrefix(o.ID, "E1.legacy.verifyclient") {
			for _, p := range []string{"C04", "C07", "C15", "C16"} {
				sharedObs[p] = append(sharedObs[p], o)
			}
		}
	}
	for _, fn := range []string{"op.ClientBasicAuth", "op.ClientJWTAuth", "op.ClientIDFromRequest", "op.ParseTokenIntrospectionRequest", "op.(*LegacyServer).authenticateResourceClient", "op.AuthorizeClientIDSecret"} {
		guarAlso[fn] = append(guarAlso[fn], "C08")
	}
	register(&PropSpec{
		ID: "C05",
		Explanation: "Decides, for all paths of both routers: every grant's token-issuing sink (code, refresh, client_credentials, token exchange, jwt-bearer, device) and the introspection active:true store are dominated by the method-appropriate client authentication bound to the client that is used (secret verified by storage / private_key_jwt assertion / public client where allowed) and by the registered-grant check; webServer handlers reach the Server only behind withClient (authentication + ValidateGrantType(client, grant_type)) and the token-endpoint dispatch routes each grant_type constant to the handler of that grant, anything else to unsupported_grant_type; LegacyServer.VerifyClient and ParseTokenRevocationRequest return a client id only on an authenticated path; device authorization requires a known client registered for the device grant. Does not decide HTTP status numbers, JSON error bodies or the secret comparison inside the storage.",
		RuleText:    "obligation = (rule, function, sink site); guarantee obligations are callee-side proofs; who-may-call rows; non-trivial when guard facts or table rows were needed",
		Assumptions: []string{"Storage.AuthorizeClientIDSecret / ClientCredentials compare secrets correctly", "applications implementing Server themselves are outside the library"},
		Trusted:     []string{"go/types, go/cfg (x/tools v0.50.0)", "Storage implementation", "chi router"},
		Level:       "Sound static check (all paths, both routers, assume/guarantee) that authentication and the grant registration check dominate every token / introspection sink and that dispatch tables route each grant constant to its own handler. Wire-level details (status codes, error documents) are not decided.",
		Note:        "Trusted: go/types+go/cfg, Storage contract. The jwt-bearer grant has no registered client object; its sink is bound to a verified assertion instead.",
		Technique:   "static analysis: interprocedural assume/guarantee must-facts dataflow over go/cfg; dispatch-table extraction; who-may-call tables",
		Rules:       []string{"E1"},
		Run: func(c *Ctx) {
			RunE1(c, "C05", obs)
			RunIssuerCoverage(c, "E7.routes.issuer-interceptor", []string{"KeysEndpoint"}) // handlers verify tokens / assertions against the issuer the interceptor puts into the context
			RunHandlerValues(c)
			RunCallers(c, "E1.cc-sink-table", "op.CreateClientCredentialsTokenResponse", []string{"op.ClientCredentialsExchange", "op.(*LegacyServer).ClientCredentialsExchange"}, "client_credentials token sink")
			RunCallers(c, "E1.te-sink-table", "op.CreateTokenExchangeResponse", []string{"op.TokenExchange", "op.(*LegacyServer).TokenExchange"}, "token-exchange token sink")
			RunCallers(c, "E1.jwt-sink-table", "op.CreateJWTTokenResponse", []string{"op.JWTProfile", "op.(*LegacyServer).JWTProfile"}, "jwt-bearer token sink")
			RunCallers(c, "E1.device-sink-table", "op.CreateDeviceTokenResponse", []string{"op.deviceAccessToken", "op.(*LegacyServer).DeviceToken"}, "device token sink")
			RunCallers(c, "E1.device-auth-table", "op.createDeviceAuthorization", []string{"op.DeviceAuthorization", "op.(*LegacyServer).DeviceAuthorization"}, "device authorization sink")
		},
	})
}

// RunHandlerValues: the client handlers of webServer are used as values only as the argument of s.withClient(...).
func RunHandlerValues(c *Ctx) {
	handlers := []string{"codeExchangeHandler", "refreshTokenHandler", "clientCredentialsHandler", "tokenExchangeHandler", "deviceTokenHandler", "deviceAuthorizationHandler", "revocationHandler"}
	RunMethodValueUses(c, "E1.withclient-only", "op", "webServer", handlers, "withClient",
		"a client handler must be reachable only through withClient, which authenticates the client and checks the grant")
}
