package main

// Thorough tier: sensitivity matrix.  For every function the property's rules looked at, derive small source
// mutants (negated guard, dropped return, dropped guard, weakened && / ||, swapped same-typed arguments, sibling
// field), apply each through the loader's overlay in a child process, discard those that do not type-check, and
// record whether the property's rules report anything new.  Survivors are listed in the evidence as possible
// checker weaknesses (or equivalent mutants); they never change the exit code: a surviving mutant is not a
// violation of the property by /repo.

import (
	"bytes"
	"encoding/json"
	"fmt"
	"go/ast"
	"go/token"
	"go/types"
	"math/rand"
	"os"
	"os/exec"
	"runtime"
	"sort"
	"strconv"
	"strings"
	"sync"
	"time"
)

type Mutant struct {
	File  string `json:"file"`
	Start int    `json:"-"`
	End   int    `json:"-"`
	Repl  string `json:"replacement"`
	Desc  string `json:"mutation"`
	Func  string `json:"function"`
	Line  int    `json:"line"`
	Res   string `json:"result,omitempty"`
}

func srcOf(src []byte, fset *token.FileSet, n ast.Node) string {
	return string(src[fset.Position(n.Pos()).Offset:fset.Position(n.End()).Offset])
}

func genMutants(c *Ctx, funcs map[string]bool) []Mutant {
	var out []Mutant
	fset := c.P.Fset
	srcCache := map[string][]byte{}
	for _, fi := range c.P.Funcs {
		if fi.Ctl || fi.Body == nil || !funcs[fi.Name] {
			continue
		}
		file := fset.Position(fi.Pos()).Filename
		src, ok := srcCache[file]
		if !ok {
			b, err := os.ReadFile(file)
			if err != nil {
				continue
			}
			src, srcCache[file] = b, b
		}
		info := fi.Pkg.TypesInfo
		add := func(n ast.Node, repl, desc string) {
			p, e := fset.Position(n.Pos()), fset.Position(n.End())
			out = append(out, Mutant{File: file, Start: p.Offset, End: e.Offset, Repl: repl, Desc: desc, Func: fi.Name, Line: p.Line})
		}
		ast.Inspect(fi.Body, func(n ast.Node) bool {
			if lit, ok := n.(*ast.FuncLit); ok && lit != fi.Lit {
				return false
			}
			switch s := n.(type) {
			case *ast.IfStmt:
				add(s.Cond, "!("+srcOf(src, fset, s.Cond)+")", "negate condition")
				if be, ok := unparen(s.Cond).(*ast.BinaryExpr); ok && (be.Op == token.LAND || be.Op == token.LOR) {
					add(s.Cond, srcOf(src, fset, be.X), "keep only left operand of "+be.Op.String())
					add(s.Cond, srcOf(src, fset, be.Y), "keep only right operand of "+be.Op.String())
				}
				if len(s.Body.List) > 0 && s.Else == nil {
					last := s.Body.List[len(s.Body.List)-1]
					if _, ok := last.(*ast.ReturnStmt); ok {
						add(last, "", "drop return of the guard's failure branch")
						if s.Init == nil {
							add(s, "", "drop the whole guard")
						} else if as, ok := s.Init.(*ast.AssignStmt); ok && len(as.Rhs) == 1 {
							// keep the call, drop the check
							add(s, "_ = "+srcOf(src, fset, as.Rhs[0]), "call kept, result ignored")
						}
					}
				}
			case *ast.CallExpr:
				// swap two arguments of identical type
				for i := 0; i < len(s.Args); i++ {
					for j := i + 1; j < len(s.Args); j++ {
						ti, tj := info.TypeOf(s.Args[i]), info.TypeOf(s.Args[j])
						if ti == nil || tj == nil || !types.Identical(ti, tj) {
							continue
						}
						if _, isBasicLit := s.Args[i].(*ast.BasicLit); isBasicLit {
							continue
						}
						a, b := srcOf(src, fset, s.Args[i]), srcOf(src, fset, s.Args[j])
						if a == b {
							continue
						}
						p, e := fset.Position(s.Args[i].Pos()), fset.Position(s.Args[j].End())
						mid := string(src[fset.Position(s.Args[i].End()).Offset:fset.Position(s.Args[j].Pos()).Offset])
						out = append(out, Mutant{File: file, Start: p.Offset, End: e.Offset, Repl: b + mid + a, Desc: fmt.Sprintf("swap arguments %d and %d of %s", i, j, types.ExprString(s.Fun)), Func: fi.Name, Line: p.Line})
					}
				}
				// sibling field of the same type: v.Issuer -> v.ClientID
				for _, a := range s.Args {
					sel, ok := unparen(a).(*ast.SelectorExpr)
					if !ok {
						continue
					}
					selInfo, ok := info.Selections[sel]
					if !ok || selInfo.Kind() != types.FieldVal {
						continue
					}
					st, ok := derefType(selInfo.Recv()).Underlying().(*types.Struct)
					if !ok {
						continue
					}
					for k := 0; k < st.NumFields(); k++ {
						f := st.Field(k)
						if f.Name() != sel.Sel.Name && types.Identical(f.Type(), selInfo.Type()) && (f.Exported() || f.Pkg() == fi.Pkg.Types) {
							add(sel.Sel, f.Name(), "use sibling field "+f.Name()+" instead of "+sel.Sel.Name)
							break
						}
					}
				}
			case *ast.BinaryExpr:
				switch s.Op {
				case token.EQL:
					add(s, srcOf(src, fset, s.X)+" != "+srcOf(src, fset, s.Y), "== becomes !=")
				case token.NEQ:
					add(s, srcOf(src, fset, s.X)+" == "+srcOf(src, fset, s.Y), "!= becomes ==")
				case token.LSS:
					add(s, srcOf(src, fset, s.X)+" <= "+srcOf(src, fset, s.Y), "< becomes <=")
				case token.GTR:
					add(s, srcOf(src, fset, s.X)+" >= "+srcOf(src, fset, s.Y), "> becomes >=")
				}
			}
			return true
		})
	}
	return out
}

func applyMutant(m Mutant) ([]byte, error) {
	src, err := os.ReadFile(m.File)
	if err != nil {
		return nil, err
	}
	var b bytes.Buffer
	b.Write(src[:m.Start])
	b.WriteString(m.Repl)
	b.Write(src[m.End:])
	return b.Bytes(), nil
}

// runMutantChildAll: like runMutantChild but evaluates every registered property (global matrix).
func runMutantChildAll(repo, verif string, m Mutant) {
	src, err := applyMutant(m)
	if err != nil {
		fmt.Println("MUTANT error", err)
		return
	}
	p, err := Load(LoadOpts{Repo: repo, Controls: verif + "/checker/controls", Overlay: map[string][]byte{m.File: src}})
	if err != nil {
		fmt.Println("MUTANT compile-error")
		return
	}
	known, _ := loadKnown(verif + "/known_findings.json")
	var hits []string
	for _, id := range allProps {
		ps := registry[id]
		if ps == nil {
			continue
		}
		r := NewReporter(ps.ID, "quick", 0)
		c := &Ctx{P: p, R: r, Tier: "quick", Verif: verif}
		func() {
			defer func() {
				if e := recover(); e != nil {
					r.Fail("engine-panic", "-", fmt.Sprint(e), fmt.Sprint(e))
				}
			}()
			ps.Run(c)
		}()
		kk := map[string]bool{}
		for _, e := range known.Entries {
			if e.Status == "known" && e.Property == ps.ID {
				kk[e.Key] = true
			}
		}
		n := 0
		for _, f := range r.Findings {
			if isCtlFunc(f.Func) || kk[f.Key()] {
				continue
			}
			n++
		}
		if n > 0 {
			hits = append(hits, fmt.Sprintf("%s:%d", id, n))
		}
	}
	if len(hits) == 0 {
		fmt.Println("MUTANT survived")
		return
	}
	fmt.Printf("MUTANT killed %d %s\n", len(hits), strings.Join(hits, ","))
}

// RunGlobalMatrix: mutants over every function any property has a non-trivial obligation in, judged by all properties.
func RunGlobalMatrix(repo, verif string, seed int) int {
	p, err := Load(LoadOpts{Repo: repo, Controls: verif + "/checker/controls"})
	if err != nil {
		fmt.Println("load:", err)
		return 2
	}
	funcs := map[string]bool{}
	var ctx *Ctx
	for _, id := range allProps {
		ps := registry[id]
		if ps == nil {
			continue
		}
		r := NewReporter(id, "quick", seed)
		c := &Ctx{P: p, R: r, Tier: "quick", Verif: verif}
		ps.Run(c)
		for _, o := range r.Obls {
			if !o.Ctl && !isCtlFunc(o.Func) && o.Nontrivial {
				funcs[o.Func] = true
				funcs[rootFunc(o.Func)] = true
			}
		}
		ctx = c
	}
	muts := genMutants(ctx, funcs)
	if kinds := os.Getenv("VERIF_MUTKIND"); kinds != "" { // e.g. "swap arguments|sibling field": only these mutation operators
		var keep []Mutant
		for _, m := range muts {
			for _, k := range strings.Split(kinds, "|") {
				if strings.Contains(m.Desc, k) {
					keep = append(keep, m)
					break
				}
			}
		}
		muts = keep
	}
	total := len(muts)
	limit := 1500
	if s := os.Getenv("VERIF_MUTANTS"); s != "" {
		if v, err := strconv.Atoi(s); err == nil {
			limit = v
		}
	}
	rng := rand.New(rand.NewSource(int64(seed) + 7))
	rng.Shuffle(len(muts), func(i, j int) { muts[i], muts[j] = muts[j], muts[i] })
	if len(muts) > limit {
		muts = muts[:limit]
	}
	workers := runtime.NumCPU() - 4
	if workers > 10 {
		workers = 10
	}
	if workers < 2 {
		workers = 2
	}
	var wg sync.WaitGroup
	ch := make(chan int)
	for w := 0; w < workers; w++ {
		wg.Add(1)
		go func() {
			defer wg.Done()
			for i := range ch {
				m := muts[i]
				cmd := exec.Command(os.Args[0], "-repo", repo, "-verif", verif, "-prop", "ALL", "-mutant-child",
					"-mutant-file", m.File, "-mutant-start", fmt.Sprint(m.Start), "-mutant-end", fmt.Sprint(m.End), "-mutant-repl", m.Repl)
				out, _ := cmd.CombinedOutput()
				res := "error"
				for _, l := range strings.Split(string(out), "\n") {
					if strings.HasPrefix(l, "MUTANT ") {
						res = strings.TrimPrefix(l, "MUTANT ")
					}
				}
				muts[i].Res = res
			}
		}()
	}
	for i := range muts {
		ch <- i
	}
	close(ch)
	wg.Wait()
	comp, killed := 0, 0
	var survivors []Mutant
	for _, m := range muts {
		if strings.HasPrefix(m.Res, "compile-error") || strings.HasPrefix(m.Res, "error") {
			continue
		}
		comp++
		mm := m
		mm.File = relTo(repo, m.File)
		if strings.HasPrefix(m.Res, "killed") {
			killed++
		} else {
			survivors = append(survivors, mm)
		}
	}
	sort.Slice(survivors, func(i, j int) bool {
		if survivors[i].File != survivors[j].File {
			return survivors[i].File < survivors[j].File
		}
		return survivors[i].Line < survivors[j].Line
	})
	out := map[string]any{"generated": total, "run": len(muts), "compilable": comp, "reported_by_some_property": killed, "survivors": survivors, "seed": seed}
	b, _ := json.MarshalIndent(out, "", " ")
	os.MkdirAll(verif+"/matrix", 0o755)
	os.WriteFile(verif+"/matrix/global.json", b, 0o644)
	fmt.Printf("global matrix: %d generated, %d run, %d type-check, %d reported by at least one property, %d survivors -> matrix/global.json\n", total, len(muts), comp, killed, len(survivors))
	return 0
}

// runMutantChild: executed in a child process; prints exactly one MUTANT line.
func runMutantChild(ps *PropSpec, repo, verif string, m Mutant) {
	src, err := applyMutant(m)
	if err != nil {
		fmt.Println("MUTANT error", err)
		return
	}
	p, err := Load(LoadOpts{Repo: repo, Controls: verif + "/checker/controls", Overlay: map[string][]byte{m.File: src}})
	if err != nil {
		fmt.Println("MUTANT compile-error")
		return
	}
	r := NewReporter(ps.ID, "quick", 0)
	c := &Ctx{P: p, R: r, Tier: "quick", Verif: verif}
	func() {
		defer func() {
			if e := recover(); e != nil {
				r.Fail("engine-panic", "-", fmt.Sprint(e), fmt.Sprint(e))
			}
		}()
		ps.Run(c)
	}()
	known, _ := loadKnown(verif + "/known_findings.json")
	kk := map[string]bool{}
	for _, e := range known.Entries {
		if e.Status == "known" && e.Property == ps.ID {
			kk[e.Key] = true
		}
	}
	rules := map[string]bool{}
	n := 0
	for _, f := range r.Findings {
		if isCtlFunc(f.Func) || kk[f.Key()] {
			continue
		}
		n++
		rules[f.Rule] = true
	}
	if n == 0 {
		fmt.Println("MUTANT survived")
		return
	}
	var rs []string
	for k := range rules {
		rs = append(rs, k)
	}
	sort.Strings(rs)
	fmt.Printf("MUTANT killed %d %s\n", n, strings.Join(rs, ","))
}

// RunMutantMatrix: thorough-tier sensitivity run for one property.
func RunMutantMatrix(c *Ctx, ps *PropSpec, repo, verif string, seed int) {
	funcs := map[string]bool{}
	for _, o := range c.R.Obls {
		if !o.Ctl && !isCtlFunc(o.Func) && o.Nontrivial {
			funcs[o.Func] = true
			funcs[rootFunc(o.Func)] = true
		}
	}
	muts := genMutants(c, funcs)
	sort.SliceStable(muts, func(i, j int) bool {
		if muts[i].File != muts[j].File {
			return muts[i].File < muts[j].File
		}
		return muts[i].Start < muts[j].Start
	})
	limit := 360
	if s := os.Getenv("VERIF_MUTANTS"); s != "" {
		if v, err := strconv.Atoi(s); err == nil {
			limit = v
		}
	}
	total := len(muts)
	if len(muts) > limit {
		rng := rand.New(rand.NewSource(int64(seed) + 1))
		rng.Shuffle(len(muts), func(i, j int) { muts[i], muts[j] = muts[j], muts[i] })
		muts = muts[:limit]
	}
	workers := runtime.NumCPU() - 4
	if workers < 2 {
		workers = 2
	}
	if workers > 10 {
		workers = 10
	}
	deadline := time.Now().Add(12 * time.Minute)
	var wg sync.WaitGroup
	ch := make(chan int)
	for w := 0; w < workers; w++ {
		wg.Add(1)
		go func() {
			defer wg.Done()
			for i := range ch {
				if time.Now().After(deadline) {
					muts[i].Res = "skipped (time cap)"
					continue
				}
				m := muts[i]
				cmd := exec.Command(os.Args[0], "-repo", repo, "-verif", verif, "-prop", ps.ID, "-mutant-child",
					"-mutant-file", m.File, "-mutant-start", fmt.Sprint(m.Start), "-mutant-end", fmt.Sprint(m.End), "-mutant-repl", m.Repl)
				out, _ := cmd.CombinedOutput()
				res := "error"
				for _, l := range strings.Split(string(out), "\n") {
					if strings.HasPrefix(l, "MUTANT ") {
						res = strings.TrimPrefix(l, "MUTANT ")
					}
				}
				muts[i].Res = res
			}
		}()
	}
	for i := range muts {
		ch <- i
	}
	close(ch)
	wg.Wait()
	comp, killed := 0, 0
	var survivors []Mutant
	byKind := map[string][2]int{}
	for _, m := range muts {
		if strings.HasPrefix(m.Res, "compile-error") || strings.HasPrefix(m.Res, "error") || strings.HasPrefix(m.Res, "skipped") {
			continue
		}
		comp++
		kind := strings.SplitN(m.Desc, " of ", 2)[0]
		if strings.HasPrefix(kind, "swap arguments") {
			kind = "swap arguments"
		}
		if strings.HasPrefix(kind, "use sibling field") {
			kind = "use sibling field"
		}
		k := byKind[kind]
		k[0]++
		if strings.HasPrefix(m.Res, "killed") {
			killed++
			k[1]++
		} else {
			mm := m
			mm.File = relTo(repo, m.File)
			if len(mm.Repl) > 80 {
				mm.Repl = mm.Repl[:80] + "..."
			}
			survivors = append(survivors, mm)
		}
		byKind[kind] = k
	}
	if len(survivors) > 60 {
		survivors = survivors[:60]
	}
	kinds := map[string]string{}
	for k, v := range byKind {
		kinds[k] = fmt.Sprintf("%d/%d killed", v[1], v[0])
	}
	c.R.Extra["mutants_generated"] = total
	c.R.Extra["mutants_run"] = len(muts)
	c.R.Extra["mutants_compilable"] = comp
	c.R.Extra["mutants_killed"] = killed
	c.R.Extra["mutants_by_kind"] = kinds
	c.R.Extra["mutant_survivors"] = survivors
	c.R.Extra["mutant_note"] = "mutants are derived from the functions this property's rules examined; a survivor is either an equivalent/irrelevant mutant (the mutated statement is not part of this property's obligations) or a checker weakness; survivors never affect the verdict on /repo"
	fmt.Printf("%s thorough: sensitivity matrix: %d mutants generated, %d run, %d type-check, %d reported by the property's rules\n", ps.ID, total, len(muts), comp, killed)
}
