package main

// E1 — must-facts (guard-before-sink) analysis over go/cfg, path-sensitive up to a cap.
// See DESIGN.md §2 E1.  The engine computes, for every program point of one function, the set of
// fact-sets that can reach it (one per distinguishable path class); sinks are then checked against
// requirement clauses under unification of pattern variables.

import (
	"fmt"
	"os"
	"go/ast"
	"go/token"
	"go/types"
	"sort"
	"strings"

	"golang.org/x/tools/go/cfg"
	"golang.org/x/tools/go/types/typeutil"
)

const e1StateCap = 3000

type fstate struct {
	facts map[string]*Term
	key   string
	from  *fstate
	via   string
}

func (s *fstate) Key() string {
	if s.key == "" {
		ks := sortedKeys(s.facts)
		s.key = strings.Join(ks, "\n") + "\n"
	}
	return s.key
}

func (s *fstate) clone() *fstate {
	n := &fstate{facts: make(map[string]*Term, len(s.facts)+4), from: s.from, via: s.via}
	for k, v := range s.facts {
		n.facts[k] = v
	}
	return n
}

func (s *fstate) has(f *Term) bool { _, ok := s.facts[f.Key()]; return ok }

var complement = map[string]string{
	"ok": "fail", "fail": "ok", "eq": "neq", "neq": "eq", "true": "false", "false": "true",
	"is": "notis", "notis": "is", "nil": "nonnil", "nonnil": "nil", "has": "lacks", "lacks": "has",
	"errIs": "notErrIs", "notErrIs": "errIs", "errAs": "notErrAs", "notErrAs": "errAs",
	"member": "notmember", "notmember": "member",
}

func swapped(f *Term) *Term {
	if len(f.A) == 2 {
		return fact(f.S, f.A[1], f.A[0])
	}
	return f
}

// contradicts: would adding f make the state infeasible?
func (s *fstate) contradicts(f *Term) bool {
	if c, ok := complement[f.S]; ok {
		cf := fact(c, f.A...)
		if s.has(cf) {
			return true
		}
		if (f.S == "eq" || f.S == "neq") && s.has(swapped(cf)) {
			return true
		}
	}
	switch f.S {
	case "true", "false":
		// a boolean known to equal the opposite constant
		if len(f.A) == 1 {
			opp := mk("const", "false")
			if f.S == "false" {
				opp = mk("const", "true")
			}
			if s.has(fact("eq", f.A[0], opp)) || s.has(fact("eq", opp, f.A[0])) {
				return true
			}
		}
	case "nil", "nonnil":
		if len(f.A) == 1 && f.S == "nonnil" {
			if s.has(fact("eq", f.A[0], mk("nil", ""))) || s.has(fact("eq", mk("nil", ""), f.A[0])) {
				return true
			}
		}
	}
	switch f.S {
	case "lt": // lt(a,b) contradicts le(b,a)
		if s.has(fact("le", f.A[1], f.A[0])) || s.has(fact("lt", f.A[1], f.A[0])) {
			return true
		}
	case "le":
		if s.has(fact("lt", f.A[1], f.A[0])) {
			return true
		}
	case "eq":
		for i := 0; i < 2; i++ {
			x, c := f.A[i], f.A[1-i]
			if c.K == "const" && c.S == "false" && s.has(fact("true", x)) {
				return true
			}
			if c.K == "const" && c.S == "true" && s.has(fact("false", x)) {
				return true
			}
			if c.K == "nil" && s.has(fact("nonnil", x)) {
				return true
			}
		}
		// x == c1 while the state knows x == c2 for a different constant
		for i := 0; i < 2; i++ {
			x, c := f.A[i], f.A[1-i]
			if c.K != "const" && c.K != "nil" {
				continue
			}
			for _, g := range s.facts {
				if g.S != "eq" || len(g.A) != 2 {
					continue
				}
				for j := 0; j < 2; j++ {
					if g.A[j].Key() == x.Key() && (g.A[1-j].K == "const") && c.K == "const" && g.A[1-j].Key() != c.Key() {
						return true
					}
				}
			}
		}
	}
	return false
}

// with returns a new state extended by the facts, or nil when infeasible.
func (s *fstate) with(fs ...*Term) *fstate {
	if len(fs) == 0 {
		return s
	}
	n := s.clone()
	for _, f := range fs {
		if n.contradicts(f) {
			return nil
		}
		// adding a fact retires its complement-free duplicates
		n.facts[f.Key()] = f
	}
	n.key = ""
	return n
}

func (s *fstate) kill(root types.Object, path []string) *fstate { return s.killX(root, path, false) }

// killX: viaCall = the memory reachable from root may have been written by a callee; the variable itself keeps its value.
func (s *fstate) killX(root types.Object, path []string, viaCall bool) *fstate {
	var n *fstate
	for k, f := range s.facts {
		if f.S == "called" || strings.HasPrefix(f.S, "did") {
			continue // an event that happened stays true
		}
		if f.S == "orig" && (len(path) > 0 || viaCall) {
			continue // the variable still holds the caller's value; only a reassignment ends that
		}
		hit := mentions(f, root, path)
		if hit && (f.S == "errAs" || f.S == "notErrAs") && (len(path) > 0 || viaCall) && len(f.A) == 2 && f.A[1].K == "var" && f.A[1].Obj == root && !mentions(f.A[0], root, path) {
			hit = false // whether errors.As matched (and bound the target variable) is not changed by a later store to a field of the target
		}
		if hit && (f.S == "def" || f.S == "defx") && (len(path) > 0 || viaCall) && len(f.A) >= 2 && f.A[0].K == "var" && f.A[0].Obj == root {
			// a field store through v does not change where the pointer v came from
			hit = false
			for _, a := range f.A[1:] {
				if mentions(a, root, path) {
					hit = true
				}
			}
		}
		if hit {
			if n == nil {
				n = s.clone()
			}
			delete(n.facts, k)
		}
	}
	if n == nil {
		return s
	}
	n.key = ""
	return n
}

// forgetCall drops every fact that mentions the call term (its outcome, its results, classifications of its error);
// event facts stay.
func (s *fstate) forgetCall(call *Term) *fstate {
	ck := call.Key()
	var n *fstate
	for k, f := range s.facts {
		if f.S == "called" || strings.HasPrefix(f.S, "did") || f.S == "orig" {
			continue
		}
		hit := false
		f.walk(func(x *Term) bool {
			if (x.K == "call" || x.K == "mcall") && x.Key() == ck {
				hit = true
			}
			return !hit
		})
		if hit {
			if n == nil {
				n = s.clone()
			}
			delete(n.facts, k)
		}
	}
	if n == nil {
		return s
	}
	n.key = ""
	return n
}

func (s *fstate) trail() []string {
	var out []string
	for x := s; x != nil; x = x.from {
		if x.via != "" {
			out = append(out, x.via)
		}
	}
	for i, j := 0, len(out)-1; i < j; i, j = i+1, j-1 {
		out[i], out[j] = out[j], out[i]
	}
	if len(out) > 24 {
		out = append(out[:8], append([]string{"..."}, out[len(out)-15:]...)...)
	}
	return out
}

// ---------------------------------------------------------------------------------------------

// Guar: facts a function guarantees to its caller on its success edge (assumed at callers,
// verified on the function's own success returns).
type Guar struct {
	Prop  string   // property that owns (verifies) the guarantee
	Fn    string   // FuncInfo name
	P     []string // positional names: receiver first (methods), then parameters; "" = unnamed
	Facts []string // what callers learn on the success edge: fact patterns over $<P> and $r0..$rN (may be abstract predicates)
	Proof []string // clauses the function itself must establish on every success return (default: Facts)
	FailFacts []string // what callers learn on the failure / false edge (abstract predicates)
	FailProof []string // clauses the function establishes on every failure / false return
	facts []*Term
	failFacts []*Term
}

type e1 struct {
	c     *Ctx
	guars map[string]*Guar // by FuncInfo name
	byObj map[*types.Func]*FuncInfo
	muts  map[*FuncInfo]map[int]bool // param index (recv = -1) -> mutated
	mutFields map[*FuncInfo]map[int]map[string]bool // ... -> first-level fields written ("*" = anything reachable)
	cache map[*FuncInfo]*e1func
	inferred  map[*FuncInfo][]*Term
	inferring map[*FuncInfo]bool
	collapsed int
	globalInit map[*types.Var]bool
	relevant   []*Term
	relSeen    map[string]bool
	relCache   map[string]bool
	relevantFn func(*Term) bool
	anchors   map[string]bool        // functions named by obligations: analysed modularly, never interpreted in place
	noInline  func(*FuncInfo) bool
	valueEq   map[string]bool // eq(result of an interpreted helper, value) facts recorded at helper exits
	wantIndex bool // also record index/slice expressions as sites (kind "index"): used to justify bounds sites inside helpers
}

func newE1(c *Ctx, guars []*Guar) *e1 {
	e := &e1{c: c, guars: map[string]*Guar{}, byObj: map[*types.Func]*FuncInfo{}, muts: map[*FuncInfo]map[int]bool{}, cache: map[*FuncInfo]*e1func{}, anchors: map[string]bool{}, mutFields: map[*FuncInfo]map[int]map[string]bool{}}
	for _, fi := range c.P.Funcs {
		if fi.Obj != nil {
			e.byObj[fi.Obj] = fi
		}
	}
	for _, g := range guars {
		g.facts = nil
		for _, f := range g.Facts {
			g.facts = append(g.facts, mustFactPattern(f))
		}
		g.failFacts = nil
		for _, f := range g.FailFacts {
			g.failFacts = append(g.failFacts, mustFactPattern(f))
		}
		e.relevant = append(e.relevant, g.failFacts...)
		e.addRelevant(g.FailProof...)
		for _, q := range g.failFacts {
			if !factPreds[q.S] {
				abstractFailDefs[q.S] = append(abstractFailDefs[q.S], g)
			}
		}
		e.guars[g.Fn] = g
		for _, q := range g.facts {
			if !factPreds[q.S] {
				dup := false
				for _, x := range abstractDefs[q.S] {
					if x == g {
						dup = true
					}
				}
				if !dup {
					abstractDefs[q.S] = append(abstractDefs[q.S], g)
				}
			}
		}
		e.relevant = append(e.relevant, g.facts...)
		e.addRelevant(g.Proof...)
	}
	e.computeMuts()
	e.computeReads()
	return e
}

// computeReads fills methodReads: methods whose body touches the receiver only through direct field reads.
func (e *e1) computeReads() {
	for _, fi := range e.c.P.Funcs {
		if fi.Obj == nil || fi.Body == nil || fi.Sig == nil || fi.Sig.Recv() == nil || fi.Decl == nil {
			continue
		}
		recv := fi.Sig.Recv()
		info := fi.Pkg.TypesInfo
		fields := map[string]bool{}
		simple := true
		ast.Inspect(fi.Body, func(n ast.Node) bool {
			switch x := n.(type) {
			case *ast.SelectorExpr:
				if id, ok := unparen(x.X).(*ast.Ident); ok && info.Uses[id] == recv {
					if s, ok := info.Selections[x]; ok && s.Kind() == types.FieldVal {
						fields[x.Sel.Name] = true
					} else {
						simple = false // method call on the receiver
					}
					return false
				}
			case *ast.Ident:
				if info.Uses[x] == recv {
					simple = false // receiver used as a whole
				}
			}
			return true
		})
		if simple {
			var fs []string
			for f := range fields {
				fs = append(fs, f)
			}
			sort.Strings(fs)
			methodReads[fi.Obj] = fs
		}
	}
}

// computeMuts: which pointer-like parameters (or receivers) a function writes through (fixpoint over direct calls).
func (e *e1) computeMuts() {
	paramIndex := func(fi *FuncInfo) map[types.Object]int {
		m := map[types.Object]int{}
		if fi.Sig == nil {
			return m
		}
		if r := fi.Sig.Recv(); r != nil {
			m[r] = -1
		}
		for i := 0; i < fi.Sig.Params().Len(); i++ {
			m[fi.Sig.Params().At(i)] = i
		}
		return m
	}
	pointerLike := func(t types.Type) bool {
		switch t.Underlying().(type) {
		case *types.Pointer, *types.Map, *types.Slice, *types.Interface:
			return true
		}
		if _, ok := t.(*types.TypeParam); ok {
			return true
		}
		return false
	}
	var lastField string // first-level field of the last rootOf result ("*" when not a plain field path)
	rootOf := func(info *types.Info, x ast.Expr) (types.Object, bool) {
		deref := false
		lastField = ""
		for {
			x = unparen(x)
			switch y := x.(type) {
			case *ast.Ident:
				o := info.Uses[y]
				if o == nil {
					o = info.Defs[y]
				}
				return o, deref
			case *ast.SelectorExpr:
				deref = true
				lastField = y.Sel.Name
				x = y.X
			case *ast.StarExpr:
				deref = true
				lastField = "*"
				x = y.X
			case *ast.IndexExpr:
				deref = true
				lastField = "*"
				x = y.X
			default:
				return nil, false
			}
		}
	}
	changed := true
	for iter := 0; changed && iter < 8; iter++ {
		changed = false
		for _, fi := range e.c.P.Funcs {
			if fi.Body == nil || fi.Sig == nil || fi.Lit != nil {
				continue
			}
			info := fi.Pkg.TypesInfo
			pi := paramIndex(fi)
			markF := func(o types.Object, field string) {
				idx, ok := pi[o]
				if !ok || !pointerLike(o.Type()) {
					return
				}
				if e.muts[fi] == nil {
					e.muts[fi] = map[int]bool{}
				}
				if !e.muts[fi][idx] {
					e.muts[fi][idx] = true
					changed = true
				}
				if field == "" {
					field = "*"
				}
				if e.mutFields[fi] == nil {
					e.mutFields[fi] = map[int]map[string]bool{}
				}
				if e.mutFields[fi][idx] == nil {
					e.mutFields[fi][idx] = map[string]bool{}
				}
				if !e.mutFields[fi][idx][field] {
					e.mutFields[fi][idx][field] = true
					changed = true
				}
			}
			mark := func(o types.Object) { markF(o, lastField) }
			ast.Inspect(fi.Body, func(n ast.Node) bool {
				switch s := n.(type) {
				case *ast.AssignStmt:
					for _, l := range s.Lhs {
						if o, d := rootOf(info, l); o != nil && d {
							mark(o)
						}
					}
				case *ast.IncDecStmt:
					if o, d := rootOf(info, s.X); o != nil && d {
						mark(o)
					}
				case *ast.CallExpr:
					fn, _ := typeutil.Callee(info, s).(*types.Func)
					if fn == nil {
						return true
					}
					callee := e.byObj[fn.Origin()]
					if callee == nil || e.muts[callee] == nil {
						return true
					}
					for idx := range e.muts[callee] {
						var arg ast.Expr
						if idx == -1 {
							if sel, ok := unparen(s.Fun).(*ast.SelectorExpr); ok {
								arg = sel.X
							}
						} else if idx < len(s.Args) {
							arg = s.Args[idx]
						}
						if arg == nil {
							continue
						}
						if u, ok := unparen(arg).(*ast.UnaryExpr); ok && u.Op == token.AND {
							arg = u.X
						}
						if o, d := rootOf(info, arg); o != nil {
							if !d {
								// the parameter itself is handed on: the callee's written fields are ours
								for fl := range e.mutFields[callee][idx] {
									markF(o, fl)
								}
							} else {
								mark(o)
							}
						}
					}
				}
				return true
			})
		}
	}
}

// ---------------------------------------------------------------------------------------------

type e1site struct {
	kind   string // "call" | "ret" | "store" | "backedge"
	node   ast.Node
	term   *Term // call term | ret(operands...) | store(lhs, rhs) | backedge(rangeX)
	pos    token.Pos
	states []*fstate
	ok     []bool // for "ret": per state, is this a success return (error operand may be nil)
	sure   []bool // for "ret": per state, is the status decided (definitely success / definitely failure)
	retIdx int
	chain  string // "" for the function's own sites; call chain for sites of inlined helpers
}

type subCond struct {
	f *e1func
	e ast.Expr
}

type e1func struct {
	eng      *e1
	fi       *FuncInfo
	info     *types.Info
	tb       *termBuilder
	caseTag  map[ast.Expr]ast.Expr // case expression -> switch tag (nil for tagless)
	caseType map[ast.Expr]ast.Expr // type-switch case type -> switched expression
	tsClause map[*ast.CaseClause]ast.Expr // type-switch clause -> switched expression
	closureW map[types.Object][]types.Object
	sites    []*e1site
	statusOf map[string]int // call term key -> index of its status result (-1: none)
	errIdx   int // index of the status result (error or trailing bool), -1 if none
	errBool  bool
	widened  bool
	visits   int
	// inlining of helper functions (e1_inline.go)
	parent    *e1func
	depth     int
	callPos   token.Pos
	entry     *fstate
	assigned  map[types.Object]int
	addrTaken map[types.Object]bool
	inlTarget map[*ast.CallExpr]*FuncInfo
	inlMemo   map[string]*inlResult
	curSites  *[]*e1site
	emitted   map[string]bool
	eligCache map[any]map[*ast.CallExpr]bool
	loopAll   map[*ast.RangeStmt][]*Term // all(xs, F) facts established when the range loop is exhausted
	brDepth   int
	subCond   map[types.Object]subCond
	boolDef   map[types.Object]ast.Expr // boolean locals assigned exactly once: their defining condition
	noInlineLeaf int
	opaqueID  int
	forAll    map[*ast.ForStmt][]*Term // the same for canonical index loops
}

func (e *e1) analyse(fi *FuncInfo) *e1func {
	if f, ok := e.cache[fi]; ok {
		return f
	}
	f := &e1func{eng: e, fi: fi, info: fi.Pkg.TypesInfo, caseTag: map[ast.Expr]ast.Expr{}, caseType: map[ast.Expr]ast.Expr{}, tsClause: map[*ast.CaseClause]ast.Expr{}, closureW: map[types.Object][]types.Object{}, statusOf: map[string]int{}, errIdx: -1}
	e.cache[fi] = f
	f.prepare()
	f.run()
	return f
}

func isErrorType(t types.Type) bool {
	et := types.Universe.Lookup("error").Type()
	if types.Identical(t, et) {
		return true
	}
	// concrete error results such as *oidc.Error (Storage.RevokeToken)
	if _, isPtr := t.(*types.Pointer); isPtr {
		return types.Implements(t, et.Underlying().(*types.Interface))
	}
	return false
}

func isBoolType(t types.Type) bool {
	b, ok := t.Underlying().(*types.Basic)
	return ok && b.Kind() == types.Bool
}

// statusIndex: which result of a signature is its status (last error, else trailing bool of a multi-result).
func statusIndex(sig *types.Signature) (int, bool) {
	if sig == nil {
		return -1, false
	}
	n := sig.Results().Len()
	for i := n - 1; i >= 0; i-- {
		if isErrorType(sig.Results().At(i).Type()) {
			return i, false
		}
	}
	if n >= 1 && isBoolType(sig.Results().At(n-1).Type()) {
		return n - 1, true
	}
	return -1, false
}

func (f *e1func) prepare() {
	fi := f.fi
	f.errIdx, f.errBool = statusIndex(fi.Sig)
	// single-assignment pure locals
	assigns := map[types.Object]int{}
	defExpr := map[types.Object]ast.Expr{}
	addrTaken := map[types.Object]bool{}
	fieldStored := map[types.Object]bool{} // only marked because a field / element was stored through the variable
	realAddr := map[types.Object]bool{}    // &v occurs
	inLoopDef := map[types.Object]bool{}
	root := fi.Root()
	var scan func(n ast.Node, inLit bool, loop int)
	objOf := func(id *ast.Ident) types.Object {
		if o := f.info.Defs[id]; o != nil {
			return o
		}
		return f.info.Uses[id]
	}
	scan = func(n ast.Node, inLit bool, loop int) {
		ast.Inspect(n, func(m ast.Node) bool {
			switch s := m.(type) {
			case *ast.FuncLit:
				if m != n {
					scan(s.Body, true, loop)
					return false
				}
			case *ast.ForStmt:
				if m != n {
					if s.Init != nil {
						scan(s.Init, inLit, loop)
					}
					if s.Cond != nil {
						scan(s.Cond, inLit, loop+1)
					}
					if s.Post != nil {
						scan(s.Post, inLit, loop+1)
					}
					scan(s.Body, inLit, loop+1)
					return false
				}
			case *ast.RangeStmt:
				if m != n {
					for _, kv := range []ast.Expr{s.Key, s.Value} {
						if id, ok := kv.(*ast.Ident); ok && id.Name != "_" {
							if o := objOf(id); o != nil {
								assigns[o] += 2
							}
						}
					}
					scan(s.X, inLit, loop)
					scan(s.Body, inLit, loop+1)
					return false
				}
			case *ast.AssignStmt:
				for i, l := range s.Lhs {
					id, ok := unparen(l).(*ast.Ident)
					if !ok {
						// v.f = e / v[i] = e: v is mutated in place, never inline it
						x := unparen(l)
						for {
							switch y := x.(type) {
							case *ast.SelectorExpr:
								x = unparen(y.X)
								continue
							case *ast.IndexExpr:
								x = unparen(y.X)
								continue
							case *ast.StarExpr:
								x = unparen(y.X)
								continue
							}
							break
						}
						if rid, ok := x.(*ast.Ident); ok {
							if o := objOf(rid); o != nil {
								addrTaken[o] = true
								fieldStored[o] = true
							}
						}
						continue
					}
					if id.Name == "_" {
						continue
					}
					o := objOf(id)
					if o == nil {
						continue
					}
					assigns[o]++
					if loop > 0 {
						inLoopDef[o] = true
					}
					if len(s.Lhs) == len(s.Rhs) && s.Tok == token.DEFINE {
						defExpr[o] = s.Rhs[i]
					} else {
						assigns[o]++ // tuple or re-assignment: never inlined
					}
				}
			case *ast.ValueSpec:
				for i, id := range s.Names {
					o := f.info.Defs[id]
					if o == nil {
						continue
					}
					assigns[o]++
					if len(s.Values) == len(s.Names) {
						defExpr[o] = s.Values[i]
					} else {
						assigns[o]++
					}
				}
			case *ast.IncDecStmt:
				if id, ok := unparen(s.X).(*ast.Ident); ok {
					if o := objOf(id); o != nil {
						assigns[o] += 2
					}
				}
			case *ast.UnaryExpr:
				if s.Op == token.AND {
					if id, ok := unparen(s.X).(*ast.Ident); ok {
						if o := objOf(id); o != nil {
							addrTaken[o] = true
							realAddr[o] = true
						}
					}
				}
			}
			return true
		})
	}
	if root.Body != nil {
		scan(root.Body, false, 0)
	}
	// for parameter substitution of interpreted helpers: a reference-typed parameter may have fields stored through it
	subAddr := map[types.Object]bool{}
	for o := range addrTaken {
		if realAddr[o] {
			subAddr[o] = true
			continue
		}
		switch o.Type().Underlying().(type) {
		case *types.Pointer, *types.Map, *types.Slice, *types.Interface, *types.Chan:
		default:
			subAddr[o] = true
		}
	}
	f.assigned, f.addrTaken = assigns, subAddr
	inl := map[types.Object]ast.Expr{}
	for o, n := range assigns {
		if n != 1 || addrTaken[o] || defExpr[o] == nil {
			continue
		}
		if f.pureExpr(defExpr[o]) {
			inl[o] = defExpr[o]
		}
	}
	f.boolDef = map[types.Object]ast.Expr{}
	for o, n := range assigns {
		if n == 1 && !addrTaken[o] && defExpr[o] != nil && inl[o] == nil && isBoolType(o.Type()) {
			switch unparen(defExpr[o]).(type) {
			case *ast.BinaryExpr, *ast.UnaryExpr, *ast.CallExpr:
				f.boolDef[o] = defExpr[o]
			}
		}
	}
	f.tb = &termBuilder{info: f.info, inl: inl, fset: f.eng.c.P.Fset}
	// switch case maps + closure writes
	if root.Body != nil {
		ast.Inspect(root.Body, func(m ast.Node) bool {
			switch s := m.(type) {
			case *ast.SwitchStmt:
				for _, cl := range s.Body.List {
					for _, ce := range cl.(*ast.CaseClause).List {
						f.caseTag[ce] = s.Tag
					}
				}
			case *ast.TypeSwitchStmt:
				var x ast.Expr
				switch a := s.Assign.(type) {
				case *ast.AssignStmt:
					if ta, ok := unparen(a.Rhs[0]).(*ast.TypeAssertExpr); ok {
						x = ta.X
					}
				case *ast.ExprStmt:
					if ta, ok := unparen(a.X).(*ast.TypeAssertExpr); ok {
						x = ta.X
					}
				}
				for _, cl := range s.Body.List {
					f.tsClause[cl.(*ast.CaseClause)] = x
					for _, ce := range cl.(*ast.CaseClause).List {
						f.caseType[ce] = x
					}
				}
			case *ast.AssignStmt:
				// v := func(...) {...}: record captured variables the literal assigns
				for i, r := range s.Rhs {
					lit, ok := unparen(r).(*ast.FuncLit)
					if !ok || i >= len(s.Lhs) {
						continue
					}
					id, ok := unparen(s.Lhs[i]).(*ast.Ident)
					if !ok {
						continue
					}
					holder := objOf(id)
					if holder == nil {
						continue
					}
					ast.Inspect(lit.Body, func(k ast.Node) bool {
						if as, ok := k.(*ast.AssignStmt); ok {
							for _, l := range as.Lhs {
								if lid, ok := unparen(l).(*ast.Ident); ok {
									if o, ok := f.info.Uses[lid].(*types.Var); ok && o != nil && (o.Pos() < lit.Pos() || o.Pos() > lit.End()) {
										f.closureW[holder] = append(f.closureW[holder], o)
									}
								}
							}
						}
						return true
					})
				}
			}
			return true
		})
	}
}

// pureExpr: selector chains, zero-arg or constant-arg method calls (getters), len/cap, conversions,
// constants and operators over those.
func (f *e1func) pureExpr(e ast.Expr) bool {
	e = unparen(e)
	if tv, ok := f.info.Types[e]; ok && tv.Value != nil {
		return true
	}
	switch x := e.(type) {
	case *ast.Ident:
		return true
	case *ast.BasicLit:
		return true
	case *ast.SelectorExpr:
		return f.pureExpr(x.X)
	case *ast.StarExpr:
		return f.pureExpr(x.X)
	case *ast.UnaryExpr:
		return f.pureExpr(x.X)
	case *ast.CompositeLit:
		for _, el := range x.Elts {
			if kv, ok := el.(*ast.KeyValueExpr); ok {
				el = kv.Value
			}
			if !f.pureExpr(el) {
				return false
			}
		}
		return true
	case *ast.BinaryExpr:
		return f.pureExpr(x.X) && f.pureExpr(x.Y)
	case *ast.IndexExpr:
		return f.pureExpr(x.X) && f.pureExpr(x.Index)
	case *ast.CallExpr:
		if tv, ok := f.info.Types[x.Fun]; ok && tv.IsType() {
			return len(x.Args) == 1 && f.pureExpr(x.Args[0])
		}
		if id, ok := unparen(x.Fun).(*ast.Ident); ok {
			if b, ok := f.info.Uses[id].(*types.Builtin); ok && (b.Name() == "len" || b.Name() == "cap") {
				return f.pureExpr(x.Args[0])
			}
		}
		fn, _ := typeutil.Callee(f.info, x).(*types.Func)
		if fn == nil {
			return false
		}
		sig := fn.Type().(*types.Signature)
		if sig.Recv() == nil || sig.Results().Len() != 1 {
			return false
		}
		sel, ok := unparen(x.Fun).(*ast.SelectorExpr)
		if !ok || !f.pureExpr(sel.X) {
			return false
		}
		for _, a := range x.Args {
			tv, ok := f.info.Types[a]
			if !ok || tv.Value == nil {
				return false
			}
		}
		// getters only: Get*/Is*/well-known accessors
		n := fn.Name()
		if strings.HasPrefix(n, "Get") || strings.HasPrefix(n, "Is") || n == "FormValue" || n == "Context" || n == "Get" ||
			n == "AuthMethod" || n == "Storage" || n == "ApplicationType" || n == "ResponseTypes" || n == "RedirectURIs" || n == "Done" ||
			n == "String" || n == "Seconds" || n == "Decoder" || n == "Crypto" || n == "Logger" || n == "Header" {
			return true
		}
		return false
	}
	return false
}

func (f *e1func) term(e ast.Expr) *Term { return f.tb.term(e) }

// ---------------------------------------------------------------------------------------------
// dataflow

func (f *e1func) run() {
	g := f.fi.CFG()
	if g == nil || len(g.Blocks) == 0 {
		return
	}
	in := make([]map[string]*fstate, len(g.Blocks))
	for i := range in {
		in[i] = map[string]*fstate{}
	}
	entry := &fstate{facts: map[string]*Term{}}
	if f.entry != nil {
		entry = f.entry
	}
	// parameters hold the caller's values until they are reassigned
	if sig := f.fi.Sig; sig != nil && f.parent == nil {
		var ps []*types.Var
		if r := sig.Recv(); r != nil {
			ps = append(ps, r)
		}
		for i := 0; i < sig.Params().Len(); i++ {
			ps = append(ps, sig.Params().At(i))
		}
		for _, p := range ps {
			if p.Name() == "" || p.Name() == "_" {
				continue
			}
			if ns := entry.with(fact("orig", &Term{K: "var", S: p.Name(), Obj: p})); ns != nil {
				entry = ns
			}
		}
	}
	// named results start with their zero value
	if sig := f.fi.Sig; sig != nil {
		for i := 0; i < sig.Results().Len(); i++ {
			if r := sig.Results().At(i); r.Name() != "" && r.Name() != "_" {
				if zf := zeroFacts(&Term{K: "var", S: r.Name(), Obj: r}, r.Type()); zf != nil {
					if ns := entry.with(zf...); ns != nil {
						entry = ns
					}
				}
			}
		}
	}
	// quantified loop facts (e1_quant.go) depend on the back-edge states of the fixpoint: iterate until they are stable
	for pass := 0; pass < 4; pass++ {
		for i := range in {
			in[i] = map[string]*fstate{}
		}
		in[0][entry.Key()] = entry
		work := []int32{0}
		onwork := map[int32]bool{0: true}
		for len(work) > 0 {
			bi := work[0]
			work = work[1:]
			onwork[bi] = false
			b := g.Blocks[bi]
			if !b.Live {
				continue
			}
			f.visits++
			if f.visits > 20000 {
				f.widened = true
				break
			}
			outs := f.flowBlock(b, f.sorted(in[bi]), nil)
			for si, succ := range b.Succs {
				changed := false
				for _, st := range outs[si] {
					if _, ok := in[succ.Index][st.Key()]; !ok {
						in[succ.Index][st.Key()] = st
						changed = true
					}
				}
				if len(in[succ.Index]) > e1StateCap {
					// widen: collapse to the intersection of all states
					f.widened = true
					var all []*fstate
					for _, st := range in[succ.Index] {
						all = append(all, st)
					}
					m := intersect(all)
					in[succ.Index] = map[string]*fstate{m.Key(): m}
					changed = true
				}
				if changed && !onwork[succ.Index] {
					onwork[succ.Index] = true
					work = append(work, succ.Index)
				}
			}
		}

		ch1 := f.updateLoopFacts(g, in)
		ch2 := f.updateIndexLoopFacts(g, in)
		if f.widened || !(ch1 || ch2) {
			break
		}
	}
	// replay once to collect sink sites with their reaching states
	for _, b := range g.Blocks {
		if !b.Live || len(in[b.Index]) == 0 {
			continue
		}
		f.flowBlock(b, f.sorted(in[b.Index]), &f.sites)
	}
	// one site per syntactic sink: instances of an interpreted helper reached in several path states are merged
	merged := map[string]*e1site{}
	var out []*e1site
	for _, s := range f.sites {
		if s.chain == "" {
			out = append(out, s)
			continue
		}
		k := fmt.Sprintf("%s|%s|%d|%s", s.chain, s.kind, s.pos, s.term.Key())
		if m, ok := merged[k]; ok {
			seen := map[string]bool{}
			for _, st := range m.states {
				seen[st.Key()] = true
			}
			for i, st := range s.states {
				if !seen[st.Key()] {
					seen[st.Key()] = true
					m.states = append(m.states, st)
					if i < len(s.ok) {
						m.ok = append(m.ok, s.ok[i])
					}
					if i < len(s.sure) {
						m.sure = append(m.sure, s.sure[i])
					}
				}
			}
			continue
		}
		c := *s
		c.states = append([]*fstate{}, s.states...)
		c.ok = append([]bool{}, s.ok...)
		c.sure = append([]bool{}, s.sure...)
		merged[k] = &c
		out = append(out, &c)
	}
	f.sites = out
	sort.SliceStable(f.sites, func(i, j int) bool { return f.sites[i].pos < f.sites[j].pos })
}

// zeroFacts: what is known about a variable holding the zero value of type t.
func zeroFacts(v *Term, t types.Type) []*Term {
	switch u := t.Underlying().(type) {
	case *types.Basic:
		switch {
		case u.Info()&types.IsBoolean != 0:
			return []*Term{fact("def", v, mk("const", "false"))}
		case u.Info()&types.IsString != 0:
			return []*Term{fact("def", v, mk("const", `""`)), fact("eq", v, mk("const", `""`))}
		case u.Info()&types.IsNumeric != 0:
			return []*Term{fact("def", v, mk("const", "0")), fact("eq", v, mk("const", "0"))}
		}
	case *types.Pointer, *types.Interface, *types.Map, *types.Slice, *types.Signature, *types.Chan:
		return []*Term{fact("nil", v)}
	case *types.Struct:
		// `var v T` is the empty literal T{}: later field stores describe the value like the fields of a literal would
		if _, named := t.(*types.Named); named {
			return []*Term{fact("def", v, mk("lit", typeStr(t)))}
		}
	}
	return nil
}

func intersect(all []*fstate) *fstate {
	n := &fstate{facts: map[string]*Term{}, via: "(widened join)"}
	if len(all) == 0 {
		return n
	}
	for k, v := range all[0].facts {
		keep := true
		for _, o := range all[1:] {
			if _, ok := o.facts[k]; !ok {
				keep = false
				break
			}
		}
		if keep {
			n.facts[k] = v
		}
	}
	return n
}

func (f *e1func) sorted(m map[string]*fstate) []*fstate {
	ks := make([]string, 0, len(m))
	for k := range m {
		ks = append(ks, k)
	}
	sort.Strings(ks)
	out := make([]*fstate, 0, len(ks))
	for _, k := range ks {
		out = append(out, m[k])
	}
	return out
}

func dedupStates(s []*fstate) []*fstate {
	seen := map[string]bool{}
	var out []*fstate
	for _, x := range s {
		if x == nil || seen[x.Key()] {
			continue
		}
		seen[x.Key()] = true
		out = append(out, x)
	}
	return out
}

// flowBlock pushes states through the nodes of b and returns the states for each successor.
func (f *e1func) flowBlock(b *cfg.Block, cur []*fstate, sites *[]*e1site) [][]*fstate {
	// range body: key/value are (re)assigned on entry
	if b.Kind == cfg.KindRangeBody {
		if rs, ok := b.Stmt.(*ast.RangeStmt); ok {
			for _, kv := range []ast.Expr{rs.Key, rs.Value} {
				if kv == nil {
					continue
				}
				lt := f.term(kv)
				if r, p, ok := accessPath(lt); ok && r != nil {
					for i := range cur {
						cur[i] = cur[i].kill(r, p)
					}
				}
			}
			xt := f.term(rs.X)
			for i := range cur {
				var fs []*Term
				if rs.Value != nil {
					fs = append(fs, fact("inloop", f.term(rs.Value), xt))
				} else if rs.Key != nil {
					fs = append(fs, fact("inloop", f.term(rs.Key), xt))
				}
				if rs.Key != nil {
					if id, ok := rs.Key.(*ast.Ident); ok && id.Name != "_" {
						if _, isMap := f.info.TypeOf(rs.X).Underlying().(*types.Map); !isMap {
							// xs[i] is the current element as well
							fs = append(fs, fact("inloop", mk("index", "", xt, f.term(rs.Key)), xt))
						}
					}
				}
				if n := cur[i].with(fs...); n != nil {
					cur[i] = n
				}
			}
			cur = dedupStates(cur)
		}
	}
	outs := make([][]*fstate, len(b.Succs))
	var cond ast.Expr
	nodes := b.Nodes
	if len(b.Succs) == 2 && len(nodes) > 0 {
		if c, ok := nodes[len(nodes)-1].(ast.Expr); ok {
			cond = c
			nodes = nodes[:len(nodes)-1]
		}
	}
	f.curSites = sites
	for _, n := range nodes {
		if rs, ok := n.(*ast.ReturnStmt); ok {
			if sites != nil {
				var pre map[*ast.CallExpr][]*fstate
				cur, pre = f.inlineNode(cur, rs)
				// calls evaluated by the return statement happened
				var evs []*Term
				for _, c := range eligibleCalls(rs, false) {
					if tv, ok := f.info.Types[c.Fun]; ok && tv.IsType() {
						continue
					}
					evs = append(evs, fact("called", f.tb.callTerm(c)))
				}
				if len(evs) > 0 {
					for i, st := range cur {
						if ns := st.with(evs...); ns != nil {
							cur[i] = ns
						}
					}
				}
				f.doReturn(rs, cur, sites, pre)
			}
			continue
		}
		// helper calls are interpreted in place (context-sensitive inlining): their facts flow in and out
		cur0, pre := f.inlineNode(cur, n)
		var next []*fstate
		for _, st := range cur0 {
			next = append(next, f.transfer(st, n, sites)...)
		}
		if sites != nil {
			f.collectSites(n, cur0, sites, pre)
		}
		cur = dedupStates(next)
	}
	if cond != nil {
		if sites != nil {
			f.collectSites(cond, cur, sites, nil)
		}
		// calls inside the condition may mutate
		var pre []*fstate
		for _, st := range cur {
			pre = append(pre, f.callEffects(st, cond, true))
		}
		pos := f.eng.c.P.Fset.Position(cond.Pos()).Line
		for _, st := range pre {
			for _, ns := range f.branch(st, cond, true) {
				outs[0] = append(outs[0], &fstate{facts: ns.facts, key: ns.key, from: st, via: fmt.Sprintf("L%d:true", pos)})
			}
			for _, ns := range f.branch(st, cond, false) {
				outs[1] = append(outs[1], &fstate{facts: ns.facts, key: ns.key, from: st, via: fmt.Sprintf("L%d:false", pos)})
			}
		}
		outs[0], outs[1] = dedupStates(outs[0]), dedupStates(outs[1])
		if b.Kind == cfg.KindForLoop {
			if fs, ok := b.Stmt.(*ast.ForStmt); ok {
				if iv, xs, ok := f.indexLoop(fs); ok {
					// inside the body xs[i] is the current element; when the loop is exhausted the per-iteration facts hold for all
					el := fact("inloop", mk("index", "", xs, iv), xs)
					for i, st := range outs[0] {
						if ns := st.with(el); ns != nil {
							outs[0][i] = &fstate{facts: ns.facts, from: st.from, via: st.via}
						}
					}
					if qs := f.forAll[fs]; len(qs) > 0 {
						for i, st := range outs[1] {
							qs := qs
							for _, q := range f.forAll[fs] {
								qs = append(qs[:len(qs):len(qs)], f.expandDefs(st, q)...)
							}
							if ns := st.with(qs...); ns != nil {
								outs[1][i] = &fstate{facts: ns.facts, from: st.from, via: st.via}
							}
						}
					}
					outs[0], outs[1] = dedupStates(outs[0]), dedupStates(outs[1])
				}
			}
		}
		return outs
	}
	// type switch: go/cfg records no node for the case type; single-type clauses still give is/notis facts
	if len(b.Succs) == 2 && cond == nil && b.Succs[0].Kind == cfg.KindSwitchCaseBody {
		if cc, ok := b.Succs[0].Stmt.(*ast.CaseClause); ok {
			if x, isTS := f.tsClause[cc]; isTS && x != nil && len(cc.List) == 1 {
				xt := f.term(x)
				var tt *Term
				if id, ok := cc.List[0].(*ast.Ident); ok && id.Name == "nil" {
					tt = nil
				} else {
					tt = mk("type", typeStr(f.info.TypeOf(cc.List[0])))
				}
				line := f.eng.c.P.Fset.Position(cc.Pos()).Line
				for _, st := range cur {
					var yes, no *fstate
					if tt == nil {
						yes, no = st.with(fact("nil", xt)), st.with(fact("nonnil", xt))
					} else {
						yes, no = st.with(fact("is", xt, tt)), st.with(fact("notis", xt, tt))
					}
					if yes != nil {
						outs[0] = append(outs[0], &fstate{facts: yes.facts, from: st, via: fmt.Sprintf("L%d:case", line)})
					}
					if no != nil {
						outs[1] = append(outs[1], &fstate{facts: no.facts, from: st, via: fmt.Sprintf("L%d:not-case", line)})
					}
				}
				outs[0], outs[1] = dedupStates(outs[0]), dedupStates(outs[1])
				return outs
			}
		}
	}
	if len(b.Succs) == 0 && sites != nil && len(cur) > 0 {
		// falling off the end of a function without results
		if _, isRet := lastNode(b).(*ast.ReturnStmt); !isRet && f.fi.Sig != nil {
			site := &e1site{kind: "ret", node: f.fi.Body, term: mk("ret", ""), pos: f.fi.Body.Rbrace, states: cur, retIdx: -1}
			for range cur {
				site.ok = append(site.ok, true)
				site.sure = append(site.sure, true)
			}
			*sites = append(*sites, site)
		}
	}
	// back edge of a range loop: the successor is the loop head and was created before this block
	if sites != nil {
		for _, s := range b.Succs {
			if s.Kind == cfg.KindRangeLoop && b.Index > s.Index && len(cur) > 0 {
				if rs, ok := s.Stmt.(*ast.RangeStmt); ok {
					*sites = append(*sites, &e1site{kind: "backedge", node: rs, term: mk("backedge", "", f.term(rs.X)), pos: rs.Pos(), states: cur})
				}
			}
		}
	}
	for i := range b.Succs {
		outs[i] = cur
	}
	if b.Kind == cfg.KindRangeLoop && len(b.Succs) == 2 {
		// leaving the loop because the range is exhausted: what held at the end of every iteration holds for all elements
		if rs, ok := b.Stmt.(*ast.RangeStmt); ok {
			if qs := f.loopAll[rs]; len(qs) > 0 {
				var done []*fstate
				for _, st := range cur {
					qs := qs
					for _, q := range f.loopAll[rs] {
						qs = append(qs[:len(qs):len(qs)], f.expandDefs(st, q)...)
					}
					if ns := st.with(qs...); ns != nil {
						done = append(done, &fstate{facts: ns.facts, from: st, via: fmt.Sprintf("L%d:range done", f.eng.c.P.Fset.Position(rs.Pos()).Line)})
					} else {
						done = append(done, st)
					}
				}
				outs[1] = dedupStates(done)
			}
		}
	}
	return outs
}

func lastNode(b *cfg.Block) ast.Node {
	if len(b.Nodes) == 0 {
		return nil
	}
	return b.Nodes[len(b.Nodes)-1]
}

// calls of a node in evaluation order, not descending into literals
func (f *e1func) callsOf(n ast.Node) []*ast.CallExpr { return postorderCalls(n) }

// readOnlyCallees: out-of-module callees that take a pointer argument without writing through it.
var readOnlyCallees = map[string]bool{
	"(*github.com/go-jose/go-jose/v4.JSONWebSignature).Verify": true,
	"github.com/go-jose/go-jose/v4.JSONWebSignature.Verify":    true,
}

// callEffects applies kills caused by calls (mutation summaries, &v arguments, closure writes).
func (f *e1func) callEffects(st *fstate, n ast.Node, asCond bool) *fstate {
	inl := f.eligible(n, asCond)
	for _, c := range f.callsOf(n) {
		if inl[c] {
			continue // interpreted in place: its stores were applied precisely
		}
		for _, a := range c.Args {
			if fn, _ := typeutil.Callee(f.info, c).(*types.Func); fn != nil && readOnlyCallees[calleeName(fn)] {
				break
			}
			if u, ok := unparen(a).(*ast.UnaryExpr); ok && u.Op == token.AND {
				if r, p, ok := accessPath(f.term(u.X)); ok && r != nil {
					st = st.kill(r, p)
				}
			}
		}
		if tv, ok := f.info.Types[c.Fun]; ok && tv.IsType() {
			continue
		}
		fn, _ := typeutil.Callee(f.info, c).(*types.Func)
		if fn == nil {
			// dynamic call of a local closure: kill what it assigns
			if id, ok := unparen(c.Fun).(*ast.Ident); ok {
				if o := f.info.Uses[id]; o != nil {
					for _, w := range f.closureW[o] {
						st = st.kill(w, nil)
					}
				}
			}
			continue
		}
		callee := f.eng.byObj[fn.Origin()]
		if callee == nil {
			continue
		}
		for idx := range f.eng.muts[callee] {
			var arg ast.Expr
			if idx == -1 {
				if sel, ok := unparen(c.Fun).(*ast.SelectorExpr); ok {
					arg = sel.X
				}
			} else if idx < len(c.Args) {
				arg = c.Args[idx]
			}
			if arg == nil {
				continue
			}
			if r, p, ok := accessPath(f.term(arg)); ok && r != nil {
				fields := f.eng.mutFields[callee][idx]
				if len(fields) > 0 && !fields["*"] {
					// the callee writes these fields of the object only
					for fl := range fields {
						st = st.killX(r, append(append([]string{}, p...), fl), true)
					}
				} else {
					st = st.killX(r, p, true)
				}
			}
		}
	}
	return st
}

func (f *e1func) objOfIdent(id *ast.Ident) types.Object {
	if o := f.info.Defs[id]; o != nil {
		return o
	}
	return f.info.Uses[id]
}

// lhsTerm: the term of an assignment target, never inlined.
func (f *e1func) lhsTerm(e ast.Expr) *Term {
	e = unparen(e)
	if id, ok := e.(*ast.Ident); ok {
		if id.Name == "_" {
			return nil
		}
		if o, ok := f.objOfIdent(id).(*types.Var); ok && o != nil {
			if o.Pkg() != nil && o.Parent() == o.Pkg().Scope() {
				return mk("const", objQual(o))
			}
			return &Term{K: "var", S: o.Name(), Obj: o}
		}
		return nil
	}
	return f.term(e)
}

func (f *e1func) transfer(st *fstate, n ast.Node, sites *[]*e1site) []*fstate {
	st = f.callEffects(st, n, false)
	switch s := n.(type) {
	case *ast.ExprStmt:
		if call, ok := unparen(s.X).(*ast.CallExpr); ok {
			if tv, isT := f.info.Types[call.Fun]; !(isT && tv.IsType()) {
				if ns := st.with(fact("called", f.tb.callTerm(call))); ns != nil {
					st = ns
				}
			}
		}
		return []*fstate{st}
	case *ast.AssignStmt:
		allBlank := len(s.Rhs) == 1
		for _, l := range s.Lhs {
			if id, ok := unparen(l).(*ast.Ident); !ok || id.Name != "_" {
				allBlank = false
			}
		}
		if allBlank {
			if call, ok := unparen(s.Rhs[0]).(*ast.CallExpr); ok {
				if ns := st.with(fact("called", f.tb.callTerm(call))); ns != nil {
					st = ns
				}
			}
			return []*fstate{st}
		}
		var rhs []*Term
		for _, r := range s.Rhs {
			rhs = append(rhs, f.term(r))
		}
		var lhs []*Term
		for _, l := range s.Lhs {
			lhs = append(lhs, f.lhsTerm(l))
		}
		// the same status-returning call evaluated again (a retry, a second attempt after a fallback): what the state knows
		// about the outcome of the earlier evaluation does not describe this one.  Events (called / did*) stay.
		if len(rhs) == 1 && (rhs[0].K == "call" || rhs[0].K == "mcall") {
			// (a call of a helper that is interpreted in place was evaluated just before this statement - its outcome is fresh;
			// re-evaluations of such calls are handled where the helper is entered, see inlineCall)
			inlined := false
			if ce, ok := unparen(s.Rhs[0]).(*ast.CallExpr); ok && f.inlineTargetOf(ce) != nil {
				inlined = true
			}
			if idx, _, _ := f.callStatusIdx(s.Rhs[0]); !inlined && idx >= 0 && (st.has(fact("ok", rhs[0])) || st.has(fact("fail", rhs[0]))) {
				st = st.forgetCall(rhs[0])
			}
		}
		// x, y, ok = f(x): inside the call, x names the value *before* the assignment.  Spell the call with that old value
		// (the variable's definition, or an opaque "old x") and re-key what the state knows about the call, so that the
		// outcome of an interpreted helper survives the rebinding of its own argument.
		if len(rhs) == 1 && len(lhs) > 1 && (rhs[0].K == "call" || rhs[0].K == "mcall") {
			oldCall := rhs[0]
			for _, lt := range lhs {
				if lt == nil || lt.K != "var" || lt.Obj == nil || !mentions(oldCall, lt.Obj, nil) {
					continue
				}
				if ts := typeStr(lt.Obj.Type()); ts == "context.Context" || ts == "*net/http.Request" || ts == "*http.Request" {
					// ctx, span := tracer.Start(ctx, ...) / r = r.WithContext(ctx): the derived context / request stands for the
					// same request; the tables never distinguish them (no definition is recorded, as before)
					oldCall = rhs[0]
					break
				}
				var oldVal *Term
				if d := f.defOf(st, lt); d != nil && !mentions(d.A[1], lt.Obj, nil) {
					if len(d.A) == 3 {
						oldVal = mk("res", d.A[2].S, d.A[1])
					} else {
						oldVal = d.A[1]
					}
				}
				if oldVal == nil {
					oldVal = mk("const", fmt.Sprintf("%s·old@%d", lt.S, f.eng.c.P.Fset.Position(s.Pos()).Line))
				}
				if nt := replaceTerm(oldCall, lt.Key(), oldVal); nt != nil {
					oldCall = nt
				}
			}
			if oldCall != rhs[0] {
				fromKey := rhs[0].Key()
				n := st.clone()
				for k, fc := range st.facts {
					if nf := replaceTerm(fc, fromKey, oldCall); nf != nil && nf.Key() != k {
						n.facts[nf.Key()] = nf
					}
				}
				n.key = ""
				st = n
				rhs[0] = oldCall
			}
		}
		// the outcome of an interpreted helper call is known before the assignment; if an argument variable is itself
		// reassigned by it (x, err := f(x)) the call term goes stale, so the outcome is carried over to the status variable
		var carried []*Term
		if len(rhs) == 1 && (rhs[0].K == "call" || rhs[0].K == "mcall") {
			if idx, isBool, n := f.callStatusIdx(s.Rhs[0]); idx >= 0 && idx < len(lhs) && n == len(lhs) && lhs[idx] != nil && lhs[idx].K == "var" {
				switch {
				case st.has(fact("ok", rhs[0])):
					if isBool {
						carried = append(carried, fact("true", lhs[idx]))
					} else {
						carried = append(carried, fact("nil", lhs[idx]))
					}
				case st.has(fact("fail", rhs[0])):
					if isBool {
						carried = append(carried, fact("false", lhs[idx]))
					} else {
						carried = append(carried, fact("nonnil", lhs[idx]))
					}
				}
			}
		}
		for _, lt := range lhs {
			if lt == nil {
				continue
			}
			if r, p, ok := accessPath(lt); ok && r != nil {
				// *p = v, p.f = v, p[i] = v write through p; only `p = v` rebinds the variable itself
				st = st.killX(r, p, lt.K != "var")
			} else if lt.K == "const" {
				// store to a package-level variable: drop facts naming it
				n := st.clone()
				for k, fct := range n.facts {
					hit := false
					fct.walk(func(x *Term) bool {
						if x.K == "const" && x.S == lt.S {
							hit = true
						}
						return !hit
					})
					if hit {
						delete(n.facts, k)
					}
				}
				n.key = ""
				st = n
			}
		}
		if s.Tok != token.ASSIGN && s.Tok != token.DEFINE {
			return []*fstate{st}
		}
		var add []*Term
		for i, r := range s.Rhs {
			if ce, ok := unparen(r).(*ast.CallExpr); ok {
				if tv, isT := f.info.Types[ce.Fun]; !(isT && tv.IsType()) {
					add = append(add, fact("called", rhs[i]))
					// an element appended through local temporaries is the element: record the event also with the
					// temporaries spelled out (valid here, where the definitions are current; only for the accumulating
					// builtin, so that the number of event facts stays small)
					if rhs[i].K == "call" && rhs[i].S == "append" {
						for _, x := range f.expandDefs(st, rhs[i]) {
							add = append(add, fact("called", x))
						}
						// ... and with the value an interpreted helper returned for the element (eq(H(..), E))
						for _, x := range rewriteWith(stateAlts(st), rhs[i], 12, true) {
							add = append(add, fact("called", x))
						}
					}
				}
			}
		}
		if len(rhs) == 1 && len(lhs) > 1 {
			if idx, _, _ := f.callStatusIdx(s.Rhs[0]); true {
				f.statusOf[rhs[0].Key()] = idx
			}
			for i, lt := range lhs {
				if lt == nil {
					continue
				}
				if r, p, ok := accessPath(lt); ok && mentions(rhs[0], r, p) {
					continue
				}
				if lt.K != "var" {
					// x.f, err = call(): the field holds result i
					add = append(add, fact("eq", lt, mk("res", fmt.Sprint(i), rhs[0])))
					continue
				}
				add = append(add, fact("def", lt, rhs[0], mk("const", fmt.Sprint(i))))
			}
		} else if len(rhs) == len(lhs) {
			for i, lt := range lhs {
				if lt == nil {
					continue
				}
				if lt.K == "var" {
					if _, inlined := f.tb.inl[lt.Obj]; inlined {
						continue
					}
				}
				if r, p, ok := accessPath(lt); ok && r != nil && mentions(rhs[i], r, p) {
					continue
				}
				if lt.K == "var" {
					add = append(add, fact("def", lt, rhs[i]))
					if rhs[i].K == "nil" {
						add = append(add, fact("nil", lt))
					}
				} else {
					add = append(add, fact("eq", lt, rhs[i]))
				}
			}
		}
		add = append(add, carried...)
		// a definition is also stated with the variables of its right-hand side replaced by their own definitions
		// (a temporary introduced for an argument does not hide what was passed)
		nadd := len(add)
		for i := 0; i < nadd; i++ {
			if add[i].S == "def" && len(add[i].A) >= 2 {
				for _, x := range f.expandDefs(st, add[i].A[1]) {
					// "defx": a derived spelling of a definition; patterns asking for def(...) accept it, the engine's own
					// look-ups (status of a returned variable, ...) use the original definition only
					nf := &Term{K: "fact", S: "defx", A: append([]*Term{add[i].A[0], x}, add[i].A[2:]...)}
					add = append(add, nf)
				}
			}
		}
		if ns := st.with(add...); ns != nil {
			st = ns
		}
		// results of an interpreted helper call: what is known about res(i, call) holds for the target variable
		if len(rhs) == 1 && len(lhs) > 1 && (rhs[0].K == "call" || rhs[0].K == "mcall") {
			st = copyResultFacts(st, rhs[0], lhs)
		} else if len(rhs) == len(lhs) {
			for i := range rhs {
				if rhs[i].K == "call" || rhs[i].K == "mcall" {
					st = copyResultFacts(st, rhs[i], []*Term{lhs[i]})
				}
			}
		}
		return []*fstate{st}
	case *ast.DeclStmt, *ast.ValueSpec:
		// go/cfg records each var ValueSpec of a declaration statement as its own node
		var specs []*ast.ValueSpec
		switch d := n.(type) {
		case *ast.ValueSpec:
			specs = []*ast.ValueSpec{d}
		case *ast.DeclStmt:
			if gd, ok := d.Decl.(*ast.GenDecl); ok {
				for _, sp := range gd.Specs {
					if vs, ok := sp.(*ast.ValueSpec); ok {
						specs = append(specs, vs)
					}
				}
			}
		}
		var add []*Term
		for _, vs := range specs {
			for i, id := range vs.Names {
				lt := f.lhsTerm(id)
				if lt == nil || lt.K != "var" {
					continue
				}
				st = st.kill(lt.Obj, nil)
				if _, inlined := f.tb.inl[lt.Obj]; inlined {
					continue
				}
				if len(vs.Values) == len(vs.Names) {
					add = append(add, fact("def", lt, f.term(vs.Values[i])))
				} else if len(vs.Values) == 1 {
					add = append(add, fact("def", lt, f.term(vs.Values[0]), mk("const", fmt.Sprint(i))))
				} else if len(vs.Values) == 0 {
					add = append(add, zeroFacts(lt, lt.Obj.Type())...)
				}
			}
		}
		if ns := st.with(add...); ns != nil {
			st = ns
		}
		return []*fstate{st}
	case *ast.IncDecStmt:
		if lt := f.lhsTerm(s.X); lt != nil {
			if r, p, ok := accessPath(lt); ok && r != nil {
				st = st.kill(r, p)
			}
		}
		return []*fstate{st}
	}
	return []*fstate{st}
}

// collectSites records call and store sites of a node with the states before the node.
func (f *e1func) collectSites(n ast.Node, states []*fstate, sites *[]*e1site, pre map[*ast.CallExpr][]*fstate) {
	if len(states) == 0 && len(pre) == 0 {
		return
	}
	for _, c := range f.callsOf(n) {
		if tv, ok := f.info.Types[c.Fun]; ok && tv.IsType() {
			continue
		}
		sts := states
		if p, ok := pre[c]; ok {
			sts = p // states before this call was evaluated (later helper calls of the statement not yet interpreted)
		}
		if len(sts) == 0 {
			continue
		}
		*sites = append(*sites, &e1site{kind: "call", node: c, term: f.tb.callTerm(c), pos: c.Pos(), states: sts})
	}
	if len(states) == 0 {
		return
	}
	if f.eng.wantIndex {
		ast.Inspect(n, func(m ast.Node) bool {
			switch x := m.(type) {
			case *ast.FuncLit:
				return false
			case *ast.IndexExpr:
				if !isInstantiation(f.info, x) && !isMapIndex(f.info, x) {
					*sites = append(*sites, &e1site{kind: "index", node: x, term: f.term(x), pos: x.Pos(), states: states})
				}
			case *ast.SliceExpr:
				*sites = append(*sites, &e1site{kind: "index", node: x, term: f.term(x), pos: x.Pos(), states: states})
			}
			return true
		})
	}
	switch s := n.(type) {
	case *ast.AssignStmt:
		if len(s.Lhs) == len(s.Rhs) {
			for i := range s.Lhs {
				lt := f.lhsTerm(s.Lhs[i])
				if lt == nil {
					continue
				}
				rt := f.term(s.Rhs[i])
				if s.Tok != token.ASSIGN && s.Tok != token.DEFINE {
					// x op= e stores x op e
					rt = mk("op", strings.TrimSuffix(s.Tok.String(), "="), lt, rt)
				}
				*sites = append(*sites, &e1site{kind: "store", node: s, term: mk("store", s.Tok.String(), lt, rt), pos: s.Lhs[i].Pos(), states: states})
			}
		} else if len(s.Rhs) == 1 {
			// a, b = f(): each target receives res(i, f())
			rt := f.term(s.Rhs[0])
			for i := range s.Lhs {
				lt := f.lhsTerm(s.Lhs[i])
				if lt == nil {
					continue
				}
				if lt.K == "var" {
					// plain variables are covered by def facts, except when the values come out of an interpreted helper
					// (then the assignment is where the helper's returned expressions are stored)
					call, isCall := unparen(s.Rhs[0]).(*ast.CallExpr)
					if !isCall || f.inlineTargetOf(call) == nil {
						continue
					}
				}
				*sites = append(*sites, &e1site{kind: "store", node: s, term: mk("store", s.Tok.String(), lt, mk("res", fmt.Sprint(i), rt)), pos: s.Lhs[i].Pos(), states: states})
			}
		}
	case *ast.GoStmt:
		*sites = append(*sites, &e1site{kind: "go", node: s, term: mk("go", "", f.tb.callTerm(s.Call)), pos: s.Pos(), states: states})
	}
}

func (f *e1func) neverNil(t *Term, st *fstate) bool {
	switch t.K {
	case "lit", "func":
		return true
	case "op":
		return t.S == "&"
	case "const":
		// package-level error variables (ErrX) are never nil
		i := strings.LastIndex(t.S, ".")
		if strings.HasPrefix(t.S[i+1:], "Err") {
			return true
		}
		// any package-level variable initialised with a freshly built error (var errX = errors.New(...))
		if v, ok := t.Obj.(*types.Var); ok && f.eng != nil {
			return f.eng.globalErrInit(v)
		}
		return false
	case "call":
		i := strings.LastIndex(t.S, ".")
		base := t.S[i+1:]
		switch t.S {
		case "fmt.Errorf", "errors.New", "errors.Join", "new":
			return true // new(T) never yields nil
		}
		if strings.HasPrefix(base, "Err") || base == "NewStatusError" || base == "DefaultToServerError" || base == "unimplementedGrantError" || base == "unimplementedError" {
			return true
		}
		if base == "AsStatusError" && len(t.A) > 0 {
			return f.neverNil(t.A[0], st)
		}
	case "mcall":
		if strings.HasPrefix(t.S, "With") && len(t.A) > 0 {
			return f.neverNil(t.A[0], st)
		}
	case "var":
		if st != nil && st.has(fact("nonnil", t)) {
			return true
		}
		if st != nil {
			// v := <never-nil constructor>, still holding that value
			if d := f.defOf(st, t); d != nil && len(d.A) == 2 && d.A[1].K != "var" && f.neverNil(d.A[1], st) {
				return true
			}
		}
	case "conv":
		if len(t.A) == 1 {
			return f.neverNil(t.A[0], st)
		}
	}
	return false
}

func (f *e1func) doReturn(rs *ast.ReturnStmt, cur []*fstate, sites *[]*e1site, pre map[*ast.CallExpr][]*fstate) {
	if sites == nil || len(cur) == 0 {
		return
	}
	sig := f.fi.Sig
	nres := 0
	if sig != nil {
		nres = sig.Results().Len()
	}
	var ops []*Term
	var tail *Term
	switch {
	case len(rs.Results) == nres:
		for _, r := range rs.Results {
			ops = append(ops, f.term(r))
		}
	case len(rs.Results) == 0 && nres > 0:
		for i := 0; i < nres; i++ {
			v := sig.Results().At(i)
			ops = append(ops, &Term{K: "var", S: v.Name(), Obj: v})
		}
	case len(rs.Results) == 1 && nres > 1:
		tail = f.term(rs.Results[0])
		for i := 0; i < nres; i++ {
			ops = append(ops, mk("res", fmt.Sprint(i), tail))
		}
	}
	// a single-result tail call whose status is that result
	if tail == nil && nres >= 1 && len(rs.Results) == nres && f.errIdx >= 0 && !f.errBool {
		if c, ok := unparen(rs.Results[f.errIdx]).(*ast.CallExpr); ok {
			if tv, ok := f.info.Types[c.Fun]; !(ok && tv.IsType()) {
				ct := f.tb.callTerm(c)
				if !f.neverNil(ct, nil) {
					if nres == 1 {
						tail = ct
					} else if idx, _, n := f.callStatusIdx(c); n == 1 && idx == 0 {
						tail = ct // return x, check(y): the status is the outcome of that call
					}
				}
			}
		}
	}
	site := &e1site{kind: "ret", node: rs, term: mk("ret", "", ops...), pos: rs.Pos(), retIdx: f.errIdx}
	put := func(st *fstate, ok, sure bool) {
		site.states = append(site.states, st)
		site.ok = append(site.ok, ok)
		site.sure = append(site.sure, sure)
	}
	for _, st := range cur {
		if f.errIdx < 0 || f.errIdx >= len(ops) {
			put(st, true, true)
			continue
		}
		op := ops[f.errIdx]
		if tail != nil {
			// success and failure edge of the tail call
			if ns := st.with(f.okFacts(st, tail, true)...); ns != nil {
				put(&fstate{facts: ns.facts, from: st, via: "tail-call ok"}, true, true)
			}
			if ns := st.with(append([]*Term{fact("fail", tail)}, f.failGuarFacts(tail)...)...); ns != nil {
				put(&fstate{facts: ns.facts, from: st, via: "tail-call fail"}, false, true)
			}
			continue
		}
		if !f.errBool && op.K == "var" && f.neverNil(op, st) {
			put(st, false, true) // a variable still holding a freshly built error value
			continue
		}
		if op.K == "var" && !st.has(fact("nil", op)) && !st.has(fact("nonnil", op)) && !st.has(fact("true", op)) && !st.has(fact("false", op)) {
			if d := f.defOf(st, op); d != nil && (d.A[1].K == "call" || d.A[1].K == "mcall" || d.A[1].K == "dyn") {
				idx, known := f.statusOf[d.A[1].Key()]
				isStatus := (len(d.A) == 3 && known && fmt.Sprint(idx) == d.A[2].S) || (len(d.A) == 2 && !f.errBool)
				if isStatus {
					if ns := st.with(f.okFacts(st, d.A[1], true)...); ns != nil {
						put(&fstate{facts: ns.facts, from: st, via: "returned status ok"}, true, true)
					}
					if ns := st.with(append([]*Term{fact("fail", d.A[1])}, f.failGuarFacts(d.A[1])...)...); ns != nil {
						put(&fstate{facts: ns.facts, from: st, via: "returned status fail"}, false, true)
					}
					continue
				}
			}
		}
		if !f.errBool && len(rs.Results) == nres {
			// a value of struct type converted to error is never nil (op.StatusError)
			if t := f.info.TypeOf(rs.Results[f.errIdx]); t != nil {
				if _, isStruct := t.Underlying().(*types.Struct); isStruct {
					put(st, false, true)
					continue
				}
			}
		}
		if f.errBool {
			switch {
			case op.K == "const" && op.S == "false":
				put(st, false, true)
			case op.K == "const" && op.S == "true":
				put(st, true, true)
			case op.K == "var" && st.has(fact("false", op)):
				put(st, false, true)
			case op.K == "var" && st.has(fact("true", op)):
				put(st, true, true)
			case len(rs.Results) == nres:
				// return <boolean expression>: the status is the value of the expression, clause by clause
				x := rs.Results[f.errIdx]
				for _, ns := range f.branchExpr(st, x, true) {
					put(&fstate{facts: ns.facts, from: st, via: "returned condition true"}, true, true)
				}
				for _, ns := range f.branchExpr(st, x, false) {
					put(&fstate{facts: ns.facts, from: st, via: "returned condition false"}, false, true)
				}
			default:
				put(st, true, false)
			}
			continue
		}
		switch {
		case op.K == "nil":
			put(st, true, true)
		case f.neverNil(op, st):
			put(st, false, true)
		case op.K == "var" && st.has(fact("nil", op)):
			put(st, true, true)
		default:
			put(st, true, false) // cannot decide: conservatively a success return
		}
	}
	// also record call sites inside the return operands
	f.collectSites(rs, cur, sites, pre)
	*sites = append(*sites, site)
}

// defOf finds def(v, e[, i]) for variable term v in the state.
func (f *e1func) defOf(st *fstate, v *Term) *Term {
	vk := v.Key()
	for _, k := range sortedKeys(st.facts) {
		fc := st.facts[k]
		if fc.S == "def" && len(fc.A) >= 2 && fc.A[0].Key() == vk {
			return fc
		}
	}
	return nil
}

// okFacts: ok(K) plus the instantiated guarantee of K (callee summaries).
func (f *e1func) okFacts(st *fstate, call *Term, withOk bool) []*Term {
	var out []*Term
	if withOk {
		out = append(out, fact("ok", call))
		if call.K == "mcall" {
			// the outcome as an event (survives later changes of the arguments' variables): "that method succeeded on this path"
			out = append(out, fact("didOk", mk("const", call.S)))
		}
	}
	if call.K != "call" && call.K != "mcall" {
		return out
	}
	g := f.eng.lookupGuar(call)
	if g == nil {
		// no declared guarantee: use what the callee provably establishes on every success return (inferred summary)
		return append(out, f.eng.inferredFacts(f, st, call)...)
	}
	b := Bind{}
	args := call.A
	for i, name := range g.P {
		if name == "" || i >= len(args) {
			continue
		}
		b[name] = args[i]
	}
	// results: variables defined from this call in the state, else res(i, call)
	ck := call.Key()
	for _, k := range sortedKeys(st.facts) {
		fc := st.facts[k]
		if fc.S == "def" && len(fc.A) == 3 && fc.A[1].Key() == ck {
			b["r"+fc.A[2].S] = fc.A[0]
		} else if fc.S == "def" && len(fc.A) == 2 && fc.A[1].Key() == ck {
			b["r0"] = fc.A[0]
		}
	}
	for i := 0; i < 6; i++ {
		if _, ok := b[fmt.Sprint("r", i)]; !ok {
			b[fmt.Sprint("r", i)] = mk("res", fmt.Sprint(i), call)
		}
	}
	for _, p := range g.facts {
		out = append(out, subst(p, b))
	}
	return out
}

// inferredFacts: facts that hold in every success-return state of the (in-module, non-recursive) callee and mention
// only its parameters (still holding the caller's values) and results, re-expressed over the call's arguments.
func (e *e1) inferredFacts(f *e1func, st *fstate, call *Term) []*Term {
	var callee *FuncInfo
	switch call.K {
	case "call":
		callee = e.c.P.Fn(call.S)
		if callee == nil {
			for _, fi := range e.c.P.Funcs {
				if fi.Obj != nil && fi.Parent == nil && objQual(fi.Obj) == call.S {
					callee = fi
					break
				}
			}
		}
	case "mcall":
		if fn, ok := call.Obj.(*types.Func); ok {
			callee = e.byObj[fn]
		}
	}
	if callee == nil || callee.Body == nil || callee == f.fi {
		return nil
	}
	if st.has(fact("ok", call)) || st.has(fact("fail", call)) {
		return nil // the call was interpreted in place: its facts are already in the state
	}
	pats := e.inferGuar(callee)
	if len(pats) == 0 {
		return nil
	}
	b := Bind{}
	for i, a := range call.A {
		b[fmt.Sprint("p", i)] = a
	}
	ck := call.Key()
	for _, k := range sortedKeys(st.facts) {
		fc := st.facts[k]
		if fc.S == "def" && len(fc.A) == 3 && fc.A[1].Key() == ck {
			b["r"+fc.A[2].S] = fc.A[0]
		} else if fc.S == "def" && len(fc.A) == 2 && fc.A[1].Key() == ck {
			b["r0"] = fc.A[0]
		}
	}
	for i := 0; i < 6; i++ {
		if _, ok := b[fmt.Sprint("r", i)]; !ok {
			b[fmt.Sprint("r", i)] = mk("res", fmt.Sprint(i), call)
		}
	}
	var out []*Term
	for _, p := range pats {
		t := subst(p, b)
		if !hasPV(t) {
			out = append(out, t)
		}
	}
	return out
}

func (e *e1) inferGuar(fi *FuncInfo) []*Term {
	if e.inferred == nil {
		e.inferred = map[*FuncInfo][]*Term{}
		e.inferring = map[*FuncInfo]bool{}
	}
	if r, ok := e.inferred[fi]; ok {
		return r
	}
	if e.inferring[fi] || fi.Sig == nil {
		return nil
	}
	e.inferring[fi] = true
	defer delete(e.inferring, fi)
	f := e.analyse(fi)
	// positional names of receiver+parameters
	pidx := map[types.Object]string{}
	n := 0
	if r := fi.Sig.Recv(); r != nil {
		pidx[r] = "p0"
		n = 1
	}
	for i := 0; i < fi.Sig.Params().Len(); i++ {
		pidx[fi.Sig.Params().At(i)] = fmt.Sprint("p", n+i)
	}
	keep := map[string]bool{"ok": true, "eq": true, "neq": true, "true": true, "false": true, "is": true, "notis": true, "nil": true, "nonnil": true, "lt": true, "le": true, "has": true, "errIs": true}
	var common map[string]*Term
	nStates := 0
	for _, s := range f.sites {
		if s.kind != "ret" {
			continue
		}
		for i, st := range s.states {
			if !s.ok[i] {
				continue
			}
			nStates++
			ridx := map[types.Object]string{}
			for j, op := range s.term.A {
				if op.K == "var" {
					if _, isParam := pidx[op.Obj]; !isParam {
						ridx[op.Obj] = fmt.Sprint("r", j)
					}
				}
			}
			cur := map[string]*Term{}
			for _, fc := range st.facts {
				abstract := !factPreds[fc.S]
				if (!keep[fc.S] && !abstract) || fc.S == "orig" {
					continue
				}
				okFact := true
				var rename func(t *Term) *Term
				rename = func(t *Term) *Term {
					if t.K == "var" {
						if name, ok := pidx[t.Obj]; ok {
							if !st.has(fact("orig", t)) {
								okFact = false
							}
							return mk("pv", name)
						}
						if name, ok := ridx[t.Obj]; ok {
							return mk("pv", name)
						}
						okFact = false
						return t
					}
					if t.K == "func" {
						okFact = false
						return t
					}
					if len(t.A) == 0 {
						return t
					}
					nt := &Term{K: t.K, S: t.S, Obj: t.Obj}
					for _, a := range t.A {
						nt.A = append(nt.A, rename(a))
					}
					return nt
				}
				rt := rename(fc)
				if okFact {
					cur[rt.Key()] = rt
				}
			}
			if common == nil {
				common = cur
			} else {
				for k := range common {
					if _, ok := cur[k]; !ok {
						delete(common, k)
					}
				}
			}
		}
	}
	var out []*Term
	if nStates > 0 {
		for _, k := range sortedKeys(common) {
			out = append(out, common[k])
			if len(out) >= 40 {
				break
			}
		}
	}
	e.inferred[fi] = out
	return out
}

func (e *e1) lookupGuar(call *Term) *Guar {
	// call.S is "op.AuthorizeCodeClient" (functions) or a bare method name (methods)
	if call.K == "call" {
		if g, ok := e.guars[call.S]; ok {
			return g
		}
		// client/rp.X is keyed by FuncInfo name "client/rp.X"
		for name, g := range e.guars {
			if strings.HasSuffix(name, "/"+call.S) {
				return g
			}
		}
		return nil
	}
	for name, g := range e.guars {
		if i := strings.LastIndex(name, ")."); i >= 0 && name[i+2:] == call.S {
			return g
		}
		if i := strings.LastIndex(name, "."); i >= 0 && name[i+1:] == call.S && strings.Count(name, ".") >= 2 {
			return g
		}
	}
	return nil
}

// condFactsFromDef: facts for "v is true"/"v != nil" given def(v, e[, i]).
func (f *e1func) condFactsFromDef(st *fstate, v *Term, d *Term, positive bool) []*Term {
	e := d.A[1]
	idx := -1
	if len(d.A) == 3 {
		fmt.Sscan(d.A[2].S, &idx)
	}
	switch e.K {
	case "assert":
		if idx == 1 {
			if positive {
				return []*Term{fact("is", e.A[0], mk("type", e.S))}
			}
			return []*Term{fact("notis", e.A[0], mk("type", e.S))}
		}
	case "index":
		if idx == 1 {
			if positive {
				return []*Term{fact("has", e.A[0], e.A[1])}
			}
			return []*Term{fact("lacks", e.A[0], e.A[1])}
		}
	}
	return nil
}

// statusOfCall: is result idx of the call term its status result?
func (f *e1func) callStatusIdx(call ast.Expr) (int, bool, int) {
	c, ok := unparen(call).(*ast.CallExpr)
	if !ok {
		return -1, false, 0
	}
	tv, ok := f.info.Types[c]
	if !ok {
		return -1, false, 0
	}
	switch t := tv.Type.(type) {
	case *types.Tuple:
		for i := t.Len() - 1; i >= 0; i-- {
			if isErrorType(t.At(i).Type()) {
				return i, false, t.Len()
			}
		}
		if t.Len() >= 2 && isBoolType(t.At(t.Len()-1).Type()) {
			return t.Len() - 1, true, t.Len()
		}
		return -1, false, t.Len()
	default:
		if isErrorType(tv.Type) {
			return 0, false, 1
		}
	}
	return -1, false, 1
}

// branch returns the successor states of st when cond evaluates to val.
func (f *e1func) branch(st *fstate, cond ast.Expr, val bool) []*fstate {
	cond = unparen(cond)
	if tag, ok := f.caseTag[cond]; ok {
		if tag == nil {
			return f.branchExpr(st, cond, val)
		}
		a, b := f.term(tag), f.term(cond)
		fs := []*Term{fact("neq", a, b)}
		if val {
			fs = []*Term{fact("eq", a, b)}
		}
		for _, x := range f.expandDefs(st, fs[0]) {
			fs = append(fs, x)
		}
		fs = append(fs, deriveFacts(st, fs)...)
		return one(st.with(fs...))
	}
	if x, ok := f.caseType[cond]; ok {
		if x == nil {
			return []*fstate{st}
		}
		tt := mk("type", typeStr(f.info.TypeOf(cond)))
		if id, ok := cond.(*ast.Ident); ok && id.Name == "nil" {
			if val {
				return one(st.with(fact("nil", f.term(x))))
			}
			return one(st.with(fact("nonnil", f.term(x))))
		}
		if val {
			return one(st.with(fact("is", f.term(x), tt)))
		}
		return one(st.with(fact("notis", f.term(x), tt)))
	}
	return f.branchExpr(st, cond, val)
}

func one(s *fstate) []*fstate {
	if s == nil {
		return nil
	}
	return []*fstate{s}
}

func (f *e1func) branchExpr(st *fstate, cond ast.Expr, val bool) []*fstate {
	cond = unparen(cond)
	// a boolean temporary (assigned once, pure definition): the condition is its definition
	if id, ok := cond.(*ast.Ident); ok {
		if o := f.info.Uses[id]; o != nil {
			// a boolean parameter of an interpreted helper: the condition is the caller's argument expression
			if def, ok := f.boolDef[o]; ok && f.brDepth < 4 {
				// v := <condition> (assigned once): v is true exactly when the condition was, provided what it reads is unchanged
				vt := &Term{K: "var", S: o.Name(), Obj: o}
				if d := f.defOf(st, vt); d != nil && len(d.A) == 2 {
					f.brDepth++
					f.noInlineLeaf++
					out := f.branchExpr(st, def, val)
					f.noInlineLeaf--
					f.brDepth--
					var res []*fstate
					for _, s2 := range out {
						vf := fact("false", vt)
						if val {
							vf = fact("true", vt)
						}
						if ns := s2.with(vf); ns != nil {
							res = append(res, ns)
						}
					}
					return res
				}
			}
			if sc, ok := f.subCond[o]; ok && f.brDepth < 4 {
				f.brDepth++
				out := sc.f.branchExpr(st, sc.e, val)
				f.brDepth--
				return out
			}
			if def, ok := f.tb.inl[o]; ok && f.brDepth < 4 {
				if _, isSub := f.tb.sub[o]; !isSub {
					f.brDepth++
					out := f.branchExpr(st, def, val)
					f.brDepth--
					return out
				}
			}
		}
	}
	switch c := cond.(type) {
	case *ast.UnaryExpr:
		if c.Op == token.NOT {
			return f.branchExpr(st, c.X, !val)
		}
	case *ast.BinaryExpr:
		switch c.Op {
		case token.LAND:
			if val {
				var out []*fstate
				for _, s1 := range f.branchExpr(st, c.X, true) {
					out = append(out, f.branchExpr(s1, c.Y, true)...)
				}
				return out
			}
			out := f.branchExpr(st, c.X, false)
			for _, s1 := range f.branchExpr(st, c.X, true) {
				out = append(out, f.branchExpr(s1, c.Y, false)...)
			}
			return out
		case token.LOR:
			if !val {
				var out []*fstate
				for _, s1 := range f.branchExpr(st, c.X, false) {
					out = append(out, f.branchExpr(s1, c.Y, false)...)
				}
				return out
			}
			out := f.branchExpr(st, c.X, true)
			for _, s1 := range f.branchExpr(st, c.X, false) {
				out = append(out, f.branchExpr(s1, c.Y, true)...)
			}
			return out
		}
	}
	var out []*fstate
	leafStates := []*fstate{st}
	if f.noInlineLeaf == 0 {
		leafStates = f.inlineLeaf(st, cond)
	}
	for _, st := range leafStates {
		fs, feasible := f.leaf(st, cond, val)
		if !feasible {
			continue
		}
		// also state each fact with locally defined variables replaced by their (still valid) definitions
		n := len(fs)
		for i := 0; i < n; i++ {
			fs = append(fs, f.expandDefs(st, fs[i])...)
		}
		derived := deriveFacts(st, fs)
		derived = append(derived, f.higherOrderFacts(st, cond, val)...)
		fs = append(fs, derived...)
		// derived facts are also stated through the definitions of the variables they mention
		for _, d := range derived {
			fs = append(fs, f.expandDefs(st, d)...)
		}
		if ns := st.with(fs...); ns != nil {
			out = append(out, ns)
		}
	}
	return out
}

// expandDefs substitutes v -> e for every def(v, e) fact of the state (a def fact is killed as soon
// as anything it mentions is reassigned, so the substitution is valid where it is made).  Two variants are
// produced: through plain definitions only, and additionally through "v is result i of that call".
func (f *e1func) expandDefs(st *fstate, t *Term) []*Term {
	defs := map[string]*Term{}
	for _, fc := range st.facts {
		if fc.S == "def" && len(fc.A) == 2 && fc.A[0].K == "var" {
			defs[fc.A[0].Key()] = fc.A[1]
		}
	}
	defs3 := map[string]*Term{}
	for _, fc := range st.facts {
		if fc.S == "def" && len(fc.A) == 3 && fc.A[0].K == "var" {
			if _, dup := defs[fc.A[0].Key()]; !dup {
				defs3[fc.A[0].Key()] = mk("res", fc.A[2].S, fc.A[1])
			}
		}
	}
	if len(defs) == 0 && len(defs3) == 0 {
		return nil
	}
	expand := func(with3 bool) *Term {
		changed := false
		var rec func(t *Term, depth int) *Term
		rec = func(t *Term, depth int) *Term {
			if t.K == "var" && depth < 4 {
				if d, ok := defs[t.Key()]; ok {
					changed = true
					return rec(d, depth+1)
				}
				if with3 {
					if d, ok := defs3[t.Key()]; ok {
						changed = true
						return rec(d, depth+1)
					}
				}
				return t
			}
			if len(t.A) == 0 {
				return t
			}
			n := &Term{K: t.K, S: t.S, Obj: t.Obj}
			for _, a := range t.A {
				n.A = append(n.A, rec(a, depth))
			}
			return n
		}
		out := rec(t, 0)
		if !changed {
			return nil
		}
		return out
	}
	var out []*Term
	a := expand(false)
	if a != nil {
		out = append(out, a)
	}
	if len(defs3) > 0 {
		if b := expand(true); b != nil && (a == nil || a.Key() != b.Key()) {
			out = append(out, b)
		}
	}
	return out
}

// leaf: facts implied by an atomic condition having the given value.
func (f *e1func) leaf(st *fstate, cond ast.Expr, val bool) ([]*Term, bool) {
	if tv, ok := f.info.Types[cond]; ok && tv.Value != nil {
		if tv.Value.String() == "true" {
			return nil, val
		}
		if tv.Value.String() == "false" {
			return nil, !val
		}
	}
	switch c := cond.(type) {
	case *ast.BinaryExpr:
		switch c.Op {
		case token.EQL, token.NEQ:
			isEq := (c.Op == token.EQL) == val
			var x ast.Expr
			if isNilIdent(f.info, c.Y) {
				x = c.X
			} else if isNilIdent(f.info, c.X) {
				x = c.Y
			}
			if x != nil {
				xt := f.term(x)
				var out []*Term
				if isEq {
					out = append(out, fact("nil", xt))
				} else {
					out = append(out, fact("nonnil", xt))
				}
				out = append(out, f.statusFacts(st, x, xt, isEq)...)
				return out, true
			}
			a, b := f.term(c.X), f.term(c.Y)
			if isEq {
				return []*Term{fact("eq", a, b)}, true
			}
			return []*Term{fact("neq", a, b)}, true
		case token.LSS, token.GTR, token.LEQ, token.GEQ:
			a, b := f.term(c.X), f.term(c.Y)
			op := c.Op
			if !val { // negate
				switch op {
				case token.LSS:
					op = token.GEQ
				case token.GTR:
					op = token.LEQ
				case token.LEQ:
					op = token.GTR
				case token.GEQ:
					op = token.LSS
				}
			}
			switch op {
			case token.LSS:
				return []*Term{fact("lt", a, b)}, true
			case token.GTR:
				return []*Term{fact("lt", b, a)}, true
			case token.LEQ:
				return []*Term{fact("le", a, b)}, true
			case token.GEQ:
				return []*Term{fact("le", b, a)}, true
			}
		}
	case *ast.Ident:
		xt := f.term(c)
		if xt.K == "var" {
			if d := f.defOf(st, xt); d != nil {
				if fs := f.condFactsFromDef(st, xt, d, val); fs != nil {
					return fs, true
				}
				// trailing bool of a multi-result call
				if idx, known := f.statusOf[d.A[1].Key()]; len(d.A) == 3 && known && fmt.Sprint(idx) == d.A[2].S && (d.A[1].K == "call" || d.A[1].K == "mcall" || d.A[1].K == "dyn") {
					if val {
						return append([]*Term{fact("true", xt)}, f.okFacts(st, d.A[1], true)...), true
					}
					return append([]*Term{fact("false", xt), fact("fail", d.A[1])}, f.failGuarFacts(d.A[1])...), true
				}
				if len(d.A) == 2 && d.A[1].K == "const" && (d.A[1].S == "true" || d.A[1].S == "false") {
					return nil, (d.A[1].S == "true") == val
				}
				if len(d.A) == 2 && d.A[1].K == "op" {
					// the variable currently holds the value of that boolean expression (evaluated when it was assigned; the
					// definition is dropped as soon as anything it reads changes): its truth decomposes like a condition
					if fs, ok := termCondFacts(d.A[1], val); ok {
						if val {
							return append(fs, fact("true", xt)), true
						}
						return append(fs, fact("false", xt)), true
					}
				}
				if len(d.A) == 2 {
					// v := <bool expr>: re-express through the definition when it is a call
					if d.A[1].K == "call" || d.A[1].K == "mcall" {
						if val {
							return []*Term{fact("true", xt), fact("true", d.A[1])}, true
						}
						return []*Term{fact("false", xt), fact("false", d.A[1])}, true
					}
				}
			}
		}
		if val {
			return []*Term{fact("true", xt)}, true
		}
		return []*Term{fact("false", xt)}, true
	case *ast.CallExpr:
		ct := f.term(c)
		if ct.K == "call" && (ct.S == "errors.Is" || ct.S == "errors.As") && len(ct.A) == 2 {
			pred := map[string][2]string{"errors.Is": {"errIs", "notErrIs"}, "errors.As": {"errAs", "notErrAs"}}[ct.S]
			subj := ct.A[0]
			if subj.K == "var" {
				if d := f.defOf(st, subj); d != nil {
					subj = d.A[1]
				}
			}
			target := ct.A[1]
			if ct.S == "errors.As" && target.K == "op" && target.S == "&" {
				target = target.A[0]
			}
			if val {
				out := []*Term{fact(pred[0], subj, target), fact("true", ct)}
				if ct.S == "errors.Is" {
					// as an event (survives later rebinding of the call's arguments): "the error of method M was classified
					// with errors.Is on this path" - an explicit decision of the code about that failure
					subj.walk(func(x *Term) bool {
						if x.K == "mcall" {
							out = append(out, fact("didErrIs", mk("const", x.S)))
							return false
						}
						return true
					})
				}
				return out, true
			}
			return []*Term{fact(pred[1], subj, target), fact("false", ct)}, true
		}
		if val {
			// what a boolean in-module predicate guarantees when it answers true
			return append([]*Term{fact("true", ct)}, f.okFacts(st, ct, false)...), true
		}
		return append([]*Term{fact("false", ct)}, f.failGuarFacts(ct)...), true
	}
	ct := f.term(cond)
	if val {
		return []*Term{fact("true", ct)}, true
	}
	return []*Term{fact("false", ct)}, true
}

// statusFacts: ok/fail of the call that defined x, when x is that call's status result.
func (f *e1func) statusFacts(st *fstate, x ast.Expr, xt *Term, isNil bool) []*Term {
	// direct: K(...) != nil
	if c, ok := unparen(x).(*ast.CallExpr); ok {
		if idx, _, n := f.callStatusIdx(c); idx == 0 && n == 1 {
			ct := f.tb.callTerm(c)
			if isNil {
				return f.okFacts(st, ct, true)
			}
			return []*Term{fact("fail", ct)}
		}
		return nil
	}
	if xt.K != "var" || !isErrorType(xt.Obj.Type()) {
		return nil
	}
	d := f.defOf(st, xt)
	if os.Getenv("E1DEBUG") != "" {
		fmt.Fprintf(os.Stderr, "statusFacts %s: def=%v\n", xt.Key(), d)
	}
	if d == nil {
		return nil
	}
	call := d.A[1]
	if call.K != "call" && call.K != "mcall" && call.K != "dyn" {
		return nil
	}
	if isNil {
		return f.okFacts(st, call, true)
	}
	out := append([]*Term{fact("fail", call)}, f.failGuarFacts(call)...)
	if call.K == "mcall" {
		// the outcome as an event: "that method failed on this path" (survives a later re-evaluation of the same call)
		out = append(out, fact("didFail", mk("const", call.S)))
	}
	return out
}

// ---------------------------------------------------------------------------------------------
// requirement solving

type solveResult struct {
	ok     bool
	failed string // clause that could not be matched
	bind   Bind
	used   []string
}

// abstractDefs: abstract predicate name -> the guarantees that establish it (their Proof is its definition).
var abstractDefs = map[string][]*Guar{}

// abstractFailDefs: the same for predicates established on the failure / false edge (definition = FailProof).
var abstractFailDefs = map[string][]*Guar{}

var expandDepth int

// renameApart returns the pattern with every pattern variable prefixed.
func renameApart(t *Term, prefix string) *Term {
	if t.K == "pv" {
		return mk("pv", prefix+t.S)
	}
	if len(t.A) == 0 {
		return t
	}
	n := &Term{K: t.K, S: t.S, Obj: t.Obj}
	for _, a := range t.A {
		n.A = append(n.A, renameApart(a, prefix))
	}
	return n
}

func renameClause(c Clause, prefix string) Clause {
	out := Clause{Src: c.Src}
	for _, alt := range c.Alts {
		var na []*Term
		for _, a := range alt {
			na = append(na, renameApart(a, prefix))
		}
		out.Alts = append(out.Alts, na)
	}
	return out
}

// holdsByDefinition: an abstract predicate that is not in the state holds when the clauses its guarantee proves hold
// right here (the guaranteed function's body was moved into this function, or interpreted in place).
func holdsByDefinition(st *fstate, g *Term) (bool, string) {
	if expandDepth >= 3 {
		return false, ""
	}
	type defn struct {
		gu    *Guar
		facts []*Term
		proof []string
	}
	var defs []defn
	for _, gu := range abstractDefs[g.S] {
		defs = append(defs, defn{gu, gu.facts, gu.Proof})
	}
	for _, gu := range abstractFailDefs[g.S] {
		defs = append(defs, defn{gu, gu.failFacts, gu.FailProof})
	}
	for _, d := range defs {
		gu := d.gu
		if len(d.proof) == 0 {
			continue
		}
		for _, q := range d.facts {
			if q.S != g.S {
				continue
			}
			prefix := fmt.Sprintf("d%d_", expandDepth)
			nb := Bind{}
			if !unify(renameApart(q, prefix), g, nb) {
				continue
			}
			// an argument the requirement leaves open stays open in the definition
			for k, v := range nb {
				if hasPV(v) {
					delete(nb, k)
				}
			}
			var clauses []Clause
			for _, src := range d.proof {
				clauses = append(clauses, renameClause(mustClause(src), prefix))
			}
			expandDepth++
			res := solve(st, clauses, nb)
			expandDepth--
			if res.ok {
				return true, "definition of " + g.S + " (guarantee of " + gu.Fn + ")"
			}
			if os.Getenv("E1DEBUGDEF") != "" {
				fmt.Fprintf(os.Stderr, "definition of %s not provable: %s (bind %v) in state %v\n", g, res.failed, nb, st.trail())
			}
		}
	}
	return false, ""
}

// customPreds: repository-specific predicates evaluated on ground terms with access to the state.
var customPreds = map[string]func(st *fstate, args []*Term) bool{}

func builtinHolds(st *fstate, p *Term, b Bind) (bool, bool) {
	g := subst(p, b)
	if cp, ok := customPreds[p.S]; ok {
		if hasPV(g) {
			return false, true
		}
		return cp(st, g.A), true
	}
	switch p.S {
	case "same":
		if len(g.A) == 2 && !hasPV(g) {
			return g.A[0].Key() == g.A[1].Key(), true
		}
	case "eq":
		if len(g.A) == 2 && !hasPV(g) && g.A[0].Key() == g.A[1].Key() {
			return true, true
		}
	case "literal":
		if len(g.A) == 1 && !hasPV(g) {
			return g.A[0].K == "const", true
		}
	case "neq":
		// x != c holds when x is known to equal a different constant
		if len(g.A) == 2 && !hasPV(g) {
			for i := 0; i < 2; i++ {
				x, c := stripConv(g.A[i]), stripConv(g.A[1-i])
				if c.K != "const" {
					continue
				}
				for _, fc := range st.facts {
					if fc.S != "eq" || len(fc.A) != 2 {
						continue
					}
					for j := 0; j < 2; j++ {
						if stripConv(fc.A[j]).Key() != x.Key() {
							continue
						}
						o := stripConv(fc.A[1-j])
						ov, ok := constValueOf(o)
						if !ok {
							continue
						}
						cv, okc := constValueOf(c)
						if !okc {
							// a constant named in a specification pattern: resolve it in the package of the code's constant
							if oc, isC := o.Obj.(*types.Const); isC && oc.Pkg() != nil {
								name := c.S
								if i := strings.LastIndex(name, "."); i >= 0 {
									name = name[i+1:]
								}
								if pc, isPC := oc.Pkg().Scope().Lookup(name).(*types.Const); isPC && pc.Val() != nil {
									cv, okc = pc.Val().ExactString(), true
								}
							}
						}
						if okc && ov != cv {
							return true, true
						}
					}
				}
			}
		}
	case "lt":
		// n < len(x) when len(x) is known to differ from 0..n (a length is never negative)
		if len(g.A) == 2 && !hasPV(g) && g.A[0].K == "const" && g.A[1].K == "call" && g.A[1].S == "len" {
			var n int
			if _, err := fmt.Sscan(g.A[0].S, &n); err == nil && n >= 0 && n <= 4 {
				all := true
				for k := 0; k <= n; k++ {
					c := mk("const", fmt.Sprint(k))
					if !st.has(fact("neq", g.A[1], c)) && !st.has(fact("neq", c, g.A[1])) {
						all = false
					}
				}
				if all {
					return true, true
				}
			}
		}
	case "le":
		// c <= len(x) when x is (defined as) make(T, c [+ n]) with n a length
		if len(g.A) == 2 && !hasPV(g) && g.A[1].K == "call" && g.A[1].S == "len" && len(g.A[1].A) == 1 {
			c, x := g.A[0], g.A[1].A[0]
			var sizes []*Term
			if x.K == "call" && x.S == "make" && len(x.A) >= 2 {
				sizes = append(sizes, x.A[1])
			}
			for _, fc := range st.facts {
				if fc.S == "def" && len(fc.A) == 2 && fc.A[0].Key() == x.Key() && fc.A[1].K == "call" && fc.A[1].S == "make" && len(fc.A[1].A) >= 2 {
					sizes = append(sizes, fc.A[1].A[1])
				}
			}
			var atLeast func(s *Term) bool
			nonNeg := func(s *Term) bool {
				if s.K == "call" && s.S == "len" {
					return true
				}
				if v, ok := constValueOf(s); ok {
					var n int
					if _, err := fmt.Sscan(v, &n); err == nil && n >= 0 {
						return true
					}
				}
				return false
			}
			atLeast = func(s *Term) bool {
				if s.Key() == c.Key() {
					return true
				}
				if s.K == "op" && s.S == "+" && len(s.A) == 2 {
					return (atLeast(s.A[0]) && nonNeg(s.A[1])) || (atLeast(s.A[1]) && nonNeg(s.A[0]))
				}
				return false
			}
			for _, sz := range sizes {
				if atLeast(sz) {
					return true, true
				}
			}
		}
	case "nonnil":
		if len(g.A) == 1 && !hasPV(g) {
			if g.A[0].K == "lit" || (g.A[0].K == "op" && g.A[0].S == "&") {
				return true, true
			}
		}
	}
	return false, false
}

func solve(st *fstate, clauses []Clause, b Bind) solveResult {
	keys := sortedKeys(st.facts)
	var rec func(ci int, b Bind, used []string) (Bind, []string, bool)
	var matchAll func(pats []*Term, i int, b Bind, used []string, k func(Bind, []string) bool) bool
	deferred := map[*Term]int{}
	var alts map[string][]*Term
	matchAll = func(pats []*Term, i int, b Bind, used []string, k func(Bind, []string) bool) bool {
		if i == len(pats) {
			return k(b, used)
		}
		p := pats[i]
		if p.S == "def" && len(p.A) >= 2 {
			lhs := subst(p.A[0], b)
			if lhs.K == "pv" && i+1 < len(pats) && deferred[p] < 2 {
				// the defined variable is not bound yet: let the other atoms bind it first
				deferred[p]++
				np := append(append(append([]*Term{}, pats[:i]...), pats[i+1:]...), p)
				r := matchAll(np, i, b, used, k)
				deferred[p]--
				if r {
					return true
				}
			}
			if !hasPV(lhs) {
				// "v is defined as E" also holds when the bound term is E itself (a helper's local was replaced by its
				// definition when the helper returned, or the code never introduced the variable)
				var virt *Term
				if len(p.A) == 3 && lhs.K == "res" && len(lhs.A) == 1 {
					virt = fact("def", lhs, lhs.A[0], mk("const", lhs.S))
				} else if len(p.A) == 2 && lhs.K != "var" {
					virt = fact("def", lhs, lhs)
				}
				if virt != nil {
					nb := b.clone()
					if unify(p, virt, nb) && matchAll(pats, i+1, nb, append(used, "by definition "+virt.String()), k) {
						return true
					}
				}
				// the value of an interpreted helper call: eq(res(i, call), V) recorded when the helper returned
				var virts []*Term
				lk := lhs.Key()
				rk := ""
				if lhs.K == "call" || lhs.K == "mcall" {
					rk = mk("res", "0", lhs).Key()
				}
				for _, key := range keys {
					fc := st.facts[key]
					if fc.S != "eq" || len(fc.A) != 2 {
						continue
					}
					for j := 0; j < 2; j++ {
						if fc.A[j].Key() != lk && (rk == "" || fc.A[j].Key() != rk) {
							continue
						}
						v := fc.A[1-j]
						if len(p.A) == 2 {
							virts = append(virts, fact("def", lhs, v))
						} else if v.K == "res" && len(v.A) == 1 {
							virts = append(virts, fact("def", lhs, v.A[0], mk("const", v.S)))
						}
					}
				}
				// the recorded definition of the variable, with helper calls inside it replaced by the values they returned and
				// temporaries by their definitions: def(s, NewSigner(keyOf(k), opts())) is def(s, NewSigner(SigningKey{..}, ..))
				if lhs.K == "var" {
					if alts == nil {
						alts = stateAlts(st)
					}
					if len(alts) > 0 {
						for _, key := range keys {
							d := st.facts[key]
							if (d.S != "def" && d.S != "defx") || len(d.A) < 2 || d.A[0].Key() != lk || len(d.A) != len(p.A) {
								continue
							}
							for _, x := range rewriteWith(alts, d.A[1], 32, true) {
								virts = append(virts, &Term{K: "fact", S: "def", A: append([]*Term{lhs, x}, d.A[2:]...)})
							}
						}
					}
				}
				// a variable defined by an interpreted helper call whose value was recorded: def(v, H(..)) + eq(H(..), V) gives def(v, V)
				if lhs.K == "var" {
					for _, key := range keys {
						d := st.facts[key]
						if (d.S != "def" && d.S != "defx") || len(d.A) < 2 || d.A[0].Key() != lk || (d.A[1].K != "call" && d.A[1].K != "mcall") {
							continue
						}
						hk := d.A[1].Key()
						if len(d.A) == 3 {
							hk = mk("res", d.A[2].S, d.A[1]).Key()
						}
						for _, key2 := range keys {
							fc := st.facts[key2]
							if fc.S != "eq" || len(fc.A) != 2 {
								continue
							}
							for j := 0; j < 2; j++ {
								if fc.A[j].Key() != hk && !(len(d.A) == 2 && fc.A[j].Key() == mk("res", "0", d.A[1]).Key()) {
									continue
								}
								v := fc.A[1-j]
								if len(p.A) == 2 {
									virts = append(virts, fact("def", lhs, v))
								} else if v.K == "res" && len(v.A) == 1 {
									virts = append(virts, fact("def", lhs, v.A[0], mk("const", v.S)))
								}
							}
						}
					}
				}
				if lhs.K == "call" || lhs.K == "mcall" || lhs.K == "res" {
					if alts == nil {
						alts = stateAlts(st)
					}
					for _, v := range rewriteWith(alts, lhs, 24, true) {
						if len(p.A) == 2 {
							virts = append(virts, fact("def", lhs, v))
						} else if v.K == "res" && len(v.A) == 1 {
							virts = append(virts, fact("def", lhs, v.A[0], mk("const", v.S)))
						}
					}
				}
				for _, virt := range virts {
					nb := b.clone()
					if unify(p, virt, nb) && matchAll(pats, i+1, nb, append(used, "by returned value "+virt.String()), k) {
						return true
					}
				}
			}
		}
		if p.S == "def" && len(p.A) == 3 && hasPV(subst(p.A[0], b)) {
			// the defined variable is still open: every "x equals result i of call T" recorded for an interpreted helper is a candidate
			for _, key := range keys {
				fc := st.facts[key]
				if fc.S != "eq" || len(fc.A) != 2 || fc.A[1].K != "res" || len(fc.A[1].A) != 1 {
					continue
				}
				virt := fact("def", fc.A[0], fc.A[1].A[0], mk("const", fc.A[1].S))
				nb := b.clone()
				if unify(p, virt, nb) && matchAll(pats, i+1, nb, append(used, "by returned value "+virt.String()), k) {
					return true
				}
			}
		}
		if holds, decided := builtinHolds(st, p, b); decided {
			if holds {
				return matchAll(pats, i+1, b, append(used, "builtin "+subst(p, b).String()), k)
			}
			if p.S == "same" || p.S == "literal" || customPreds[p.S] != nil {
				return false
			}
		}
		for _, key := range keys {
			fc := st.facts[key]
			if fc.S != p.S {
				if p.S == "def" && fc.S == "defx" {
					fc = &Term{K: "fact", S: "def", A: fc.A}
				} else {
					continue
				}
			}
			nb := b.clone()
			if unify(p, fc, nb) {
				if matchAll(pats, i+1, nb, append(used, fc.String()), k) {
					return true
				}
			}
		}
		// modulo definitions: the fact may be spelled with a temporary or a helper call where the clause spells the value
		if p.S != "def" && p.S != "defx" && p.S != "orig" && p.S != "called" {
			if alts == nil {
				alts = stateAlts(st)
			}
			if len(alts) > 0 {
				for _, key := range keys {
					fc := st.facts[key]
					if fc.S != p.S || len(fc.A) != len(p.A) {
						continue
					}
					for _, x := range rewriteWith(alts, fc, 48, false) {
						nb := b.clone()
						if unify(p, x, nb) {
							if matchAll(pats, i+1, nb, append(used, fc.String()+" (modulo definitions)"), k) {
								return true
							}
						}
					}
				}
			}
		}
		if !factPreds[p.S] && customPreds[p.S] == nil {
			if ok, how := holdsByDefinition(st, subst(p, b)); ok {
				return matchAll(pats, i+1, b, append(used, how), k)
			}
		}
		return false
	}
	var finalB Bind
	var finalUsed []string
	rec = func(ci int, b Bind, used []string) (Bind, []string, bool) {
		if ci == len(clauses) {
			return b, used, true
		}
		for _, alt := range clauses[ci].Alts {
			done := matchAll(alt, 0, b, used, func(nb Bind, nu []string) bool {
				if rb, ru, ok := rec(ci+1, nb, nu); ok {
					finalB, finalUsed = rb, ru
					return true
				}
				return false
			})
			if done {
				return finalB, finalUsed, true
			}
		}
		return nil, nil, false
	}
	if rb, ru, ok := rec(0, b, nil); ok {
		return solveResult{ok: true, bind: rb, used: ru}
	}
	// "v is defined as E" with v still open is decided last: the other clauses bind v (possibly to E itself, when the code
	// has no variable for it)
	{
		var first, last []Clause
		for _, cl := range clauses {
			isOpenDef := len(cl.Alts) == 1 && len(cl.Alts[0]) == 1 && cl.Alts[0][0].S == "def" && len(cl.Alts[0][0].A) >= 2 && hasPV(subst(cl.Alts[0][0].A[0], b))
			if isOpenDef {
				last = append(last, cl)
			} else {
				first = append(first, cl)
			}
		}
		if len(last) > 0 && len(first) > 0 {
			saved := clauses
			clauses = append(append([]Clause{}, first...), last...)
			rb, ru, ok := rec(0, b, nil)
			clauses = saved
			if ok {
				return solveResult{ok: true, bind: rb, used: ru}
			}
		}
	}
	// diagnose: first clause that fails on its own (with the sink bindings only)
	for _, cl := range clauses {
		single := false
		for _, alt := range cl.Alts {
			if matchAll(alt, 0, b, nil, func(Bind, []string) bool { return true }) {
				single = true
				break
			}
		}
		if !single {
			return solveResult{failed: cl.Src}
		}
	}
	return solveResult{failed: "(clauses hold separately but not for one consistent binding of the pattern variables)"}
}

// dump prints the reaching facts per sink site (debugging aid: oidcheck -dump <func>).
func (f *e1func) dump() string {
	var sb strings.Builder
	fmt.Fprintf(&sb, "func %s: %d sites, widened=%v, visits=%d\n", f.fi.Name, len(f.sites), f.widened, f.visits)
	for _, s := range f.sites {
		fmt.Fprintf(&sb, "  %s %s  [%s] states=%d\n", f.eng.c.P.Position(s.pos), s.kind, s.term, len(s.states))
		for i, st := range s.states {
			okS := ""
			if s.kind == "ret" {
				okS = fmt.Sprintf(" success=%v", s.ok[i])
			}
			fmt.Fprintf(&sb, "     state %d%s via %v\n", i, okS, st.trail())
			for _, k := range sortedKeys(st.facts) {
				fmt.Fprintf(&sb, "        %s\n", st.facts[k])
			}
		}
	}
	return sb.String()
}


// constValueOf: the value of a constant term (named constants by their value, literals as written).
func constValueOf(t *Term) (string, bool) {
	if t.K != "const" {
		return "", false
	}
	if c, ok := t.Obj.(*types.Const); ok && c.Val() != nil {
		return c.Val().ExactString(), true
	}
	if len(t.S) > 0 && (t.S[0] == '"' || (t.S[0] >= '0' && t.S[0] <= '9') || t.S[0] == '-') {
		return t.S, true
	}
	return "", false
}


// termCondFacts: the facts implied by a boolean term having the given value (conjunctions when true, disjunctions when
// false, negation, comparisons, boolean calls); ok=false when the term says nothing definite.
func termCondFacts(t *Term, val bool) ([]*Term, bool) {
	if t.K == "op" && len(t.A) == 1 && t.S == "!" {
		return termCondFacts(t.A[0], !val)
	}
	if t.K == "op" && len(t.A) == 2 {
		switch t.S {
		case "&&":
			if val {
				a, ok1 := termCondFacts(t.A[0], true)
				b, ok2 := termCondFacts(t.A[1], true)
				if ok1 || ok2 {
					return append(a, b...), true
				}
			}
			return nil, false
		case "||":
			if !val {
				a, ok1 := termCondFacts(t.A[0], false)
				b, ok2 := termCondFacts(t.A[1], false)
				if ok1 || ok2 {
					return append(a, b...), true
				}
			}
			return nil, false
		case "==", "!=":
			isEq := (t.S == "==") == val
			for i := 0; i < 2; i++ {
				if t.A[i].K == "nil" {
					if isEq {
						return []*Term{fact("nil", t.A[1-i])}, true
					}
					return []*Term{fact("nonnil", t.A[1-i])}, true
				}
			}
			if isEq {
				return []*Term{fact("eq", t.A[0], t.A[1])}, true
			}
			return []*Term{fact("neq", t.A[0], t.A[1])}, true
		}
		return nil, false
	}
	if t.K == "call" || t.K == "mcall" {
		if val {
			return []*Term{fact("true", t)}, true
		}
		return []*Term{fact("false", t)}, true
	}
	return nil, false
}


// failGuarFacts: the instantiated failure-edge guarantee of a call (abstract predicates declared with FailFacts).
func (f *e1func) failGuarFacts(call *Term) []*Term {
	if call.K != "call" && call.K != "mcall" {
		return nil
	}
	g := f.eng.lookupGuar(call)
	if g == nil || len(g.failFacts) == 0 {
		return nil
	}
	b := Bind{}
	for i, name := range g.P {
		if name == "" || i >= len(call.A) {
			continue
		}
		b[name] = call.A[i]
	}
	var out []*Term
	for _, p := range g.failFacts {
		t := subst(p, b)
		if !hasPV(t) {
			out = append(out, t)
		}
	}
	return out
}


// globalErrInit: is the package-level variable declared with an initialiser that builds a (never-nil) error value?
// (Package-level variables are not reassigned: C20's R-global reports any store to one.)
func (e *e1) globalErrInit(v *types.Var) bool {
	if e.globalInit == nil {
		e.globalInit = map[*types.Var]bool{}
		for _, pk := range e.c.P.Scope {
			for _, file := range pk.Syntax {
				for _, d := range file.Decls {
					gd, ok := d.(*ast.GenDecl)
					if !ok || gd.Tok != token.VAR {
						continue
					}
					for _, sp := range gd.Specs {
						vs, ok := sp.(*ast.ValueSpec)
						if !ok || len(vs.Values) != len(vs.Names) {
							continue
						}
						for i, id := range vs.Names {
							o, _ := pk.TypesInfo.Defs[id].(*types.Var)
							if o == nil {
								continue
							}
							call, ok := unparen(vs.Values[i]).(*ast.CallExpr)
							if !ok {
								continue
							}
							tb := &termBuilder{info: pk.TypesInfo, inl: map[types.Object]ast.Expr{}, fset: e.c.P.Fset}
							if (&e1func{}).neverNil(tb.callTerm(call), nil) {
								e.globalInit[o] = true
							}
						}
					}
				}
			}
		}
	}
	return e.globalInit[v]
}

func (s *fstate) sortedKeys() []string {
	var ks []string
	for k := range s.facts {
		ks = append(ks, k)
	}
	sort.Strings(ks)
	return ks
}

// stripConv: a value conversion does not change which constant a value equals.
func stripConv(t *Term) *Term {
	for t.K == "conv" && len(t.A) == 1 {
		t = t.A[0]
	}
	return t
}
