package main

// C10 — storage failures fail closed: an error response, no code and no token (DESIGN §5 C10).

func init() {
	register(&PropSpec{
		ID: "C10",
		Explanation: "Decides, for every call into the pluggable storage from pkg/op (all invoke-mode calls on the interfaces declared in storage.go, keys.go, discovery.go, verifier_jwt_profile.go - found through go/types, not by name): the call's error result is consumed (never an expression statement, never assigned to _, never lost in go/defer), and in no path state that carries fail(<that call>) a grant sink is reachable in the same function: no token-creating call, no success document written, no Active=true store, no success return of a status-returning function. Error edges classified by errors.Is against a sentinel (ErrInvalidRefreshToken in revocation) are explicit decisions and accepted; two reviewed fall-backs are listed with reasons. Together with C09's respond-once/stop-after-error typestate (the error responder terminates the handler) this is the universally quantified part - every storage call index k - that tests cannot reach. Also: no error value built and dropped in pkg/op (R-discard). Does not decide the HTTP status chosen nor time-outs inside the storage. Round 3: error redirects go only to a validated URI (obligations shared with C03, incl. the error normaliser keeping an *oidc.Error as it is); errors stored and never examined in pkg/op are reported (E5.R-examined); error responders answer with the error they were given.",
		RuleText:    "obligation = (storage call site, function); non-trivial always (each needs the error-edge reachability argument); distinct by function + callee + ordinal",
		Assumptions: []string{"facts about a failed call are not invalidated before the sink by reassigning the call's arguments (the engine would drop the fail fact; such sites would be missed, none exist on this tree)", "callers of helper functions treat a returned error as failure (checked where the caller is in pkg/op by the same rule)"},
		Trusted:     []string{"go/types, go/cfg (x/tools v0.50.0)"},
		Level:       "Sound static check of the structural clause: no storage error is dropped and nothing is granted on any storage call's error edge, for every call site in pkg/op. Whether the response is well-formed on that edge is C09's typestate; status codes are not decided.",
		Note:        "Trusted: go/types+go/cfg. Grant sinks and the two reviewed fall-backs are tables in the checker.",
		Technique:   "static analysis: per-call-site error-edge reachability on the path-sensitive must-facts dataflow (go/cfg), storage calls resolved via go/types interface method identity, named-result rule for deferred closures",
		Rules:       []string{"E5.R-storage", "E5.R-discard", "E5.R-examined"},
		Floors:      []Floor{{"E5.R-storage", 40}},
		Run: func(c *Ctx) {
			RunStorageErrors(c)
			RunE1(c, "C10", append([]Ob{}, sharedObs["C10"]...)) // error redirects go only to a validated URI (obligations owned by C03)
			RunDiscard(c, "C10", []string{"op"})
			RunErrorsExamined(c, []string{"op"}) // an error stored and never looked at (e.g. from a wrapper around a storage call) is a swallowed storage failure
		},
	})
}
