package main

// Leaf predicates and helpers that other obligations use as atomic facts (true(op.ValidateGrantType(...)), ...).
// Each is itself checked here, so that weakening a leaf is reported by every property that relies on it.

func leafObs(prop string) []Ob {
	grant := []Ob{
		{ID: "E1.leaf.grant-type.accept", Fn: "op.ValidateGrantType", P: []string{"client", "grantType"}, Kind: "ret ok",
			Why: "a grant is allowed only if it is in the client's registered grant types",
			Req: []string{"nonnil($client)", "member($grantType, $client.GrantTypes())"}},
		{ID: "E1.leaf.grant-type.reject", Fn: "op.ValidateGrantType", P: []string{"client", "grantType"}, Kind: "ret fail",
			Why: "a registered grant type is never refused",
			Req: []string{"nil($client) || notmember($grantType, $client.GrantTypes())"}},
	}
	confidential := []Ob{
		{ID: "E1.leaf.confidential", Fn: "op.IsConfidentialType", P: []string{"c"}, Kind: "ret ok", Req: []string{"eq($c.ApplicationType(), op.ApplicationTypeWeb)"}},
		{ID: "E1.leaf.confidential.only", Fn: "op.IsConfidentialType", P: []string{"c"}, Kind: "ret fail", Req: []string{"neq($c.ApplicationType(), op.ApplicationTypeWeb)"}},
	}
	respType := []Ob{
		{ID: "E1.leaf.response-type.contains", Fn: "op.ContainsResponseType", P: []string{"types", "responseType"}, Kind: "ret ok",
			Req: []string{"member($responseType, $types)"}},
		{ID: "E1.leaf.response-type.only", Fn: "op.ContainsResponseType", P: []string{"types", "responseType"}, Kind: "ret fail", Req: []string{"notmember($responseType, $types)"}},
		{ID: "E1.leaf.response-type.validate", Fn: "op.ValidateAuthReqResponseType", P: []string{"client", "responseType"}, Kind: "ret ok",
			Req: []string{`neq($responseType, "")`, "true(op.ContainsResponseType($client.ResponseTypes(), $responseType))"}},
	}
	cryptoLeaf := []Ob{
		{ID: "E8.leaf.crypto.decrypt", Fn: "op.(*aesCrypto).Decrypt", P: []string{"c", "s"}, Kind: "ret any", Pat: "ret(res(0, crypto.DecryptAES($s, $c.key)), _)", Max: 1, Only: true},
		{ID: "E8.leaf.crypto.encrypt", Fn: "op.(*aesCrypto).Encrypt", P: []string{"c", "s"}, Kind: "ret any", Pat: "ret(res(0, crypto.EncryptAES($s, $c.key)), _)", Max: 1, Only: true},
		{ID: "E8.leaf.crypto.key", Fn: "op.NewAESCrypto", P: []string{"key"}, Kind: "ret any", Pat: "ret(&aesCrypto{key: conv(string, $key[:32])})", Max: 1, Only: true},
	}
	issuer := []Ob{
		{ID: "E8.leaf.issuer.from-context", Fn: "op.IssuerFromContext", P: []string{"ctx"}, Kind: "ret any", Pat: "ret($iss)", Max: 1, Only: true, Req: []string{"def($iss, $ctx.Value(op.issuerKey).(string), 0)"}},
		{ID: "E8.leaf.issuer.to-context", Fn: "op.ContextWithIssuer", P: []string{"ctx", "issuer"}, Kind: "ret any", Pat: "ret(context.WithValue($ctx, op.issuerKey, $issuer))", Max: 1, Only: true},
		{ID: "E8.leaf.issuer.interceptor", Fn: "op.(*IssuerInterceptor).setIssuerCtx", P: []string{"i", "w", "r", "next"}, Kind: "call", Pat: "op.ContextWithIssuer($r.Context(), $i.issuerFromRequest($r))", Max: 1},
	}
	bearer := []Ob{
		{ID: "E1.leaf.bearer-header", Fn: "op.getAccessToken", P: []string{"r"}, Kind: "ret ok", Pat: "ret($parts[1], nil)", Max: 1,
			Req: []string{`def($parts, strings.Split($r.Header.Get("authorization"), "Bearer "))`, "eq(len($parts), 2)"}},
	}
	removeScopes := []Ob{
		{ID: "E1.leaf.userinfo-scopes.kept", Fn: "op.removeUserinfoScopes", P: []string{"scopes"}, Kind: "store", Pat: "store($l, append($l, $scope))", Max: 1,
			Req: []string{"inloop($scope, $scopes)", "neq($scope, oidc.ScopeProfile)", "neq($scope, oidc.ScopeEmail)", "neq($scope, oidc.ScopeAddress)", "neq($scope, oidc.ScopePhone)"}},
	}
	switch prop {
	case "C05":
		return append(append([]Ob{}, grant...), confidential...)
	case "C04", "C07":
		return grant
	case "C03":
		return append(append([]Ob{}, confidential...), respType...)
	case "C08":
		return append(append([]Ob{}, cryptoLeaf...), bearer...)
	case "C06":
		return append(append([]Ob{}, cryptoLeaf...), removeScopes...)
	case "C19":
		return issuer
	case "C16":
		return confidential
	}
	return nil
}
