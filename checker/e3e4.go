package main

// E3 — nil-flow for decode targets (N1) and "nil with success" results (N2);
// E4 — panic sites: unchecked type assertions, panic calls, unproven bounds checks, marshal recursion.
// AST + go/types; the null-rejecting property of a decode forwarder is an E1 obligation.

import (
	"bufio"
	"fmt"
	"go/ast"
	"go/token"
	"go/types"
	"os"
	"os/exec"
	"path/filepath"
	"regexp"
	"sort"
	"strconv"
	"strings"

	"golang.org/x/tools/go/types/typeutil"
)

type decodeFn struct {
	name string
	arg  int  // index of the decode target among the call's arguments (-1 = every variadic argument from `from`)
	from int  // first variadic index when arg == -1
	prim bool // encoding/json primitive
}

func calleeFullName(fn *types.Func) string { return calleeName(fn) }

// decodeTargets: the target argument expressions of a call if it is a decode-into call.
func decodeTargets(info *types.Info, call *ast.CallExpr, fwd map[string]decodeFn) ([]ast.Expr, *decodeFn) {
	fn, _ := typeutil.Callee(info, call).(*types.Func)
	if fn == nil {
		return nil, nil
	}
	d, ok := fwd[calleeFullName(fn.Origin())]
	if !ok {
		return nil, nil
	}
	if d.arg >= 0 {
		if d.arg < len(call.Args) {
			return []ast.Expr{call.Args[d.arg]}, &d
		}
		return nil, &d
	}
	if d.from <= len(call.Args) {
		return call.Args[d.from:], &d
	}
	return nil, &d
}

// computeDecodeForwarders: in-module functions that pass one of their parameters straight to a decode-into call.
func computeDecodeForwarders(c *Ctx) map[string]decodeFn {
	fwd := map[string]decodeFn{
		"encoding/json.Unmarshal":         {name: "encoding/json.Unmarshal", arg: 1, prim: true},
		"(*encoding/json.Decoder).Decode": {name: "(*encoding/json.Decoder).Decode", arg: 0, prim: true},
	}
	for changed := true; changed; {
		changed = false
		for _, fi := range c.P.Funcs {
			if fi.Body == nil || fi.Obj == nil || fi.Ctl {
				continue
			}
			if _, done := fwd[fi.Name]; done {
				continue
			}
			info := fi.Pkg.TypesInfo
			params := map[types.Object]int{}
			variadicIdx := -1
			for i := 0; i < fi.Sig.Params().Len(); i++ {
				params[fi.Sig.Params().At(i)] = i
			}
			if fi.Sig.Variadic() {
				variadicIdx = fi.Sig.Params().Len() - 1
			}
			// range variables over the variadic parameter count as that parameter
			rangeOf := map[types.Object]int{}
			ast.Inspect(fi.Body, func(n ast.Node) bool {
				if rs, ok := n.(*ast.RangeStmt); ok && variadicIdx >= 0 {
					if id, ok := unparen(rs.X).(*ast.Ident); ok && info.Uses[id] == fi.Sig.Params().At(variadicIdx) {
						if v, ok := rs.Value.(*ast.Ident); ok {
							if o := info.Defs[v]; o != nil {
								rangeOf[o] = variadicIdx
							}
						}
					}
				}
				return true
			})
			ast.Inspect(fi.Body, func(n ast.Node) bool {
				call, ok := n.(*ast.CallExpr)
				if !ok {
					return true
				}
				targets, _ := decodeTargets(info, call, fwd)
				for _, t := range targets {
					id, ok := unparen(t).(*ast.Ident)
					if !ok {
						continue
					}
					o := info.Uses[id]
					if idx, isParam := params[o]; isParam && idx != variadicIdx {
						fwd[calleeName(fi.Obj)] = decodeFn{name: fi.Name, arg: idx}
						changed = true
					} else if idx, isRange := rangeOf[o]; isRange {
						fwd[calleeName(fi.Obj)] = decodeFn{name: fi.Name, arg: -1, from: idx}
						changed = true
					}
				}
				return true
			})
		}
	}
	return fwd
}

func nillableKind(t types.Type) string {
	switch u := t.(type) {
	case *types.TypeParam:
		return "type parameter"
	case *types.Pointer:
		return "pointer"
	case *types.Named, *types.Alias:
		switch t.Underlying().(type) {
		case *types.Pointer:
			return "pointer"
		case *types.Interface:
			return "interface"
		case *types.Map:
			return "map"
		}
	case *types.Interface:
		_ = u
		return "interface"
	case *types.Map:
		return "map"
	}
	return ""
}

// enclosing-statement helpers ------------------------------------------------------------------

type parentMap map[ast.Node]ast.Node

func buildParents(root ast.Node) parentMap {
	pm := parentMap{}
	var stack []ast.Node
	ast.Inspect(root, func(n ast.Node) bool {
		if n == nil {
			stack = stack[:len(stack)-1]
			return true
		}
		if len(stack) > 0 {
			pm[n] = stack[len(stack)-1]
		}
		stack = append(stack, n)
		return true
	})
	return pm
}

func condTestsNil(info *types.Info, cond ast.Expr, v types.Object, wantNonNil bool) bool {
	cond = unparen(cond)
	switch c := cond.(type) {
	case *ast.BinaryExpr:
		switch c.Op {
		case token.LAND:
			if wantNonNil {
				return condTestsNil(info, c.X, v, true) || condTestsNil(info, c.Y, v, true)
			}
			return false
		case token.LOR:
			if !wantNonNil {
				return condTestsNil(info, c.X, v, false) || condTestsNil(info, c.Y, v, false)
			}
			return false
		case token.NEQ, token.EQL:
			var other ast.Expr
			if isNilIdent(info, c.Y) {
				other = c.X
			} else if isNilIdent(info, c.X) {
				other = c.Y
			}
			if id, ok := unparen(other).(*ast.Ident); other != nil && ok && info.Uses[id] == v {
				return (c.Op == token.NEQ) == wantNonNil
			}
		}
	}
	return false
}

func terminates(b *ast.BlockStmt) bool {
	if b == nil || len(b.List) == 0 {
		return false
	}
	switch s := b.List[len(b.List)-1].(type) {
	case *ast.ReturnStmt:
		return true
	case *ast.BranchStmt:
		return s.Tok == token.BREAK || s.Tok == token.CONTINUE || s.Tok == token.GOTO
	case *ast.ExprStmt:
		if call, ok := s.X.(*ast.CallExpr); ok {
			if id, ok := call.Fun.(*ast.Ident); ok && id.Name == "panic" {
				return true
			}
		}
	}
	return false
}

// nilGuarded: is the use at node `use` of variable v protected by a nil test (enclosing `if v != nil` body, or an
// earlier sibling `if v == nil { ...terminates }` in an enclosing block)?
func nilGuarded(info *types.Info, pm parentMap, use ast.Node, v types.Object) bool {
	child := use
	for p := pm[use]; p != nil; child, p = p, pm[p] {
		switch s := p.(type) {
		case *ast.IfStmt:
			if child == ast.Node(s.Body) && condTestsNil(info, s.Cond, v, true) {
				return true
			}
			if s.Else != nil && child == s.Else && condTestsNil(info, s.Cond, v, false) {
				return true
			}
		case *ast.BinaryExpr:
			// v != nil && v.F ...
			if s.Op == token.LAND && child == ast.Node(s.Y) && condTestsNil(info, s.X, v, true) {
				return true
			}
			if s.Op == token.LOR && child == ast.Node(s.Y) && condTestsNil(info, s.X, v, false) {
				return true
			}
		case *ast.BlockStmt:
			for _, st := range s.List {
				if st == child {
					break
				}
				if is, ok := st.(*ast.IfStmt); ok && condTestsNil(info, is.Cond, v, false) && terminates(is.Body) {
					return true
				}
			}
		case *ast.CaseClause:
			for _, st := range s.Body {
				if st == child {
					break
				}
				if is, ok := st.(*ast.IfStmt); ok && condTestsNil(info, is.Cond, v, false) && terminates(is.Body) {
					return true
				}
			}
		case *ast.FuncLit, *ast.FuncDecl:
			return false
		}
	}
	return false
}

// derefUses: uses of v after position `after` that dereference it (field/method selection, *v, call argument,
// map store, unchecked assertion); nil comparisons, returns and comma-ok/type-switch assertions are not dereferences.
func derefUses(fi *FuncInfo, pm parentMap, v types.Object, after token.Pos, kind string) []ast.Node {
	info := fi.Pkg.TypesInfo
	var out []ast.Node
	ast.Inspect(fi.Body, func(n ast.Node) bool {
		id, ok := n.(*ast.Ident)
		if !ok || info.Uses[id] != v || id.Pos() <= after {
			return true
		}
		p := pm[id]
		for {
			if pe, ok := p.(*ast.ParenExpr); ok {
				p = pm[pe]
				continue
			}
			break
		}
		switch pp := p.(type) {
		case *ast.SelectorExpr:
			if pp.X == ast.Expr(id) || unparen(pp.X) == ast.Expr(id) {
				if kind == "map" {
					return true
				}
				out = append(out, pp)
			}
		case *ast.StarExpr:
			out = append(out, pp)
		case *ast.CallExpr:
			for _, a := range pp.Args {
				if unparen(a) == ast.Expr(id) {
					if kind != "map" {
						out = append(out, pp)
					}
				}
			}
		case *ast.IndexExpr:
			if unparen(pp.X) == ast.Expr(id) && kind == "map" {
				// a store into a nil map panics; a read does not
				if as, ok := pm[pp].(*ast.AssignStmt); ok {
					for _, l := range as.Lhs {
						if l == ast.Expr(pp) {
							out = append(out, pp)
						}
					}
				}
			}
		case *ast.TypeAssertExpr:
			if pp.Type != nil && !commaOkContext(pm, pp) {
				out = append(out, pp)
			}
		}
		return true
	})
	return out
}

func commaOkContext(pm parentMap, ta *ast.TypeAssertExpr) bool {
	var n ast.Node = ta
	p := pm[n]
	for {
		if pe, ok := p.(*ast.ParenExpr); ok {
			n, p = pe, pm[pe]
			continue
		}
		break
	}
	switch s := p.(type) {
	case *ast.AssignStmt:
		return len(s.Lhs) == 2 && len(s.Rhs) == 1
	case *ast.ValueSpec:
		return len(s.Names) == 2 && len(s.Values) == 1
	case *ast.TypeSwitchStmt:
		return true
	case *ast.ExprStmt:
		_, isTS := pm[s].(*ast.TypeSwitchStmt)
		return isTS
	}
	return false
}

// RunN1: nullable decode targets.
func RunN1(c *Ctx, nullRejecting map[string]bool) {
	fwd := computeDecodeForwarders(c)
	var names []string
	for k, d := range fwd {
		if !d.prim {
			names = append(names, k)
		}
	}
	sort.Strings(names)
	c.R.Extra["decode_forwarders"] = names
	// null rejection is inherited: a forwarder all of whose decodes of its parameter go through null-rejecting functions
	// rejects a null document itself (a thin wrapper around HttpRequest / ParseToken)
	{
		nr := map[string]bool{}
		for k, v := range nullRejecting {
			nr[k] = v
		}
		for changed := true; changed; {
			changed = false
			for _, d := range fwd {
				if d.prim || nr[d.name] {
					continue
				}
				hf := c.P.Fn(d.name)
				if hf == nil || hf.Body == nil || hf.Sig == nil {
					continue
				}
				hinfo := hf.Pkg.TypesInfo
				n, good := 0, true
				ast.Inspect(hf.Body, func(nd ast.Node) bool {
					call, ok := nd.(*ast.CallExpr)
					if !ok {
						return true
					}
					targets, inner := decodeTargets(hinfo, call, fwd)
					if inner == nil {
						return true
					}
					for _, t := range targets {
						if id, ok := unparen(t).(*ast.Ident); ok {
							if v, isVar := hinfo.Uses[id].(*types.Var); isVar && isParamVar(c, v) {
								n++
								if !nr[inner.name] {
									good = false
								}
							}
						}
					}
					return true
				})
				if n > 0 && good {
					nr[d.name] = true
					changed = true
				}
			}
		}
		nullRejecting = nr
	}
	sites := 0
	for _, fi := range c.P.Funcs {
		if fi.Body == nil || fi.Lit != nil {
			continue
		}
		info := fi.Pkg.TypesInfo
		var pm parentMap
		ord := 0
		ast.Inspect(fi.Body, func(n ast.Node) bool {
			call, ok := n.(*ast.CallExpr)
			if !ok {
				return true
			}
			targets, d := decodeTargets(info, call, fwd)
			if d == nil {
				return true
			}
			for _, t := range targets {
				u, ok := unparen(t).(*ast.UnaryExpr)
				if !ok || u.Op != token.AND {
					continue
				}
				id, ok := unparen(u.X).(*ast.Ident)
				var v types.Object
				var vt types.Type
				if ok {
					v = info.Uses[id]
					vt = info.TypeOf(id)
				} else if sel, isSel := unparen(u.X).(*ast.SelectorExpr); isSel {
					vt = info.TypeOf(sel)
					_ = sel
				}
				kind := ""
				if vt != nil {
					kind = nillableKind(vt)
				}
				if kind == "" {
					continue
				}
				sites++
				ord++
				construct := fmt.Sprintf("decode into &%s (%s) via %s#%d", types.ExprString(u.X), kind, d.name, ord)
				pos := c.P.Position(call.Pos())
				if nullRejecting[d.name] {
					c.R.Obl(Obligation{Rule: "E3.N1", Func: fi.Name, Construct: construct, Pos: pos, Discharged: true, Nontrivial: true, How: []string{d.name + " rejects a JSON null document before decoding (E1 obligation E3.null-rejecting)"}, Ctl: fi.Ctl})
					continue
				}
				if v == nil {
					// a field target (&j.private): look for stores through it in this function only
					c.R.Obl(Obligation{Rule: "E3.N1", Func: fi.Name, Construct: construct, Pos: pos, Discharged: true, Nontrivial: false, How: []string{"field target; no local variable to dereference"}, Ctl: fi.Ctl})
					continue
				}
				if pm == nil {
					pm = buildParents(fi.Body)
				}
				var bad []ast.Node
				for _, use := range derefUses(fi, pm, v, call.End(), kind) {
					if !nilGuarded(info, pm, use, v) {
						bad = append(bad, use)
					}
				}
				c.R.Obl(Obligation{Rule: "E3.N1", Func: fi.Name, Construct: construct, Pos: pos, Discharged: len(bad) == 0, Nontrivial: true,
					How: []string{fmt.Sprintf("%d later dereferencing use(s), all nil-guarded or none", len(bad))}, Ctl: fi.Ctl})
				for _, b := range bad {
					c.R.Find(Finding{Rule: "E3.N1", Func: fi.Name, Construct: "unguarded use of " + v.Name() + " after nullable decode via " + d.name, Pos: c.P.Position(b.Pos()),
						Msg: fmt.Sprintf("%s is decoded with &%s (%s): the JSON document `null` leaves it nil without an error, and `%s` dereferences it", fi.Name, v.Name(), kind, exprOrNode(b)), Ctl: fi.Ctl})
					break
				}
			}
			return true
		})
	}
	c.R.Extra["nullable_decode_sites"] = sites
}

func exprOrNode(n ast.Node) string {
	if e, ok := n.(ast.Expr); ok {
		return types.ExprString(e)
	}
	return fmt.Sprintf("%T", n)
}

// RunN2: results that may be nil together with a success status, dereferenced by callers without a nil test.
func RunN2(c *Ctx) {
	type key struct {
		fn  *types.Func
		idx int
	}
	nilOK := map[key]token.Pos{}
	for _, fi := range c.P.Funcs {
		if fi.Body == nil || fi.Obj == nil || fi.Sig == nil {
			continue
		}
		sidx, sbool := statusIndex(fi.Sig)
		if sidx < 0 {
			continue
		}
		info := fi.Pkg.TypesInfo
		ast.Inspect(fi.Body, func(n ast.Node) bool {
			if _, isLit := n.(*ast.FuncLit); isLit {
				return false
			}
			rs, ok := n.(*ast.ReturnStmt)
			if !ok || len(rs.Results) != fi.Sig.Results().Len() {
				return true
			}
			st := unparen(rs.Results[sidx])
			success := false
			if sbool {
				if id, ok := st.(*ast.Ident); ok && id.Name == "true" {
					success = true
				}
			} else if isNilIdent(info, st) {
				success = true
			}
			if !success {
				return true
			}
			for i, r := range rs.Results {
				if i == sidx || !isNilIdent(info, r) {
					continue
				}
				switch fi.Sig.Results().At(i).Type().Underlying().(type) {
				case *types.Pointer, *types.Interface, *types.Signature:
					k := key{fi.Obj, i}
					if _, seen := nilOK[k]; !seen {
						nilOK[k] = rs.Pos()
					}
				}
			}
			return true
		})
	}
	var list []string
	for k, pos := range nilOK {
		list = append(list, fmt.Sprintf("%s result %d (%s)", FuncName(k.fn), k.idx, c.P.Position(pos)))
	}
	sort.Strings(list)
	c.R.Extra["nil_with_success_results"] = list
	for _, fi := range c.P.Funcs {
		if fi.Body == nil || fi.Lit != nil {
			continue
		}
		info := fi.Pkg.TypesInfo
		var pm parentMap
		ast.Inspect(fi.Body, func(n ast.Node) bool {
			as, ok := n.(*ast.AssignStmt)
			if !ok || len(as.Rhs) != 1 {
				return true
			}
			call, ok := unparen(as.Rhs[0]).(*ast.CallExpr)
			if !ok {
				return true
			}
			fn, _ := typeutil.Callee(info, call).(*types.Func)
			if fn == nil {
				return true
			}
			for i, l := range as.Lhs {
				if _, risky := nilOK[key{fn.Origin(), i}]; !risky {
					continue
				}
				id, ok := unparen(l).(*ast.Ident)
				if !ok || id.Name == "_" {
					continue
				}
				v := info.Defs[id]
				if v == nil {
					v = info.Uses[id]
				}
				if v == nil {
					continue
				}
				if pm == nil {
					pm = buildParents(fi.Body)
				}
				var bad ast.Node
				for _, use := range derefUses(fi, pm, v, as.End(), "pointer") {
					if _, isCall := use.(*ast.CallExpr); isCall {
						continue // handing the value on is not a dereference here
					}
					if !nilGuarded(info, pm, use, v) {
						bad = use
						break
					}
				}
				construct := fmt.Sprintf("result %d of %s bound to %s", i, FuncName(fn), v.Name())
				c.R.Obl(Obligation{Rule: "E3.N2", Func: fi.Name, Construct: construct, Pos: c.P.Position(as.Pos()), Discharged: bad == nil, Nontrivial: true,
					How: []string{"callee may return nil with a success status; every dereference must be nil-guarded"}, Ctl: fi.Ctl})
				if bad != nil {
					c.R.Find(Finding{Rule: "E3.N2", Func: fi.Name, Construct: "unguarded dereference of " + construct, Pos: c.P.Position(bad.Pos()),
						Msg: fmt.Sprintf("%s can return nil in result %d together with success; %s dereferences it (`%s`) without a nil test", FuncName(fn), i, fi.Name, exprOrNode(bad)), Ctl: fi.Ctl})
				}
			}
			return true
		})
	}
}

// ------------------------------------------------------------------------------------------------
// E4

type allowSite struct{ fn, expr, why string }

// RunAssertPanic: R-assert and R-panic over the given packages (short names); allow tables keyed by function + expression.
func RunAssertPanic(c *Ctx, pkgs []string, allowAssert, allowPanic []allowSite) {
	in := map[string]bool{}
	for _, p := range pkgs {
		in[p] = true
	}
	allowedA := map[string]string{}
	for _, a := range allowAssert {
		allowedA[a.fn+"|"+a.expr] = a.why
	}
	allowedP := map[string]string{}
	for _, a := range allowPanic {
		allowedP[a.fn+"|"+a.expr] = a.why
	}
	usedA, usedP := map[string]bool{}, map[string]bool{}
	scan := func(holder string, pk *FuncInfo, owner *FuncInfo, root ast.Node, info *types.Info, ctl bool) {
		pm := buildParents(root)
		ast.Inspect(root, func(n ast.Node) bool {
			switch x := n.(type) {
			case *ast.FuncLit:
				if pk != nil && pk.Lit != x && n != root {
					return false
				}
			case *ast.TypeAssertExpr:
				if x.Type == nil || commaOkContext(pm, x) {
					return true
				}
				key := holder + "|" + types.ExprString(x)
				why, ok := allowedA[key]
				if ok {
					usedA[key] = true
				}
				if !ok && owner != nil {
					// name-insensitive rendering; a helper introduced after the baseline counts for the functions that use it
					ce := canonExpr(owner, x, c.P.Fset)
					for _, nm := range c.attributed(owner) {
						if w, has := allowedA[nm+"|"+ce]; has {
							why, ok = w, true
							usedA[nm+"|"+ce] = true
						}
					}
				}
				c.R.Obl(Obligation{Rule: "E4.R-assert", Func: holder, Construct: "unchecked assertion " + types.ExprString(x), Pos: c.P.Position(x.Pos()), Discharged: ok, Nontrivial: true, How: []string{why}, Ctl: ctl})
				if !ok {
					c.R.Find(Finding{Rule: "E4.R-assert", Func: holder, Construct: "unchecked type assertion " + types.ExprString(x), Pos: c.P.Position(x.Pos()),
						Msg: fmt.Sprintf("`%s` panics when the dynamic type differs; in code reachable from untrusted input use the comma-ok form and return an error", types.ExprString(x)), Ctl: ctl})
				}
			case *ast.CallExpr:
				if id, ok := unparen(x.Fun).(*ast.Ident); ok {
					if b, ok := info.Uses[id].(*types.Builtin); ok && b.Name() == "panic" {
						key := holder + "|panic"
						why, ok := allowedP[key]
						if ok {
							usedP[key] = true
						}
						c.R.Obl(Obligation{Rule: "E4.R-panic", Func: holder, Construct: "panic call", Pos: c.P.Position(x.Pos()), Discharged: ok, Nontrivial: true, How: []string{why}, Ctl: ctl})
						if !ok {
							c.R.Find(Finding{Rule: "E4.R-panic", Func: holder, Construct: "call of panic", Pos: c.P.Position(x.Pos()), Msg: "explicit panic in library code that handles untrusted input", Ctl: ctl})
						}
					}
				}
			}
			return true
		})
	}
	nf := 0
	for _, fi := range c.P.Funcs {
		if fi.Body == nil || fi.Parent != nil || (!in[shortPkg(fi.Pkg.PkgPath)] && !fi.Ctl) {
			continue
		}
		nf++
		scan(fi.Name, nil, fi, fi.Body, fi.Pkg.TypesInfo, fi.Ctl)
		c.R.Saw(fi.Name)
	}
	c.R.Extra["assert_panic_functions_scanned"] = nf
	for k := range allowedA {
		if !usedA[k] {
			c.R.Find(Finding{Rule: "vacuity", Func: strings.SplitN(k, "|", 2)[0], Construct: "E4.R-assert allow-list entry " + k, Pos: "-", Msg: "allow-listed assertion no longer exists: remove or re-point the entry"})
		}
	}
	for k := range allowedP {
		if !usedP[k] {
			c.R.Find(Finding{Rule: "vacuity", Func: strings.SplitN(k, "|", 2)[0], Construct: "E4.R-panic allow-list entry " + k, Pos: "-", Msg: "allow-listed panic no longer exists: remove or re-point the entry"})
		}
	}
}

var bceLine = regexp.MustCompile(`^(.+\.go):(\d+):(\d+): Found (IsInBounds|IsSliceInBounds)`)

// RunBounds: the bounds checks the compiler's prove pass could not eliminate, against a reviewed table.
func RunBounds(c *Ctx, allowed []allowSite) {
	cmd := exec.Command("go", "build", "-gcflags="+modPath+"/pkg/...=-d=ssa/check_bce/debug=1", "./pkg/...")
	cmd.Dir = c.P.Repo
	env := []string{}
	for _, e := range os.Environ() {
		if strings.HasPrefix(e, "GOFLAGS=") || strings.HasPrefix(e, "GOWORK=") {
			continue
		}
		env = append(env, e)
	}
	cmd.Env = append(env, "GOFLAGS=-mod=mod", "GOWORK=off", "GOPROXY=off", "GOSUMDB=off", "GOTOOLCHAIN=local")
	out, err := cmd.CombinedOutput()
	if err != nil && !strings.Contains(string(out), "Found Is") {
		c.R.Fail("engine-error", "-", "E4.R-bounds", "go build for the bounds-check report failed: "+err.Error()+": "+firstLine(string(out)))
		return
	}
	allow := map[string]string{}
	for _, a := range allowed {
		allow[a.fn+"|"+a.expr] = a.why
	}
	used := map[string]bool{}
	type site struct {
		file      string
		line, col int
	}
	var sites []site
	sc := bufio.NewScanner(strings.NewReader(string(out)))
	for sc.Scan() {
		m := bceLine.FindStringSubmatch(sc.Text())
		if m == nil {
			continue
		}
		l, _ := strconv.Atoi(m[2])
		co, _ := strconv.Atoi(m[3])
		f := m[1]
		if !filepath.IsAbs(f) {
			f = filepath.Join(c.P.Repo, f)
		}
		sites = append(sites, site{f, l, co})
	}
	total := 0
	for _, s := range sites {
		if excludedFile(s.file) || strings.Contains(s.file, "/pkg/op/mock/") {
			continue
		}
		// locate function and innermost index/slice expression at that position
		var holder *FuncInfo
		for _, fi := range c.P.Funcs {
			if fi.Body == nil || fi.Ctl {
				continue
			}
			ps, pe := c.P.Fset.Position(fi.Body.Pos()), c.P.Fset.Position(fi.Body.End())
			if ps.Filename == s.file && ps.Line <= s.line && s.line <= pe.Line {
				if holder == nil || fi.Body.Pos() > holder.Body.Pos() {
					holder = fi
				}
			}
		}
		if holder == nil {
			continue
		}
		expr := ""
		var siteExpr ast.Expr
		ast.Inspect(holder.Body, func(n ast.Node) bool {
			switch x := n.(type) {
			case *ast.IndexExpr, *ast.SliceExpr:
				if isInstantiation(holder.Pkg.TypesInfo, x.(ast.Expr)) {
					return true
				}
				p := c.P.Fset.Position(x.Pos())
				e := c.P.Fset.Position(x.End())
				if p.Line <= s.line && s.line <= e.Line {
					// the report column points at the bracket or operand; keep the innermost match on that line
					if p.Line == s.line {
						// name-insensitive rendering: locals replaced by their definitions (canon.go)
						expr = canonExpr(holder, x.(ast.Expr), c.P.Fset)
						siteExpr = x.(ast.Expr)
					}
				}
			}
			return true
		})
		total++
		root := holder.Root().Name
		key := root + "|" + expr
		why, ok := allow[key]
		if ok {
			used[key] = true
		}
		if !ok {
			// a helper introduced after the baseline counts for the functions that use it
			for _, nm := range c.attributed(holder) {
				if w, has := allow[nm+"|"+expr]; has {
					why, ok = w, true
					used[nm+"|"+expr] = true
				}
			}
		}
		if !ok && siteExpr != nil && rangeIndexInBounds(holder, siteExpr) {
			why, ok = "index is the key of a range over the indexed slice or over the slice whose length sized it (checked structurally)", true
		}
		if !ok && expr == "" {
			// the compiler inlined a callee here and reports its bounds check at the call: look at the index expressions of the
			// in-module functions called on this line
			info := holder.Pkg.TypesInfo
			ast.Inspect(holder.Body, func(n ast.Node) bool {
				call, isCall := n.(*ast.CallExpr)
				if !isCall || c.P.Fset.Position(call.Pos()).Line != s.line {
					return true
				}
				fn, _ := typeutil.Callee(info, call).(*types.Func)
				if fn == nil {
					return true
				}
				for _, callee := range c.P.Funcs {
					if callee.Obj != fn.Origin() || callee.Body == nil {
						continue
					}
					nIdx, nProven := 0, 0
					ast.Inspect(callee.Body, func(m ast.Node) bool {
						switch x := m.(type) {
						case *ast.IndexExpr, *ast.SliceExpr:
							if isInstantiation(callee.Pkg.TypesInfo, x.(ast.Expr)) || isMapIndex(callee.Pkg.TypesInfo, x.(ast.Expr)) {
								return true
							}
							nIdx++
							if rangeIndexInBounds(callee, x.(ast.Expr)) {
								nProven++
							}
							ce := canonExpr(callee, x.(ast.Expr), c.P.Fset)
							for _, nm := range append(c.attributed(callee), root) {
								if w, has := allow[nm+"|"+ce]; has {
									why, ok = w, true
									used[nm+"|"+ce] = true
								}
							}
						}
						return true
					})
					if !ok && nIdx > 0 && nIdx == nProven {
						why, ok = "every index in the inlined callee is the key of a range over the indexed slice or the slice whose length sized it", true
					}
				}
				return true
			})
		}
		if !ok && siteExpr != nil && holder != nil && rangeIndexInBounds(holder, siteExpr) {
			why, ok = "the index is the key of a range over the indexed slice, which the loop body does not change", true
		}
		if !ok && siteExpr != nil {
			if w, proved := boundsByCallers(c, holder, siteExpr); proved {
				why, ok = w, true
			}
		}
		c.R.Obl(Obligation{Rule: "E4.R-bounds", Func: root, Construct: "unproven bounds check " + expr, Pos: fmt.Sprintf("%s:%d", relTo(c.P.Repo, s.file), s.line), Discharged: ok, Nontrivial: true, How: []string{why}})
		if !ok {
			c.R.Find(Finding{Rule: "E4.R-bounds", Func: root, Construct: "unproven bounds check " + expr, Pos: fmt.Sprintf("%s:%d", relTo(c.P.Repo, s.file), s.line),
				Msg: fmt.Sprintf("the compiler cannot prove `%s` in bounds and the site is not in the reviewed table: an out-of-range index panics", expr)})
		}
	}
	c.R.Extra["unproven_bounds_checks"] = total
	for k := range allow {
		if !used[k] {
			// a site the compiler now proves is fine; only note it
			c.R.Extra["bounds_allow_unused:"+k] = true
		}
	}
}

func relTo(root, f string) string {
	if r, err := filepath.Rel(root, f); err == nil {
		return r
	}
	return f
}

func firstLine(s string) string {
	if i := strings.Index(s, "\n"); i >= 0 {
		return s[:i]
	}
	return s
}

// RunMarshalRecursion: inside a (Un)Marshal{JSON,Text} method of T, nothing of type T / *T (whose method set
// contains that very method) may be handed to the json package or the module's codec helpers.
func RunMarshalRecursion(c *Ctx, pkgs []string) {
	in := map[string]bool{}
	for _, p := range pkgs {
		in[p] = true
	}
	codec := map[string]bool{"MarshalJSON": true, "UnmarshalJSON": true, "MarshalText": true, "UnmarshalText": true}
	n := 0
	for _, fi := range c.P.Funcs {
		if fi.Body == nil || fi.Obj == nil || fi.Sig == nil || fi.Sig.Recv() == nil || !codec[fi.Obj.Name()] || (!in[shortPkg(fi.Pkg.PkgPath)] && !fi.Ctl) {
			continue
		}
		n++
		info := fi.Pkg.TypesInfo
		recvT := derefType(fi.Sig.Recv().Type())
		method := fi.Obj.Name()
		hasMethod := func(t types.Type) bool {
			if t == nil {
				return false
			}
			for _, tt := range []types.Type{t, types.NewPointer(derefType(t))} {
				ms := types.NewMethodSet(tt)
				for i := 0; i < ms.Len(); i++ {
					if ms.At(i).Obj().Name() == method {
						return true
					}
				}
			}
			return false
		}
		bad := false
		ast.Inspect(fi.Body, func(nd ast.Node) bool {
			call, ok := nd.(*ast.CallExpr)
			if !ok {
				return true
			}
			fn, _ := typeutil.Callee(info, call).(*types.Func)
			if fn == nil || fn.Pkg() == nil {
				return true
			}
			isCodecCall := fn.Pkg().Path() == "encoding/json" || (inModule(fn.Pkg().Path()) && (fn.Name() == "unmarshalJSONMulti" || fn.Name() == "mergeAndMarshalClaims"))
			if !isCodecCall {
				return true
			}
			for _, a := range call.Args {
				at := info.TypeOf(a)
				if at == nil {
					continue
				}
				if _, isIface := at.Underlying().(*types.Interface); isIface {
					continue
				}
				if hasMethod(at) && (types.Identical(derefType(at), recvT) || hasMethod(at)) {
					bad = true
					c.R.Find(Finding{Rule: "E4.R-recursion", Func: fi.Name, Construct: "codec call with " + typeStr(at), Pos: c.P.Position(a.Pos()),
						Msg: fmt.Sprintf("%s passes a value of type %s, whose method set contains %s, back to the JSON codec: unbounded recursion (stack overflow) on every call", fi.Name, typeStr(at), method), Ctl: fi.Ctl})
				}
			}
			return true
		})
		c.R.Obl(Obligation{Rule: "E4.R-recursion", Func: fi.Name, Construct: "codec arguments are method-free aliases", Pos: c.P.Position(fi.Pos()), Discharged: !bad, Nontrivial: true, Ctl: fi.Ctl})
	}
	if n == 0 {
		c.R.Fail("vacuity", "-", "E4.R-recursion", "no codec methods found")
	}
}

// RunN3: belief contradiction (Engler et al.): a pointer that some code treats as possibly nil - the function itself
// compares it with nil, or hands it to an in-module callee whose body nil-tests that parameter - must not be
// dereferenced in the same function outside a nil guard.
func RunN3(c *Ctx, pkgs []string) {
	in := map[string]bool{}
	for _, p := range pkgs {
		in[p] = true
	}
	type pk struct {
		fn  *types.Func
		idx int
	}
	nilTested := map[pk]bool{}
	for _, fi := range c.P.Funcs {
		if fi.Body == nil || fi.Obj == nil || fi.Sig == nil {
			continue
		}
		info := fi.Pkg.TypesInfo
		for i := 0; i < fi.Sig.Params().Len(); i++ {
			p := fi.Sig.Params().At(i)
			if _, isPtr := p.Type().Underlying().(*types.Pointer); !isPtr {
				continue
			}
			ast.Inspect(fi.Body, func(n ast.Node) bool {
				if be, ok := n.(*ast.BinaryExpr); ok && (be.Op == token.EQL || be.Op == token.NEQ) {
					var other ast.Expr
					if isNilIdent(info, be.Y) {
						other = be.X
					} else if isNilIdent(info, be.X) {
						other = be.Y
					}
					if id, ok := unparen(other).(*ast.Ident); other != nil && ok && info.Uses[id] == p {
						nilTested[pk{fi.Obj, i}] = true
					}
				}
				return true
			})
		}
	}
	n := 0
	for _, fi := range c.P.Funcs {
		if fi.Body == nil || fi.Lit != nil || (!in[shortPkg(fi.Pkg.PkgPath)] && !fi.Ctl) {
			continue
		}
		info := fi.Pkg.TypesInfo
		// candidate variables: pointer-typed params/locals that are nil-tested here or passed to a nil-testing callee
		believedNil := map[types.Object]string{}
		ast.Inspect(fi.Body, func(nd ast.Node) bool {
			switch x := nd.(type) {
			case *ast.BinaryExpr:
				if x.Op == token.EQL || x.Op == token.NEQ {
					var other ast.Expr
					if isNilIdent(info, x.Y) {
						other = x.X
					} else if isNilIdent(info, x.X) {
						other = x.Y
					}
					if id, ok := unparen(other).(*ast.Ident); other != nil && ok {
						if v, ok := info.Uses[id].(*types.Var); ok {
							if _, isPtr := v.Type().Underlying().(*types.Pointer); isPtr {
								if _, have := believedNil[v]; !have {
									believedNil[v] = "compared with nil at " + c.P.Position(x.Pos())
								}
							}
						}
					}
				}
			case *ast.CallExpr:
				fn, _ := typeutil.Callee(info, x).(*types.Func)
				if fn == nil {
					return true
				}
				for i, a := range x.Args {
					if !nilTested[pk{fn.Origin(), i}] {
						continue
					}
					if id, ok := unparen(a).(*ast.Ident); ok {
						if v, ok := info.Uses[id].(*types.Var); ok {
							if _, have := believedNil[v]; !have {
								believedNil[v] = "passed to " + FuncName(fn) + ", which nil-tests that parameter"
							}
						}
					}
				}
			}
			return true
		})
		if len(believedNil) == 0 {
			continue
		}
		pm := buildParents(fi.Body)
		for v, why := range believedNil {
			// freshly allocated locals (x := &T{} / new(T)) compared with nil later are not interesting
			var bad ast.Node
			for _, use := range derefUses(fi, pm, v, token.NoPos, "pointer") {
				if _, isCall := use.(*ast.CallExpr); isCall {
					continue
				}
				if sel, ok := use.(*ast.SelectorExpr); ok {
					// method values on nil-safe receivers are fine: only field selections dereference for sure
					if s, ok := info.Selections[sel]; ok && s.Kind() != types.FieldVal {
						continue
					}
				}
				if !nilGuarded(info, pm, use, v) {
					bad = use
					break
				}
			}
			n++
			c.R.Obl(Obligation{Rule: "E3.N3", Func: fi.Name, Construct: "pointer " + v.Name() + " (" + why[:min(len(why), 40)] + ")", Pos: c.P.Position(v.Pos()), Discharged: bad == nil, Nontrivial: true, Ctl: fi.Ctl})
			if bad != nil {
				c.R.Find(Finding{Rule: "E3.N3", Func: fi.Name, Construct: "unguarded dereference of possibly-nil " + v.Name(), Pos: c.P.Position(bad.Pos()),
					Msg: fmt.Sprintf("%s is treated as possibly nil (%s) but `%s` dereferences it outside any nil guard", v.Name(), why, exprOrNode(bad)), Ctl: fi.Ctl})
			}
		}
	}
	c.R.Extra["belief_candidates"] = n
}

// RunPreconditions (E4.R-precondition): standard-library calls that panic when an argument violates a documented
// precondition (time.NewTicker(d<=0), Builder.Grow(n<0), strings.Repeat(count<0), make with a negative size,
// math/rand.Intn(n<=0), crypto/rand.Int(max<=0)) must be dominated by a check of that argument, or the argument
// must be non-negative / positive by construction; otherwise the site must be in the reviewed table.
func RunPreconditions(c *Ctx, pkgs []string, allowed []allowSite) {
	in := map[string]bool{}
	for _, p := range pkgs {
		in[p] = true
	}
	type pre struct {
		arg      int
		positive bool // strictly > 0 (else >= 0)
	}
	table := map[string]pre{
		"time.NewTicker": {0, true}, "strings.Repeat": {1, false}, "bytes.Repeat": {1, false},
		"mathrand.Intn": {0, true}, "mathrand.Int63n": {0, true}, "mathrand.Int31n": {0, true},
	}
	mtable := map[string]pre{"Grow": {0, false}}
	allow := map[string]string{}
	used := map[string]bool{}
	for _, a := range allowed {
		allow[a.fn+"|"+a.expr] = a.why
	}
	var nonNeg func(t *Term, st *fstate, strict bool) bool
	nonNeg = func(t *Term, st *fstate, strict bool) bool {
		zero := mk("const", "0")
		if st.has(fact("lt", zero, t)) {
			return true
		}
		if !strict && st.has(fact("le", zero, t)) {
			return true
		}
		switch t.K {
		case "var":
			// through a still-valid definition
			for _, fc := range st.facts {
				if fc.S == "def" && len(fc.A) == 2 && fc.A[0].Key() == t.Key() {
					return nonNeg(fc.A[1], st, strict)
				}
			}
		case "const":
			if len(t.S) > 0 && t.S[0] >= '0' && t.S[0] <= '9' {
				return !strict || t.S != "0"
			}
			if cst, ok := t.Obj.(*types.Const); ok {
				if v, exact := constInt(cst); exact {
					return v > 0 || (!strict && v == 0)
				}
			}
		case "call":
			if (t.S == "len" || t.S == "cap") && !strict {
				return true
			}
		case "conv":
			if len(t.A) == 1 {
				return nonNeg(t.A[0], st, strict)
			}
		case "op":
			if len(t.A) == 2 && (t.S == "+" || t.S == "*") {
				if strict {
					return (nonNeg(t.A[0], st, true) && nonNeg(t.A[1], st, false)) || (nonNeg(t.A[0], st, false) && nonNeg(t.A[1], st, true) && t.S == "+")
				}
				return nonNeg(t.A[0], st, false) && nonNeg(t.A[1], st, false)
			}
		}
		return false
	}
	n := 0
	for _, fi := range c.P.Funcs {
		if fi.Body == nil || (!in[shortPkg(fi.Pkg.PkgPath)] && !fi.Ctl) {
			continue
		}
		// cheap pre-filter on the AST
		interesting := false
		ast.Inspect(fi.Body, func(nd ast.Node) bool {
			if call, ok := nd.(*ast.CallExpr); ok {
				switch f := unparen(call.Fun).(type) {
				case *ast.SelectorExpr:
					switch f.Sel.Name {
					case "NewTicker", "Repeat", "Intn", "Int63n", "Int31n", "Grow", "Int":
						interesting = true
					}
				case *ast.Ident:
					if f.Name == "make" && len(call.Args) >= 2 {
						interesting = true
					}
				}
			}
			return !interesting
		})
		if !interesting {
			continue
		}
		f := c.e1().analyse(fi)
		for _, s := range f.sites {
			if s.kind != "call" {
				continue
			}
			var p pre
			var arg *Term
			name := ""
			switch s.term.K {
			case "call":
				if pr, ok := table[s.term.S]; ok && pr.arg < len(s.term.A) {
					p, arg, name = pr, s.term.A[pr.arg], s.term.S
				} else if s.term.S == "make" && len(s.term.A) >= 2 {
					p, arg, name = pre{1, false}, s.term.A[1], "make"
				} else if s.term.S == "rand.Int" && len(s.term.A) == 2 {
					p, arg, name = pre{1, true}, s.term.A[1], "crypto/rand.Int"
				}
			case "mcall":
				if pr, ok := mtable[s.term.S]; ok && len(s.term.A) == 2 {
					if ce, ok := s.node.(*ast.CallExpr); ok {
						if sel, ok := unparen(ce.Fun).(*ast.SelectorExpr); ok {
							ts := typeStr(derefType(fi.Pkg.TypesInfo.TypeOf(sel.X)))
							if ts == "strings.Builder" || ts == "bytes.Buffer" {
								p, arg, name = pr, s.term.A[1], ts+".Grow"
							}
						}
					}
				}
			}
			if arg == nil {
				continue
			}
			n++
			okAll := true
			for _, st := range s.states {
				if !nonNeg(arg, st, p.positive) {
					okAll = false
				}
			}
			// reviewed exceptions are keyed by function, callee and the parameters the argument may depend on
			// ("derives only from the provider's configuration"): restructuring the computation keeps the key
			why := ""
			if !okAll {
				if ce, ok := s.node.(*ast.CallExpr); ok {
					ai := p.arg
					if name == "make" || name == "crypto/rand.Int" {
						ai = 1
					}
					// the function that textually holds the call (a helper interpreted in place, or fi itself); a helper the
					// validated tree does not have counts for the functions it is called from
					holder := fi
					if s.chain != "" {
						for _, hf := range c.P.Funcs {
							if hf.Body != nil && hf.Lit == nil && hf.Body.Pos() <= ce.Pos() && ce.End() <= hf.Body.End() {
								holder = hf
							}
						}
					}
					owners := append(c.attributed(holder), holder.Root().Name)
					if ai < len(ce.Args) {
						deps := paramDeps(holder, ce.Args[ai])
						for k, w := range allow {
							parts := strings.SplitN(k, "|", 3)
							if len(parts) != 3 || !contains(owners, parts[0]) || parts[1] != name {
								continue
							}
							allowedDeps := map[string]bool{}
							for _, d := range strings.Split(parts[2], ",") {
								allowedDeps[d] = true
							}
							sub := len(deps) > 0
							for _, d := range deps {
								if !allowedDeps[d] {
									sub = false
								}
							}
							if sub {
								okAll, why = true, w
								used[k] = true
							}
						}
					}
				}
			}
			need := ">= 0"
			if p.positive {
				need = "> 0"
			}
			c.R.Obl(Obligation{Rule: "E4.R-precondition", Func: fi.Name, Construct: name + " argument " + arg.String() + " " + need, Pos: c.P.Position(s.pos), Discharged: okAll, Nontrivial: true, How: []string{why}, Ctl: fi.Ctl})
			if !okAll {
				c.R.Find(Finding{Rule: "E4.R-precondition", Func: fi.Name, Construct: name + "(" + arg.String() + ") without a dominating check", Pos: c.P.Position(s.pos),
					Msg: fmt.Sprintf("%s panics unless its argument is %s; `%s` is not checked on every path to this call and is not non-negative by construction", name, need, arg), Ctl: fi.Ctl})
			}
		}
	}
	c.R.Extra["precondition_sites"] = n
	for k := range allow {
		if !used[k] {
			// the site is gone or is now guarded: nothing to excuse (noted, not an alarm)
			c.R.Extra["precondition_allow_unused:"+k] = true
		}
	}
}

// isInstantiation: the index expression instantiates a generic function or type (not a run-time index).
func isInstantiation(info *types.Info, e ast.Expr) bool {
	ix, ok := e.(*ast.IndexExpr)
	if !ok {
		return false
	}
	if tv, has := info.Types[ix.X]; has {
		if tv.IsType() {
			return true
		}
		if sig, isSig := tv.Type.(*types.Signature); isSig && sig.TypeParams().Len() > 0 {
			return true
		}
	}
	switch x := unparen(ix.X).(type) {
	case *ast.Ident:
		_, has := info.Instances[x]
		return has
	case *ast.SelectorExpr:
		_, has := info.Instances[x.Sel]
		return has
	}
	return false
}

func isMapIndex(info *types.Info, e ast.Expr) bool {
	ix, ok := e.(*ast.IndexExpr)
	if !ok {
		return false
	}
	if tv, has := info.Types[ix.X]; has && tv.Type != nil {
		_, isMap := tv.Type.Underlying().(*types.Map)
		return isMap
	}
	return false
}

// rangeIndexInBounds is a structural in-bounds proof for the one idiom the compiler's prove pass loses under generic
// stenciling and inlining: a[i] inside `for i := range b` where i is not written in the loop, and a is b itself (not
// written in the loop) or a local defined exactly once as make(T, len(b)[, cap]) with b never written after its definition.
func rangeIndexInBounds(fi *FuncInfo, e ast.Expr) bool {
	ix, ok := e.(*ast.IndexExpr)
	if !ok {
		return false
	}
	info := fi.Pkg.TypesInfo
	varOf := func(x ast.Expr) *types.Var {
		id, ok := unparen(x).(*ast.Ident)
		if !ok {
			return nil
		}
		v, _ := info.Uses[id].(*types.Var)
		return v
	}
	va, vi := varOf(ix.X), varOf(ix.Index)
	if va == nil && vi != nil {
		// x.f[i] inside `for i := range x.f` with x a local variable: in bounds when the loop body neither assigns i, x or
		// any field path of x, nor takes the address of x (the range expression is evaluated once)
		return rangeIndexOverFieldPath(fi, ix, vi)
	}
	if va == nil || vi == nil {
		return false
	}
	if _, isSlice := va.Type().Underlying().(*types.Slice); !isSlice {
		return false
	}
	// the enclosing range statement that defines i
	var loop *ast.RangeStmt
	ast.Inspect(fi.Body, func(n ast.Node) bool {
		rs, ok := n.(*ast.RangeStmt)
		if !ok || rs.Tok != token.DEFINE || rs.Key == nil {
			return true
		}
		if k, isID := rs.Key.(*ast.Ident); isID && info.Defs[k] == vi && rs.Body.Pos() <= ix.Pos() && ix.End() <= rs.Body.End() {
			loop = rs
		}
		return true
	})
	if loop == nil {
		return false
	}
	vb := varOf(loop.X)
	if vb == nil {
		return false
	}
	switch vb.Type().Underlying().(type) {
	case *types.Slice, *types.Array:
	default:
		return false
	}
	writes := func(v *types.Var, within ast.Node) int {
		n := 0
		is := func(x ast.Expr) bool {
			id, ok := unparen(x).(*ast.Ident)
			return ok && (info.Uses[id] == v || info.Defs[id] == v)
		}
		ast.Inspect(within, func(nd ast.Node) bool {
			switch x := nd.(type) {
			case *ast.AssignStmt:
				for _, l := range x.Lhs {
					if is(l) {
						n++
					}
				}
			case *ast.ValueSpec:
				for _, id := range x.Names {
					if info.Defs[id] == v {
						n++
					}
				}
			case *ast.IncDecStmt:
				if is(x.X) {
					n++
				}
			case *ast.UnaryExpr:
				if x.Op == token.AND && is(x.X) {
					n += 2
				}
			case *ast.RangeStmt:
				if x != loop && ((x.Key != nil && is(x.Key)) || (x.Value != nil && is(x.Value))) {
					n++
				}
			case *ast.FuncLit:
				// a closure that writes the variable may run at any time
				inner := 0
				ast.Inspect(x.Body, func(m ast.Node) bool {
					if as, ok := m.(*ast.AssignStmt); ok {
						for _, l := range as.Lhs {
							if is(l) {
								inner++
							}
						}
					}
					return true
				})
				if inner > 0 {
					n += 2
				}
			}
			return true
		})
		return n
	}
	if writes(vi, loop.Body) != 0 {
		return false
	}
	if va == vb {
		return writes(va, loop.Body) == 0
	}
	isParam := func(v *types.Var) bool {
		sig := fi.Sig
		if sig == nil {
			return false
		}
		for i := 0; i < sig.Params().Len(); i++ {
			if sig.Params().At(i) == v {
				return true
			}
		}
		return false
	}
	wb := writes(vb, fi.Body)
	if (isParam(vb) && wb != 0) || (!isParam(vb) && wb != 1) {
		return false
	}
	if writes(va, fi.Body) != 1 {
		return false
	}
	// the single definition of a: make(T, len(b)[, cap]) positioned after b's definition and before the loop
	found := false
	ast.Inspect(fi.Body, func(nd ast.Node) bool {
		as, ok := nd.(*ast.AssignStmt)
		if !ok || len(as.Lhs) != 1 || len(as.Rhs) != 1 || as.End() > loop.Pos() {
			return true
		}
		id, isID := as.Lhs[0].(*ast.Ident)
		if !isID || (info.Defs[id] != va && info.Uses[id] != va) {
			return true
		}
		call, isCall := unparen(as.Rhs[0]).(*ast.CallExpr)
		if !isCall || len(call.Args) < 2 {
			return true
		}
		if f, isF := unparen(call.Fun).(*ast.Ident); !isF || f.Name != "make" || info.Uses[f] != types.Universe.Lookup("make") {
			return true
		}
		ln, isLen := unparen(call.Args[1]).(*ast.CallExpr)
		if !isLen || len(ln.Args) != 1 {
			return true
		}
		if f, isF := unparen(ln.Fun).(*ast.Ident); !isF || f.Name != "len" || info.Uses[f] != types.Universe.Lookup("len") {
			return true
		}
		if varOf(ln.Args[0]) == vb && vb.Pos() < as.Pos() {
			found = true
		}
		return true
	})
	return found
}

// boundsByCallers: an index or slice expression inside a helper that the validated tree does not have is justified by
// its callers: the helper is interpreted in place in every function it is attributed to (E1, e1_inline.go), and at the
// expression, on every path, the length guard must be established: c <= len(x) for x[:c] / x[c:], c < len(x) for x[c].
func boundsByCallers(c *Ctx, holder *FuncInfo, site ast.Expr) (string, bool) {
	root := holder.Root()
	// the function's own analysis first: a guard established by a helper that is interpreted in place (or by the function
	// itself in a spelling the compiler's prove pass does not follow) justifies the expression on every path
	if found, ok := boundsHoldIn(c, root, site); found > 0 && ok {
		return "the length guard holds at the expression on every path of " + root.Name + " (E1 facts, helpers interpreted in place)", true
	}
	if root.Obj == nil || c.helpers()[root.Obj] == nil || c.helpers()[root.Obj].escapes {
		return "", false
	}
	callers := c.attributed(root)
	if len(callers) == 0 || (len(callers) == 1 && callers[0] == root.Name) {
		return "", false
	}
	for _, cn := range callers {
		g := c.P.Fn(cn)
		if g == nil || g.Body == nil {
			return "", false
		}
		found, ok := boundsHoldIn(c, g, site)
		if !ok || found == 0 {
			return "", false
		}
	}
	return "the expression sits in a helper interpreted in place in " + strings.Join(callers, ", ") + "; the length guard holds there on every path (E1)", true
}

// boundsHoldIn: in the E1 analysis of g (helpers interpreted in place), every occurrence of the index / slice expression
// `site` is reached only in states that carry its length guard.
func boundsHoldIn(c *Ctx, g *FuncInfo, site ast.Expr) (int, bool) {
	e := c.e1()
	if !e.wantIndex {
		e.wantIndex = true
		e.addRelevant("le($c, len($x))", "lt($c, len($x))")
		e.cache = map[*FuncInfo]*e1func{}
		e.inferred, e.inferring = nil, nil
	}
	if g == nil || g.Body == nil {
		return 0, false
	}
	f := e.analyse(g)
	found := 0
	for _, s := range f.sites {
		if s.kind != "index" || s.node != ast.Node(site) {
			continue
		}
		found++
		var clauses []Clause
		b := Bind{}
		t := s.term
		isConst := func(x *Term) bool { _, ok := constValueOf(x); return ok }
		switch {
		case t.K == "slice" && len(t.A) == 4 && t.A[3].S == "" && t.A[3].K == "const":
			lo, hi := t.A[1], t.A[2]
			loEmpty, hiEmpty := lo.K == "const" && lo.S == "", hi.K == "const" && hi.S == ""
			b["x"] = t.A[0]
			switch {
			case !loEmpty && hiEmpty && isConst(lo):
				b["c"] = lo
			case loEmpty && !hiEmpty && isConst(hi):
				b["c"] = hi
			default:
				return found, false
			}
			clauses = append(clauses, mustClause("le($c, len($x))"))
		case t.K == "index" && len(t.A) == 2 && isConst(t.A[1]):
			b["x"], b["c"] = t.A[0], t.A[1]
			clauses = append(clauses, mustClause("lt($c, len($x))"))
		default:
			return found, false
		}
		for _, st := range s.states {
			if r := solve(st, clauses, b.clone()); !r.ok {
				return found, false
			}
		}
	}
	return found, true
}

func rangeIndexOverFieldPath(fi *FuncInfo, ix *ast.IndexExpr, vi *types.Var) bool {
	info := fi.Pkg.TypesInfo
	sel, ok := unparen(ix.X).(*ast.SelectorExpr)
	if !ok {
		return false
	}
	root := rootIdent(sel)
	if root == nil {
		return false
	}
	rv, _ := info.Uses[root].(*types.Var)
	if rv == nil || rv.IsField() || rv.Parent() == nil || rv.Parent() == rv.Pkg().Scope() {
		return false // not a local
	}
	if _, isPtr := rv.Type().Underlying().(*types.Pointer); isPtr {
		return false // the storage may be shared
	}
	if t := info.TypeOf(sel); t == nil {
		return false
	} else if _, isSlice := t.Underlying().(*types.Slice); !isSlice {
		return false
	}
	path := types.ExprString(sel)
	var loop *ast.RangeStmt
	ast.Inspect(fi.Body, func(n ast.Node) bool {
		rs, ok := n.(*ast.RangeStmt)
		if !ok || rs.Tok != token.DEFINE || rs.Key == nil || rs.Value != nil {
			return true
		}
		if k, isID := rs.Key.(*ast.Ident); isID && info.Defs[k] == vi && rs.Body.Pos() <= ix.Pos() && ix.End() <= rs.Body.End() && types.ExprString(unparen(rs.X)) == path {
			loop = rs
		}
		return true
	})
	if loop == nil {
		return false
	}
	bad := false
	touches := func(x ast.Expr) bool {
		x = unparen(x)
		if id, ok := x.(*ast.Ident); ok {
			return info.Uses[id] == vi || info.Defs[id] == vi || info.Uses[id] == rv
		}
		if r := rootIdent(x); r != nil && info.Uses[r] == rv {
			return true
		}
		return false
	}
	ast.Inspect(loop.Body, func(nd ast.Node) bool {
		switch x := nd.(type) {
		case *ast.AssignStmt:
			for _, l := range x.Lhs {
				if touches(l) {
					bad = true
				}
			}
		case *ast.IncDecStmt:
			if touches(x.X) {
				bad = true
			}
		case *ast.UnaryExpr:
			if x.Op == token.AND && touches(x.X) {
				bad = true
			}
		case *ast.FuncLit:
			bad = true
		}
		return !bad
	})
	return !bad
}
