package main

import (
	"go/token"
	"fmt"
	"go/ast"
	"go/types"
	"sort"
	"strings"

	"golang.org/x/tools/go/types/typeutil"
)

// Route-target rule (C19 "what is advertised is served"): the handler value registered for an endpoint must lead - through
// function literals, handler factories, method values and wrappers of the module, resolved by go/types, never by text - to the
// entry function of *that* endpoint and to the entry function of no other endpoint.  The spelling of the handler expression
// (factory call, literal, method value, wrapper) is irrelevant.

type routeRow struct {
	Key    string   // endpoint getter (Provider router) or Endpoints field (Server router); "discovery" for the constant path
	Target []string // FuncName / interface-method names; reaching any one of them suffices
}

// extReached, when non-nil, additionally collects the out-of-module functions referenced during funcsReached.
var extReached map[string]bool

// extTouchesRequest: out-of-module functions seen so far whose signature mentions a net/http or net/url type (only those
// can wrap a handler or rewrite a request / URL; pure helpers such as slices.Backward cannot).
var extTouchesRequest = map[string]bool{}

// funcsReached collects the in-module functions referenced from e, following bodies of in-module functions that are not
// themselves targets, up to the given depth.
func funcsReached(c *Ctx, info *types.Info, e ast.Node, depth int, stop map[string]bool, out map[string]bool, seen map[*types.Func]bool) {
	ast.Inspect(e, func(n ast.Node) bool {
		var id *ast.Ident
		switch x := n.(type) {
		case *ast.Ident:
			id = x
		case *ast.SelectorExpr:
			id = x.Sel
		default:
			return true
		}
		fn, ok := info.Uses[id].(*types.Func)
		if !ok || fn.Pkg() == nil {
			return true
		}
		if !inModule(fn.Pkg().Path()) {
			if extReached != nil {
				nm := calleeName(fn)
				extReached[nm] = true
				if sig, ok := fn.Type().(*types.Signature); ok {
					touches := func(tp types.Type) bool {
						ts := tp.String()
						return strings.Contains(ts, "net/http.") || strings.Contains(ts, "net/url.")
					}
					hit := sig.Recv() != nil && touches(sig.Recv().Type())
					for i := 0; i < sig.Params().Len(); i++ {
						hit = hit || touches(sig.Params().At(i).Type())
					}
					for i := 0; i < sig.Results().Len(); i++ {
						hit = hit || touches(sig.Results().At(i).Type())
					}
					if hit {
						extTouchesRequest[nm] = true
					}
				}
			}
			return true
		}
		fn = fn.Origin()
		name := FuncName(fn)
		out[name] = true
		if stop[name] || seen[fn] || depth == 0 {
			return true
		}
		seen[fn] = true
		if fi := c.P.FuncByNm[name]; fi != nil && fi.Body != nil && fi.Pkg != nil {
			funcsReached(c, fi.Pkg.TypesInfo, fi.Body, depth-1, stop, out, seen)
		}
		return true
	})
}

// RunRouteTargets checks one router-construction function.  pathKey extracts the row key from the route-registering call
// (nil if the call is not a route of the table).
func RunRouteTargets(c *Ctx, rule, fn string, rows []routeRow, pathKey func(info *types.Info, call *ast.CallExpr) (key string, handler ast.Expr)) {
	fi := c.P.Fn(fn)
	if fi == nil || fi.Body == nil {
		c.R.Fail("anchor-unresolved", fn, rule, "router construction function not found")
		return
	}
	info := fi.Pkg.TypesInfo
	stop := map[string]bool{}
	for _, r := range rows {
		for _, t := range r.Target {
			stop[t] = true
		}
	}
	found := map[string][]*ast.CallExpr{}
	handlers := map[*ast.CallExpr]ast.Expr{}
	ast.Inspect(fi.Body, func(n ast.Node) bool {
		call, ok := n.(*ast.CallExpr)
		if !ok {
			return true
		}
		if k, h := pathKey(info, call); k != "" {
			found[k] = append(found[k], call)
			handlers[call] = h
		}
		return true
	})
	for _, r := range rows {
		calls := found[r.Key]
		construct := "route " + r.Key
		if len(calls) != 1 {
			c.R.Obl(Obligation{Rule: rule, Func: fn, Construct: construct, Pos: c.P.Position(fi.Pos()), Discharged: false, Nontrivial: true})
			c.R.Find(Finding{Rule: rule, Func: fn, Construct: construct, Pos: c.P.Position(fi.Pos()),
				Msg: fmt.Sprintf("%s must register exactly one route for %s (the discovery document advertises it); found %d", fn, r.Key, len(calls))})
			continue
		}
		out := map[string]bool{}
		funcsReached(c, info, handlers[calls[0]], 4, stop, out, map[*types.Func]bool{})
		hit := false
		for _, t := range r.Target {
			if out[t] {
				hit = true
			}
		}
		var foreign []string
		for _, o := range rows {
			if o.Key == r.Key {
				continue
			}
			for _, t := range o.Target {
				if out[t] && !contains(r.Target, t) {
					foreign = append(foreign, t)
				}
			}
		}
		sort.Strings(foreign)
		good := hit && len(foreign) == 0
		c.R.Obl(Obligation{Rule: rule, Func: fn, Construct: construct, Pos: c.P.Position(calls[0].Pos()), Discharged: good, Nontrivial: true,
			How: []string{"handler leads to " + strings.Join(r.Target, " | ")}})
		if !good {
			msg := fmt.Sprintf("the handler registered for %s does not lead to %s", r.Key, strings.Join(r.Target, " | "))
			if len(foreign) > 0 {
				msg = fmt.Sprintf("the handler registered for %s leads to the entry of another endpoint: %s", r.Key, strings.Join(foreign, ", "))
			}
			c.R.Find(Finding{Rule: rule, Func: fn, Construct: construct, Pos: c.P.Position(calls[0].Pos()), Msg: msg + " (the endpoint advertised in the discovery document must be served by its own handler)"})
		}
	}
}

// providerRouteKey: $router.HandleFunc($o.<Getter>().Relative(), h) or HandleFunc(oidc.DiscoveryEndpoint, h).
func providerRouteKey(info *types.Info, call *ast.CallExpr) (string, ast.Expr) {
	fn, _ := typeutil.Callee(info, call).(*types.Func)
	if fn == nil || fn.Name() != "HandleFunc" || len(call.Args) != 2 {
		return "", nil
	}
	p := unparen(call.Args[0])
	if sel, ok := p.(*ast.SelectorExpr); ok {
		if obj, ok := info.Uses[sel.Sel].(*types.Const); ok && obj.Name() == "DiscoveryEndpoint" {
			return "discovery", call.Args[1]
		}
	}
	rel, ok := p.(*ast.CallExpr)
	if !ok {
		return "", nil
	}
	rs, ok := unparen(rel.Fun).(*ast.SelectorExpr)
	if !ok || rs.Sel.Name != "Relative" {
		return "", nil
	}
	g, ok := unparen(rs.X).(*ast.CallExpr)
	if !ok {
		return "", nil
	}
	gs, ok := unparen(g.Fun).(*ast.SelectorExpr)
	if !ok {
		return "", nil
	}
	if m, ok := info.Uses[gs.Sel].(*types.Func); ok && strings.HasSuffix(m.Name(), "Endpoint") {
		return m.Name(), call.Args[1]
	}
	return "", nil
}

// serverRouteKey: $s.endpointRoute($s.endpoints.<Field>, h) or $s.router.HandleFunc(oidc.DiscoveryEndpoint, h).
func serverRouteKey(info *types.Info, call *ast.CallExpr) (string, ast.Expr) {
	fn, _ := typeutil.Callee(info, call).(*types.Func)
	if fn == nil || len(call.Args) != 2 {
		return "", nil
	}
	p := unparen(call.Args[0])
	sel, ok := p.(*ast.SelectorExpr)
	if !ok {
		return "", nil
	}
	if fn.Name() == "HandleFunc" {
		if obj, ok := info.Uses[sel.Sel].(*types.Const); ok && obj.Name() == "DiscoveryEndpoint" {
			return "discovery", call.Args[1]
		}
		return "", nil
	}
	if v, ok := info.Uses[sel.Sel].(*types.Var); ok && v.IsField() {
		if pt, ok := v.Type().(*types.Pointer); ok {
			if nt, ok := pt.Elem().(*types.Named); ok && nt.Obj().Name() == "Endpoint" {
				// the callee must route its first parameter (checked by E1.routes.server.nil-not-routed on endpointRoute)
				return v.Name(), call.Args[1]
			}
		}
	}
	return "", nil
}

// RunRouterMiddleware (C19 "every advertised endpoint is served at the advertised path"): middleware installed on the OP's
// routers by the library itself runs before routing and may rewrite the request path (chi's CleanPath, StripSlashes,
// RedirectSlashes, URLFormat, http.StripPrefix ...), so that a route registered under Endpoint.Relative() is no longer
// reachable under the advertised URL.  Every argument of a `Use` call on a chi router in pkg/op must therefore be
//   - the CORS handler (rs/cors: never touches the URL),
//   - middleware supplied by the application (a parameter of the enclosing option/constructor), or
//   - in-module middleware whose code (followed through in-module callees) never assigns URL / Path / RawPath / RequestURI.
// Anything else is out-of-module code this rule cannot look into: reported for review.
func RunRouterMiddleware(c *Ctx, rule string, pkgs []string) {
	n := 0
	for _, fi := range c.P.Funcs {
		if fi.Body == nil || fi.Lit != nil || fi.Ctl || !contains(pkgs, shortPkg(fi.Pkg.PkgPath)) {
			continue
		}
		info := fi.Pkg.TypesInfo
		ast.Inspect(fi.Body, func(nd ast.Node) bool {
			call, ok := nd.(*ast.CallExpr)
			if !ok {
				return true
			}
			fn, _ := typeutil.Callee(info, call).(*types.Func)
			if fn == nil || fn.Name() != "Use" || fn.Pkg() == nil || !strings.Contains(fn.Pkg().Path(), "go-chi/chi") {
				return true
			}
			for _, a := range call.Args {
				n++
				why, bad := classifyMiddleware(c, info, a)
				construct := "middleware " + mwExpr(a)
				c.R.Obl(Obligation{Rule: rule, Func: fi.Name, Construct: construct, Pos: c.P.Position(a.Pos()), Discharged: bad == "", Nontrivial: true, How: []string{why}})
				if bad != "" {
					c.R.Find(Finding{Rule: rule, Func: fi.Name, Construct: construct, Pos: c.P.Position(a.Pos()),
						Msg: fmt.Sprintf("%s installs `%s` on the provider's router: %s; middleware runs before routing, and a rewritten request path makes endpoints registered under Endpoint.Relative() unreachable at the URL the discovery document advertises", fi.Name, types.ExprString(a), bad)})
				}
			}
			return true
		})
	}
	if n == 0 {
		c.R.Fail("vacuity", "-", rule, "no router.Use call found in "+strings.Join(pkgs, ",")+": re-point the rule")
	}
}

func mwExpr(e ast.Expr) string {
	s := types.ExprString(e)
	if len(s) > 60 {
		s = s[:60]
	}
	return s
}

func classifyMiddleware(c *Ctx, info *types.Info, a ast.Expr) (why, bad string) {
	a = unparen(a)
	// application-supplied: a parameter (possibly variadic, possibly of the enclosing declaration)
	if id, ok := a.(*ast.Ident); ok {
		if v, ok := info.Uses[id].(*types.Var); ok && !v.IsField() {
			if isParamVar(c, v) {
				return "application-supplied middleware (parameter " + v.Name() + ")", ""
			}
			return "", "the value of local variable " + v.Name() + " is not traced by this rule"
		}
	}
	// method value / call of an out-of-module or in-module function
	var fns []*types.Func
	ast.Inspect(a, func(n ast.Node) bool {
		var id *ast.Ident
		switch x := n.(type) {
		case *ast.Ident:
			id = x
		case *ast.SelectorExpr:
			id = x.Sel
		default:
			return true
		}
		if fn, ok := info.Uses[id].(*types.Func); ok {
			fns = append(fns, fn)
		}
		return true
	})
	if len(fns) == 0 {
		return "", "its origin is not a function this rule can resolve"
	}
	for _, fn := range fns {
		if fn.Pkg() == nil {
			continue
		}
		p := fn.Pkg().Path()
		switch {
		case strings.HasPrefix(p, "github.com/rs/cors"):
			why = "rs/cors handler (does not touch the URL)"
		case strings.HasSuffix(p, "go-chi/chi/v5/middleware") && chiHarmless[fn.Name()]:
			why = "chi middleware reviewed as not touching the request path: " + fn.Name()
		case inModule(p):
			out := map[string]bool{}
			extReached = map[string]bool{}
			funcsReached(c, info, a, 3, map[string]bool{}, out, map[*types.Func]bool{})
			ext := extReached
			extReached = nil
			for _, en := range sortedKeysB(ext) {
				if !middlewareExtAllow[en] && extTouchesRequest[en] {
					return "", "in-module middleware reaches " + en + ", whose signature handles http / url values and which is not on the reviewed list of library calls a middleware of the provider may make (a call that rewrites the request - its path, query or form - before the handler parses it changes what the handler sees)"
				}
			}
			names := make([]string, 0, len(out))
			for nme := range out {
				names = append(names, nme)
			}
			sort.Strings(names)
			for _, nme := range names {
				if cf := c.P.FuncByNm[nme]; cf != nil && cf.Body != nil {
					if w := urlWrite(cf); w != "" {
						return "", "in-module middleware " + nme + " assigns " + w
					}
				}
			}
			why = "in-module middleware without URL writes: " + strings.Join(names, ", ")
		default:
			return "", "out-of-module middleware " + p + "." + fn.Name() + " is not on the reviewed list (the CORS handler and chi's logging/recovery/limit middlewares are)"
		}
	}
	return why, ""
}

// library functions the provider's own middleware (intercept / IssuerInterceptor) uses today, reviewed: none of them
// rewrites the request URL, query or form.
var middlewareExtAllow = map[string]bool{
	"(*net/http.Request).Context": true, "(*net/http.Request).WithContext": true, "(net/http.Handler).ServeHTTP": true, "net/http.Handler.ServeHTTP": true,
	"net/http.HandlerFunc": true, "(net/http.HandlerFunc).ServeHTTP": true, "context.WithValue": true,
}

func sortedKeysB(m map[string]bool) []string {
	ks := make([]string, 0, len(m))
	for k := range m {
		ks = append(ks, k)
	}
	sort.Strings(ks)
	return ks
}

// chi middlewares read in the module cache (v5) and found neither to rewrite r.URL nor to answer for a path themselves.
var chiHarmless = map[string]bool{"Logger": true, "RequestLogger": true, "Recoverer": true, "RequestID": true, "RealIP": true, "NoCache": true,
	"Compress": true, "Timeout": true, "Throttle": true, "ThrottleBacklog": true, "SetHeader": true, "RequestSize": true, "WithValue": true}

func isParamVar(c *Ctx, v *types.Var) bool {
	for _, fi := range c.P.Funcs {
		if fi.Sig == nil {
			continue
		}
		for i := 0; i < fi.Sig.Params().Len(); i++ {
			if fi.Sig.Params().At(i) == v {
				return true
			}
		}
	}
	return false
}

// urlWrite: first assignment in fi (literals included) whose target is a request URL component.
func urlWrite(fi *FuncInfo) string {
	found := ""
	ast.Inspect(fi.Body, func(n ast.Node) bool {
		as, ok := n.(*ast.AssignStmt)
		if !ok || found != "" {
			return found == ""
		}
		for _, l := range as.Lhs {
			if sel, ok := unparen(l).(*ast.SelectorExpr); ok {
				switch sel.Sel.Name {
				case "Path", "RawPath", "RequestURI", "URL", "RawQuery", "Form", "PostForm":
					found = types.ExprString(l)
				}
			}
		}
		return true
	})
	return found
}

// RunExternalMethodAllow: every use (call or method value) of a method of the out-of-module type pkgSuffix.typ inside the
// in-scope packages must be one of the reviewed methods; allowed[name] lists the functions that may use it (nil = anywhere).
// Used for configuration objects whose further knobs change the meaning of decoded / encoded request values.
func RunExternalMethodAllow(c *Ctx, rule, pkgSuffix, typ string, allowed map[string][]string, why string) {
	n := 0
	for _, fi := range c.P.Funcs {
		if fi.Body == nil || fi.Lit != nil || fi.Ctl {
			continue
		}
		info := fi.Pkg.TypesInfo
		ast.Inspect(fi.Body, func(nd ast.Node) bool {
			sel, ok := nd.(*ast.SelectorExpr)
			if !ok {
				return true
			}
			fn, ok := info.Uses[sel.Sel].(*types.Func)
			if !ok || fn.Pkg() == nil || !strings.HasSuffix(fn.Pkg().Path(), pkgSuffix) {
				return true
			}
			sig, _ := fn.Type().(*types.Signature)
			if sig == nil || sig.Recv() == nil {
				return true
			}
			nt := namedOf(sig.Recv().Type())
			if nt == nil || nt.Obj().Name() != typ {
				return true
			}
			n++
			who, listed := allowed[fn.Name()]
			good := listed && (who == nil || allIn(c.attributed(fi), who))
			construct := typ + "." + fn.Name()
			c.R.Obl(Obligation{Rule: rule, Func: fi.Name, Construct: construct, Pos: c.P.Position(sel.Pos()), Discharged: good, Nontrivial: true})
			if !good {
				c.R.Find(Finding{Rule: rule, Func: fi.Name, Construct: construct, Pos: c.P.Position(sel.Pos()),
					Msg: fmt.Sprintf("%s uses %s.%s.%s, which is not among the reviewed uses of that type: %s", fi.Name, pkgSuffix, typ, fn.Name(), why)})
			}
			return true
		})
	}
	if n == 0 {
		c.R.Fail("vacuity", "-", rule, "no use of "+pkgSuffix+"."+typ+" found: re-point the rule")
	}
}

func allIn(xs, set []string) bool {
	if len(xs) == 0 {
		return false
	}
	for _, x := range xs {
		if !contains(set, x) {
			return false
		}
	}
	return true
}

// RunIssuerCoverage (C08/C05/C19): handlers read the issuer of the request from the context (IssuerFromContext); it is put
// there by the IssuerInterceptor middleware.  Every endpoint route of op.CreateRouter (except the listed ones that never
// read the issuer) must therefore be registered on a router on which the library installed middleware leading to the
// IssuerInterceptor - on that router value itself, before the route, or on the router whose Group/Route/With callback the
// route is registered in.  RegisterLegacyServer must hand such middleware to RegisterServer.
func RunIssuerCoverage(c *Ctx, rule string, exempt []string) {
	reachesIssuer := func(info *types.Info, e ast.Expr) bool {
		out := map[string]bool{}
		funcsReached(c, info, e, 4, map[string]bool{}, out, map[*types.Func]bool{})
		return out["op.NewIssuerInterceptor"] || out["op.(*IssuerInterceptor).Handler"] || out["op.(*IssuerInterceptor).HandlerFunc"]
	}
	fi := c.P.Fn("op.CreateRouter")
	if fi == nil || fi.Body == nil {
		c.R.Fail("anchor-unresolved", "op.CreateRouter", rule, "router construction function not found")
		return
	}
	info := fi.Pkg.TypesInfo
	type useSite struct {
		obj types.Object
		pos token.Pos
	}
	var uses []useSite
	// literal -> router object whose Group/Route/With call receives it
	litOwner := map[*ast.FuncLit]types.Object{}
	ast.Inspect(fi.Body, func(n ast.Node) bool {
		call, ok := n.(*ast.CallExpr)
		if !ok {
			return true
		}
		sel, ok := unparen(call.Fun).(*ast.SelectorExpr)
		if !ok {
			return true
		}
		id, ok := unparen(sel.X).(*ast.Ident)
		if !ok {
			return true
		}
		obj := info.Uses[id]
		switch sel.Sel.Name {
		case "Use":
			for _, a := range call.Args {
				if reachesIssuer(info, a) {
					uses = append(uses, useSite{obj, call.Pos()})
				}
			}
		case "Group", "Route", "With":
			for _, a := range call.Args {
				if lit, ok := unparen(a).(*ast.FuncLit); ok {
					litOwner[lit] = obj
				}
			}
		}
		return true
	})
	var covered func(obj types.Object, pos token.Pos, depth int) bool
	covered = func(obj types.Object, pos token.Pos, depth int) bool {
		if obj == nil || depth > 4 {
			return false
		}
		for _, u := range uses {
			if u.obj == obj && u.pos < pos {
				return true
			}
		}
		// obj is the router parameter of a Group/Route callback: inherit from the owning router at the point of the call
		for lit, owner := range litOwner {
			if lit.Type.Params != nil {
				for _, f := range lit.Type.Params.List {
					for _, nm := range f.Names {
						if info.Defs[nm] == obj {
							return covered(owner, lit.Pos(), depth+1)
						}
					}
				}
			}
		}
		return false
	}
	n := 0
	ast.Inspect(fi.Body, func(nd ast.Node) bool {
		call, ok := nd.(*ast.CallExpr)
		if !ok {
			return true
		}
		key, _ := providerRouteKey(info, call)
		if key == "" || contains(exempt, key) {
			return true
		}
		n++
		var obj types.Object
		if sel, ok := unparen(call.Fun).(*ast.SelectorExpr); ok {
			if id, ok := unparen(sel.X).(*ast.Ident); ok {
				obj = info.Uses[id]
			}
		}
		good := covered(obj, call.Pos(), 0)
		construct := "issuer for route " + key
		c.R.Obl(Obligation{Rule: rule, Func: fi.Name, Construct: construct, Pos: c.P.Position(call.Pos()), Discharged: good, Nontrivial: true, How: []string{"IssuerInterceptor installed on the route's router"}})
		if !good {
			c.R.Find(Finding{Rule: rule, Func: fi.Name, Construct: construct, Pos: c.P.Position(call.Pos()),
				Msg: fmt.Sprintf("the route for %s is registered on a router without the IssuerInterceptor: its handler runs with an empty issuer in the context, so token verification against the issuer (revocation, introspection, userinfo, assertions) and issuer-bound responses silently fail", key)})
		}
		return true
	})
	if n == 0 {
		c.R.Fail("vacuity", "-", rule, "no endpoint route found in op.CreateRouter: re-point the rule")
	}
	// Server router: the legacy adapter hands the interceptor to RegisterServer
	if ls := c.P.Fn("op.RegisterLegacyServer"); ls == nil || ls.Body == nil {
		c.R.Fail("anchor-unresolved", "op.RegisterLegacyServer", rule, "function not found")
	} else {
		linfo := ls.Pkg.TypesInfo
		good := false
		var pos token.Pos = ls.Pos()
		ast.Inspect(ls.Body, func(nd ast.Node) bool {
			call, ok := nd.(*ast.CallExpr)
			if !ok {
				return true
			}
			if fn, _ := typeutil.Callee(linfo, call).(*types.Func); fn != nil && FuncName(fn) == "op.RegisterServer" {
				pos = call.Pos()
				for _, a := range call.Args {
					if reachesIssuer(linfo, a) {
						good = true
					}
					// options collected in a local slice: follow one definition
					if id, ok := unparen(a).(*ast.Ident); ok {
						ast.Inspect(ls.Body, func(m ast.Node) bool {
							if as, ok := m.(*ast.AssignStmt); ok {
								for i, l := range as.Lhs {
									if lid, ok := unparen(l).(*ast.Ident); ok && i < len(as.Rhs) && (linfo.Defs[lid] == linfo.Uses[id] || linfo.Uses[lid] == linfo.Uses[id]) && reachesIssuer(linfo, as.Rhs[i]) {
										good = true
									}
								}
							}
							return true
						})
					}
				}
			}
			return true
		})
		c.R.Obl(Obligation{Rule: rule, Func: ls.Name, Construct: "issuer middleware handed to RegisterServer", Pos: c.P.Position(pos), Discharged: good, Nontrivial: true})
		if !good {
			c.R.Find(Finding{Rule: rule, Func: ls.Name, Construct: "issuer middleware handed to RegisterServer", Pos: c.P.Position(pos),
				Msg: "op.RegisterLegacyServer no longer hands middleware leading to the IssuerInterceptor to op.RegisterServer: every LegacyServer handler would run with an empty issuer in the context"})
		}
	}
}

// RunFieldSources: every value written to pkg.typ.field (assignment through a selector or a keyed field of a composite
// literal of that type) is either a parameter of the enclosing declaration (a value the application supplies through an
// option / constructor argument) or - possibly through one local variable - a composite literal &wantLit{...}.
// Used for defaults that must not silently become something else (a verifier key set defaulted to another key set).
func RunFieldSources(c *Ctx, rule, pkg, typ, field, wantLit, why string) {
	n := 0
	for _, fi := range c.P.Funcs {
		if fi.Body == nil || fi.Ctl || fi.Lit != nil {
			continue
		}
		if shortPkg(fi.Pkg.PkgPath) != pkg {
			continue
		}
		info := fi.Pkg.TypesInfo
		isTyp := func(t types.Type) bool {
			nt, _ := derefType(t).(*types.Named)
			return nt != nil && nt.Obj().Name() == typ && nt.Obj().Pkg() != nil && shortPkg(nt.Obj().Pkg().Path()) == pkg
		}
		var classify func(e ast.Expr, depth int) string
		classify = func(e ast.Expr, depth int) string {
			e = unparen(e)
			if u, ok := e.(*ast.UnaryExpr); ok && u.Op == token.AND {
				if cl, ok := unparen(u.X).(*ast.CompositeLit); ok {
					if nt, _ := derefType(info.TypeOf(cl)).(*types.Named); nt != nil && nt.Obj().Name() == wantLit {
						return "literal &" + wantLit
					}
				}
			}
			if id, ok := e.(*ast.Ident); ok {
				v, _ := info.Uses[id].(*types.Var)
				if v == nil {
					return ""
				}
				if isParamVar(c, v) {
					return "parameter " + v.Name()
				}
				if depth > 0 {
					// single local definition
					var rhs ast.Expr
					cnt := 0
					ast.Inspect(fi.Body, func(m ast.Node) bool {
						if as, ok := m.(*ast.AssignStmt); ok && len(as.Lhs) == len(as.Rhs) {
							for i, l := range as.Lhs {
								if lid, ok := unparen(l).(*ast.Ident); ok && (info.Defs[lid] == v || info.Uses[lid] == v) {
									rhs = as.Rhs[i]
									cnt++
								}
							}
						}
						return true
					})
					if cnt == 1 {
						return classify(rhs, depth-1)
					}
				}
			}
			return ""
		}
		report := func(pos token.Pos, rhs ast.Expr) {
			n++
			how := classify(rhs, 2)
			construct := "value of " + typ + "." + field
			for _, name := range c.attributed(fi) {
				c.R.Obl(Obligation{Rule: rule, Func: name, Construct: construct, Pos: c.P.Position(pos), Discharged: how != "", Nontrivial: true, How: []string{how}})
				if how == "" {
					c.R.Find(Finding{Rule: rule, Func: name, Construct: construct + " from " + types.ExprString(rhs), Pos: c.P.Position(pos),
						Msg: fmt.Sprintf("%s.%s.%s is set to `%s`, which is neither a value supplied by the application (a parameter) nor a fresh &%s{...}: %s", pkg, typ, field, types.ExprString(rhs), wantLit, why)})
				}
			}
		}
		ast.Inspect(fi.Body, func(nd ast.Node) bool {
			switch s := nd.(type) {
			case *ast.AssignStmt:
				if len(s.Lhs) != len(s.Rhs) {
					return true
				}
				for i, l := range s.Lhs {
					sel, ok := unparen(l).(*ast.SelectorExpr)
					if !ok || sel.Sel.Name != field {
						continue
					}
					if sl, has := info.Selections[sel]; has && sl.Kind() == types.FieldVal && isTyp(sl.Recv()) {
						report(sel.Pos(), s.Rhs[i])
					}
				}
			case *ast.CompositeLit:
				if t := info.TypeOf(s); t != nil && isTyp(t) {
					for _, el := range s.Elts {
						if kv, ok := el.(*ast.KeyValueExpr); ok {
							if k, ok := kv.Key.(*ast.Ident); ok && k.Name == field {
								report(kv.Pos(), kv.Value)
							}
						}
					}
				}
			}
			return true
		})
	}
	if n == 0 {
		c.R.Fail("vacuity", "-", rule, "no write to "+pkg+"."+typ+"."+field+" found: re-point the rule")
	}
}

// RunFieldSetOnlyIn: pkg.typ.field is set (selector assignment or keyed field of a composite literal) only inside the
// listed functions (helpers introduced later count for their callers).
func RunFieldSetOnlyIn(c *Ctx, rule, pkg, typ, field string, allowed []string, why string) {
	n := 0
	for _, fi := range c.P.Funcs {
		if fi.Body == nil || fi.Ctl || fi.Lit != nil {
			continue
		}
		info := fi.Pkg.TypesInfo
		isTyp := func(t types.Type) bool {
			nt, _ := derefType(t).(*types.Named)
			return nt != nil && nt.Obj().Name() == typ && nt.Obj().Pkg() != nil && shortPkg(nt.Obj().Pkg().Path()) == pkg
		}
		report := func(pos token.Pos, what string) {
			n++
			// the innermost literal decides attribution (an option literal is attributed to its declaration)
			for _, name := range c.attributed(fi) {
				good := contains(allowed, name)
				c.R.Obl(Obligation{Rule: rule, Func: name, Construct: what + " " + typ + "." + field, Pos: c.P.Position(pos), Discharged: good, Nontrivial: true})
				if !good {
					c.R.Find(Finding{Rule: rule, Func: name, Construct: what + " " + typ + "." + field, Pos: c.P.Position(pos),
						Msg: fmt.Sprintf("%s.%s.%s is set in %s, outside the reviewed places (%s): %s", pkg, typ, field, name, strings.Join(allowed, ", "), why)})
				}
			}
		}
		ast.Inspect(fi.Body, func(nd ast.Node) bool {
			switch s := nd.(type) {
			case *ast.AssignStmt:
				for _, l := range s.Lhs {
					sel, ok := unparen(l).(*ast.SelectorExpr)
					if !ok || sel.Sel.Name != field {
						continue
					}
					if sl, has := info.Selections[sel]; has && sl.Kind() == types.FieldVal && isTyp(sl.Recv()) {
						report(sel.Pos(), "assignment to")
					}
				}
			case *ast.CompositeLit:
				if t := info.TypeOf(s); t != nil && isTyp(t) {
					for _, el := range s.Elts {
						if kv, ok := el.(*ast.KeyValueExpr); ok {
							if k, ok := kv.Key.(*ast.Ident); ok && k.Name == field {
								report(kv.Pos(), "literal sets")
							}
						}
					}
				}
			}
			return true
		})
	}
	if n == 0 {
		c.R.Fail("vacuity", "-", rule, "no place sets "+pkg+"."+typ+"."+field+": re-point the rule")
	}
}

// RunTypeWriteDiscipline: inside the listed packages, the only fields of pkgT.typ that are ever set (selector assignment,
// keyed or positional composite literal) are those in allowed, and only in the functions listed for them.  Everything
// else the value carries comes from elsewhere (here: from the Storage).  Used for "an inactive introspection answer
// discloses nothing but active:false": the library itself fills in no field of the response except Active.
func RunTypeWriteDiscipline(c *Ctx, rule, pkgT, typ string, pkgs []string, allowed map[string][]string, why string) {
	n := 0
	for _, fi := range c.P.Funcs {
		if fi.Body == nil || fi.Ctl || fi.Lit != nil || !contains(pkgs, shortPkg(fi.Pkg.PkgPath)) {
			continue
		}
		info := fi.Pkg.TypesInfo
		isTyp := func(t types.Type) bool {
			nt, _ := derefType(t).(*types.Named)
			return nt != nil && nt.Obj().Name() == typ && nt.Obj().Pkg() != nil && shortPkg(nt.Obj().Pkg().Path()) == pkgT
		}
		report := func(pos token.Pos, field string) {
			n++
			for _, name := range c.attributed(fi) {
				who, listed := allowed[field]
				good := listed && (who == nil || contains(who, name))
				c.R.Obl(Obligation{Rule: rule, Func: name, Construct: "write to " + typ + "." + field, Pos: c.P.Position(pos), Discharged: good, Nontrivial: true})
				if !good {
					c.R.Find(Finding{Rule: rule, Func: name, Construct: "write to " + typ + "." + field, Pos: c.P.Position(pos),
						Msg: fmt.Sprintf("%s sets %s.%s.%s: %s", name, pkgT, typ, field, why)})
				}
			}
		}
		ast.Inspect(fi.Body, func(nd ast.Node) bool {
			switch s := nd.(type) {
			case *ast.AssignStmt:
				for _, l := range s.Lhs {
					// x.F = v, x.F.G = v, x.F[i] = v: the first selector on a value of the type decides the field
					e := unparen(l)
					for {
						switch x := e.(type) {
						case *ast.IndexExpr:
							e = unparen(x.X)
							continue
						case *ast.StarExpr:
							e = unparen(x.X)
							continue
						case *ast.SelectorExpr:
							if sl, has := info.Selections[x]; has && sl.Kind() == types.FieldVal && isTyp(sl.Recv()) {
								report(x.Pos(), x.Sel.Name)
								e = nil
							} else {
								e = unparen(x.X)
								continue
							}
						default:
							e = nil
						}
						break
					}
				}
			case *ast.CompositeLit:
				if t := info.TypeOf(s); t != nil && isTyp(t) {
					for _, el := range s.Elts {
						if kv, ok := el.(*ast.KeyValueExpr); ok {
							if k, ok := kv.Key.(*ast.Ident); ok {
								report(kv.Pos(), k.Name)
							}
						} else {
							report(el.Pos(), "(positional)")
						}
					}
				}
			}
			return true
		})
	}
	if n == 0 {
		c.R.Fail("vacuity", "-", rule, "no write to a field of "+pkgT+"."+typ+" found in "+strings.Join(pkgs, ",")+": re-point the rule")
	}
}
