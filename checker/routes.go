package main

import (
	"fmt"
	"go/ast"
	"go/types"
	"sort"
	"strings"

	"golang.org/x/tools/go/types/typeutil"
)

// Route-target rule (C19 "what is advertised is served"): the handler value registered for an endpoint must lead - through
// function literals, handler factories, method values and wrappers of the module, resolved by go/types, never by text - to the
// entry function of *that* endpoint and to the entry function of no other endpoint.  The spelling of the handler expression
// (factory call, literal, method value, wrapper) is irrelevant.

type routeRow struct {
	Key    string   // endpoint getter (Provider router) or Endpoints field (Server router); "discovery" for the constant path
	Target []string // FuncName / interface-method names; reaching any one of them suffices
}

// funcsReached collects the in-module functions referenced from e, following bodies of in-module functions that are not
// themselves targets, up to the given depth.
func funcsReached(c *Ctx, info *types.Info, e ast.Node, depth int, stop map[string]bool, out map[string]bool, seen map[*types.Func]bool) {
	ast.Inspect(e, func(n ast.Node) bool {
		var id *ast.Ident
		switch x := n.(type) {
		case *ast.Ident:
			id = x
		case *ast.SelectorExpr:
			id = x.Sel
		default:
			return true
		}
		fn, ok := info.Uses[id].(*types.Func)
		if !ok || fn.Pkg() == nil || !inModule(fn.Pkg().Path()) {
			return true
		}
		fn = fn.Origin()
		name := FuncName(fn)
		out[name] = true
		if stop[name] || seen[fn] || depth == 0 {
			return true
		}
		seen[fn] = true
		if fi := c.P.FuncByNm[name]; fi != nil && fi.Body != nil && fi.Pkg != nil {
			funcsReached(c, fi.Pkg.TypesInfo, fi.Body, depth-1, stop, out, seen)
		}
		return true
	})
}

// RunRouteTargets checks one router-construction function.  pathKey extracts the row key from the route-registering call
// (nil if the call is not a route of the table).
func RunRouteTargets(c *Ctx, rule, fn string, rows []routeRow, pathKey func(info *types.Info, call *ast.CallExpr) (key string, handler ast.Expr)) {
	fi := c.P.Fn(fn)
	if fi == nil || fi.Body == nil {
		c.R.Fail("anchor-unresolved", fn, rule, "router construction function not found")
		return
	}
	info := fi.Pkg.TypesInfo
	stop := map[string]bool{}
	for _, r := range rows {
		for _, t := range r.Target {
			stop[t] = true
		}
	}
	found := map[string][]*ast.CallExpr{}
	handlers := map[*ast.CallExpr]ast.Expr{}
	ast.Inspect(fi.Body, func(n ast.Node) bool {
		call, ok := n.(*ast.CallExpr)
		if !ok {
			return true
		}
		if k, h := pathKey(info, call); k != "" {
			found[k] = append(found[k], call)
			handlers[call] = h
		}
		return true
	})
	for _, r := range rows {
		calls := found[r.Key]
		construct := "route " + r.Key
		if len(calls) != 1 {
			c.R.Obl(Obligation{Rule: rule, Func: fn, Construct: construct, Pos: c.P.Position(fi.Pos()), Discharged: false, Nontrivial: true})
			c.R.Find(Finding{Rule: rule, Func: fn, Construct: construct, Pos: c.P.Position(fi.Pos()),
				Msg: fmt.Sprintf("%s must register exactly one route for %s (the discovery document advertises it); found %d", fn, r.Key, len(calls))})
			continue
		}
		out := map[string]bool{}
		funcsReached(c, info, handlers[calls[0]], 4, stop, out, map[*types.Func]bool{})
		hit := false
		for _, t := range r.Target {
			if out[t] {
				hit = true
			}
		}
		var foreign []string
		for _, o := range rows {
			if o.Key == r.Key {
				continue
			}
			for _, t := range o.Target {
				if out[t] && !contains(r.Target, t) {
					foreign = append(foreign, t)
				}
			}
		}
		sort.Strings(foreign)
		good := hit && len(foreign) == 0
		c.R.Obl(Obligation{Rule: rule, Func: fn, Construct: construct, Pos: c.P.Position(calls[0].Pos()), Discharged: good, Nontrivial: true,
			How: []string{"handler leads to " + strings.Join(r.Target, " | ")}})
		if !good {
			msg := fmt.Sprintf("the handler registered for %s does not lead to %s", r.Key, strings.Join(r.Target, " | "))
			if len(foreign) > 0 {
				msg = fmt.Sprintf("the handler registered for %s leads to the entry of another endpoint: %s", r.Key, strings.Join(foreign, ", "))
			}
			c.R.Find(Finding{Rule: rule, Func: fn, Construct: construct, Pos: c.P.Position(calls[0].Pos()), Msg: msg + " (the endpoint advertised in the discovery document must be served by its own handler)"})
		}
	}
}

// providerRouteKey: $router.HandleFunc($o.<Getter>().Relative(), h) or HandleFunc(oidc.DiscoveryEndpoint, h).
func providerRouteKey(info *types.Info, call *ast.CallExpr) (string, ast.Expr) {
	fn, _ := typeutil.Callee(info, call).(*types.Func)
	if fn == nil || fn.Name() != "HandleFunc" || len(call.Args) != 2 {
		return "", nil
	}
	p := unparen(call.Args[0])
	if sel, ok := p.(*ast.SelectorExpr); ok {
		if obj, ok := info.Uses[sel.Sel].(*types.Const); ok && obj.Name() == "DiscoveryEndpoint" {
			return "discovery", call.Args[1]
		}
	}
	rel, ok := p.(*ast.CallExpr)
	if !ok {
		return "", nil
	}
	rs, ok := unparen(rel.Fun).(*ast.SelectorExpr)
	if !ok || rs.Sel.Name != "Relative" {
		return "", nil
	}
	g, ok := unparen(rs.X).(*ast.CallExpr)
	if !ok {
		return "", nil
	}
	gs, ok := unparen(g.Fun).(*ast.SelectorExpr)
	if !ok {
		return "", nil
	}
	if m, ok := info.Uses[gs.Sel].(*types.Func); ok && strings.HasSuffix(m.Name(), "Endpoint") {
		return m.Name(), call.Args[1]
	}
	return "", nil
}

// serverRouteKey: $s.endpointRoute($s.endpoints.<Field>, h) or $s.router.HandleFunc(oidc.DiscoveryEndpoint, h).
func serverRouteKey(info *types.Info, call *ast.CallExpr) (string, ast.Expr) {
	fn, _ := typeutil.Callee(info, call).(*types.Func)
	if fn == nil || len(call.Args) != 2 {
		return "", nil
	}
	p := unparen(call.Args[0])
	sel, ok := p.(*ast.SelectorExpr)
	if !ok {
		return "", nil
	}
	if fn.Name() == "HandleFunc" {
		if obj, ok := info.Uses[sel.Sel].(*types.Const); ok && obj.Name() == "DiscoveryEndpoint" {
			return "discovery", call.Args[1]
		}
		return "", nil
	}
	if v, ok := info.Uses[sel.Sel].(*types.Var); ok && v.IsField() {
		if pt, ok := v.Type().(*types.Pointer); ok {
			if nt, ok := pt.Elem().(*types.Named); ok && nt.Obj().Name() == "Endpoint" {
				// the callee must route its first parameter (checked by E1.routes.server.nil-not-routed on endpointRoute)
				return v.Name(), call.Args[1]
			}
		}
	}
	return "", nil
}
