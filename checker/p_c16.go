package main

import "fmt"

// C16 — device grant: tokens only after user approval and only to the initiating client (DESIGN §5 C16).

var deviceAuthBinding = []string{
	"def($dc, op.NewDeviceCode(op.RecommendedDeviceCodeBytes), 0)", "def($uc, op.NewUserCode(conv(_, $cfg.UserCode.CharSet), $cfg.UserCode.CharAmount, $cfg.UserCode.DashInterval), 0)", "ok(op.NewUserCode(__))",
	"ok(_.StoreDeviceAuthorization(_, $clientID, $dc, $uc, $expires, $req.Scopes))", "def($expires, time.Now().Add($cfg.Lifetime))",
	"def($cfg, $o.DeviceAuthorization())",
}

func init() {
	// positive(t): t is a constant > 0, a product / sum of positive terms, defined as such, or known to exceed 0 on this path
	var positive func(st *fstate, t *Term, depth int) bool
	positive = func(st *fstate, t *Term, depth int) bool {
		t = stripConv(t)
		if v, ok := constValueOf(t); ok {
			var n float64
			if _, err := fmt.Sscan(v, &n); err == nil {
				return n > 0
			}
			return false
		}
		zero := mk("const", "0")
		if st.has(fact("lt", zero, t)) {
			return true
		}
		if t.K == "op" && len(t.A) == 2 && (t.S == "*" || t.S == "+") {
			return positive(st, t.A[0], depth+1) && positive(st, t.A[1], depth+1)
		}
		if depth > 4 {
			return false
		}
		for _, fc := range st.facts {
			if fc.S == "def" && len(fc.A) == 2 && fc.A[0].Key() == t.Key() && positive(st, fc.A[1], depth+1) {
				return true
			}
		}
		return false
	}
	customPreds["positive"] = func(st *fstate, a []*Term) bool { return len(a) == 1 && positive(st, a[0], 0) }
	const get = "$st.GetDeviceAuthorizatonState(_, $clientID, $deviceCode)"
	P := []string{"ctx", "clientID", "deviceCode", "exchanger"}
	obs := []Ob{
		// the state predicate with duals, in control-flow order denied -> done -> expired -> pending
		{ID: "E1.device.state.accept", Fn: "op.CheckDeviceAuthorizationState", P: P, Kind: "ret ok",
			Why: "tokens only for a device code of this client that the user approved and did not deny",
			Req: []string{"def($r0, " + get + ", 0)", "ok(" + get + ")", "false($r0.Denied)", "true($r0.Done)"}},
		{ID: "E1.device.state.slow-down", Fn: "op.CheckDeviceAuthorizationState", P: P, Kind: "ret fail", When: []string{"errOrig($r1, oidc.ErrSlowDown)"},
			Req: []string{"errIs(" + get + ", context.DeadlineExceeded)"}},
		{ID: "E1.device.state.denied", Fn: "op.CheckDeviceAuthorizationState", P: P, Kind: "ret fail", When: []string{"errOrig($r1, oidc.ErrAccessDenied)"},
			Why: "access_denied: the storage failed (other than by deadline), or the user denied",
			Req: []string{"(fail(" + get + ") && notErrIs(" + get + ", context.DeadlineExceeded)) || (ok(" + get + ") && def($s, " + get + ", 0) && true($s.Denied))"}},
		{ID: "E1.device.state.expired", Fn: "op.CheckDeviceAuthorizationState", P: P, Kind: "ret fail", When: []string{"errOrig($r1, oidc.ErrExpiredDeviceCode)"},
			Req: []string{"ok(" + get + ")", "def($s, " + get + ", 0)", "false($s.Denied)", "false($s.Done)", "true($s.Expires.Before(time.Now()))"}},
		{ID: "E1.device.state.pending", Fn: "op.CheckDeviceAuthorizationState", P: P, Kind: "ret fail", When: []string{"errOrig($r1, oidc.ErrAuthorizationPending)"},
			Req: []string{"ok(" + get + ")", "def($s, " + get + ", 0)", "false($s.Denied)", "false($s.Done)", "false($s.Expires.Before(time.Now()))"}},
		{ID: "E1.device.state.only", Fn: "op.CheckDeviceAuthorizationState", P: P, Kind: "ret fail",
			Why: "no other error leaves the state predicate",
			Req: []string{"errOrig($r1, oidc.ErrSlowDown) || errOrig($r1, oidc.ErrAccessDenied) || errOrig($r1, oidc.ErrExpiredDeviceCode) || errOrig($r1, oidc.ErrAuthorizationPending) || fail(op.assertDeviceStorage(__))"}},
		// token sinks, both routers
		// the poll deadline: a non-positive timeout expires the context before the storage is asked, so every poll
		// (pending, approved, denied, unknown code) would be answered with slow_down
		{ID: "E1.device.poll-timeout-positive.provider", Fn: "op.deviceAccessToken", Kind: "call", Pat: "context.WithTimeout(_, $d)", Min: 1, Max: 1,
			Why: "the state predicate must get a live context: the timeout is a positive constant or provably > 0",
			Req: []string{"positive($d)"}},
		{ID: "E1.device.poll-timeout-positive.legacy-server", Fn: "op.(*LegacyServer).DeviceToken", Kind: "call", Pat: "context.WithTimeout(_, $d)", Min: 1, Max: 1,
			Why: "sibling of deviceAccessToken",
			Req: []string{"positive($d)"}},
		{ID: "E8.device.config-getter-identity", Fn: "op.(*Provider).DeviceAuthorization", P: []string{"o"}, Kind: "ret any", Pat: "ret($o.config.DeviceAuthorization)", Min: 1, Max: 1, Only: true,
			Why: "user-code alphabet and format, lifetime and poll interval are the configured ones: the getter returns the stored configuration as it is (0 dashes, 0 interval are legal settings, not 'unset')"},
		{ID: "E1.device.token.provider", Fn: "op.deviceAccessToken", Kind: "call", Pat: "op.CreateDeviceTokenResponse(_, $tr, _, $client)", Max: 1,
			Why: "tokens go to the client that polls with its own id; confidential clients must have authenticated",
			Req: []string{
				"def($clientID, op.ClientIDFromRequest($r, _), 0)", "def($authd, op.ClientIDFromRequest($r, _), 1)", "ok(op.ClientIDFromRequest($r, _))",
				"def($tr, op.CheckDeviceAuthorizationState(_, $clientID, $req.DeviceCode, _), 0)", "ok(op.CheckDeviceAuthorizationState(_, $clientID, $req.DeviceCode, _))",
				"def($client, _.GetClientByClientID(_, $clientID), 0)", "ok(_.GetClientByClientID(_, $clientID))",
				"eq($authd, op.IsConfidentialType($client))",
			}},
		{ID: "E1.device.token.legacy-server", Fn: "op.(*LegacyServer).DeviceToken", P: []string{"s", "ctx", "r"}, Kind: "call", Pat: "op.CreateDeviceTokenResponse(_, $tr, _, $r.Client)", Max: 1,
			Req: []string{"true($s.provider.GrantTypeDeviceCodeSupported())", "def($tr, op.CheckDeviceAuthorizationState(_, $r.Client.GetID(), $r.Data.DeviceCode, _), 0)", "ok(op.CheckDeviceAuthorizationState(_, $r.Client.GetID(), $r.Data.DeviceCode, _))"}},
		{ID: "E1.device.token.server-handler", Fn: "op.(*webServer).deviceTokenHandler", P: []string{"s", "w", "r", "client"}, Kind: "call", Pat: "$s.server.DeviceToken(_, op.newClientRequest($r, $request, $client))", Max: 1,
			Req: []string{`neq($request.DeviceCode, "")`}},
		// device authorization response: the stored codes are the returned codes
		{ID: "E8.device.auth.binding.store", AltOf: "E8.device.auth.binding", Fn: "op.createDeviceAuthorization", P: []string{"ctx", "req", "clientID", "o"}, Kind: "store", Max: 1,
			Pat: "store($resp, &DeviceAuthorizationResponse{DeviceCode: $dc, UserCode: $uc, VerificationURI: $v.String(), ExpiresIn: conv(int, $cfg.Lifetime / time.Second), Interval: conv(int, $cfg.PollInterval / time.Second)})",
			Req: deviceAuthBinding},
		// the same binding when the response is built in the return statement
		{ID: "E8.device.auth.binding.ret", AltOf: "E8.device.auth.binding", Fn: "op.createDeviceAuthorization", P: []string{"ctx", "req", "clientID", "o"}, Kind: "ret ok", Max: 1,
			Pat: "ret(&DeviceAuthorizationResponse{DeviceCode: $dc, UserCode: $uc, VerificationURI: $v.String(), VerificationURIComplete: $v.String(), ExpiresIn: conv(int, $cfg.Lifetime / time.Second), Interval: conv(int, $cfg.PollInterval / time.Second)}, nil)",
			Req: append([]string{`eq($v.RawQuery, "user_code=" + $uc)`}, deviceAuthBinding...)},
		{ID: "E8.device.auth.returned.var", AltOf: "E8.device.auth.returned", Fn: "op.createDeviceAuthorization", P: []string{"ctx", "req", "clientID", "o"}, Kind: "ret ok", Pat: "ret($resp, nil)", Not: "ret(&DeviceAuthorizationResponse{}, nil)", Max: 1,
			Req: []string{"ok(_.StoreDeviceAuthorization(_, $clientID, _, _, _, $req.Scopes))", "eq($resp.VerificationURIComplete, _) || eq($resp, &DeviceAuthorizationResponse{VerificationURIComplete: _})"}},
		{ID: "E8.device.auth.returned.lit", AltOf: "E8.device.auth.returned", Fn: "op.createDeviceAuthorization", P: []string{"ctx", "req", "clientID", "o"}, Kind: "ret ok", Pat: "ret(&DeviceAuthorizationResponse{VerificationURIComplete: _}, nil)", Max: 1,
			Req: []string{"ok(_.StoreDeviceAuthorization(_, $clientID, _, _, _, $req.Scopes))"}},
		{ID: "E8.device.auth.response-built-once", Fn: "op.createDeviceAuthorization", Kind: "store", Pat: "store(_, &DeviceAuthorizationResponse{})", Max: 1, Opt: true},
		{ID: "E8.device.auth.complete-uri", Fn: "op.createDeviceAuthorization", Kind: "store", Pat: `store($v.RawQuery, "user_code=" + $uc)`, Max: 1,
			Req: []string{"def($uc, op.NewUserCode(__), 0)"}},
		{ID: "E8.device.auth.verification-on-issuer", Fn: "op.createDeviceAuthorization", Kind: "store", Pat: "store($v.Path, $cfg.UserFormPath)", Max: 1,
			Req: []string{"def($v, url.Parse(op.IssuerFromContext(_)), 0)", "ok(url.Parse(op.IssuerFromContext(_)))", `eq($cfg.UserFormURL, "")`}},
		{ID: "E7.device.code.csprng", Fn: "op.NewDeviceCode", P: []string{"nBytes"}, Kind: "call", Pat: "rand.Read($bytes)", Max: 1, Req: []string{"def($bytes, make(_, $nBytes))"}},
		{ID: "E8.device.code.encoding", Fn: "op.NewDeviceCode", P: []string{"nBytes"}, Kind: "ret any", Pat: "ret(base64.RawURLEncoding.EncodeToString($bytes), nil)", Max: 1, Only: true, Req: []string{"def($bytes, make(_, $nBytes))"}},
		{ID: "E7.device.usercode.csprng", Fn: "op.NewUserCode", P: []string{"charSet", "charAmount", "dashInterval"}, Kind: "call", Pat: "rand.Int(rand.Reader, $max)", Max: 1,
			Req: []string{"def($max, big.NewInt(conv(int64, len($charSet))))"}},
	}
	register(&PropSpec{
		ID: "C16",
		Explanation: "Decides, for all paths: CheckDeviceAuthorizationState returns success only for a state fetched for the given client id and device code with Denied false and Done true, and each error return carries exactly its condition in the order denied -> done -> expired -> pending (DeadlineExceeded -> slow_down, other storage errors -> access_denied before any field of the state is read); both token sinks are dominated by that check with the polling client's own id (Provider: confidential clients must have authenticated); device authorization stores and returns the same device/user code values, drawn from crypto/rand (import identity; math/rand is forbidden in pkg/op), builds the verification URI from the request's issuer and the complete URI from that user code, and ExpiresIn/Interval from the configuration; RecommendedDeviceCodeBytes >= 16. Does not decide histories of approve/deny/expire nor entropy.",
		RuleText:    "obligation = (rule, function, sink site); import/constant table rows; non-trivial when guard facts were needed",
		Assumptions: []string{"Storage.GetDeviceAuthorizatonState returns the state of that client's device code only"},
		Trusted:     []string{"go/types, go/cfg (x/tools v0.50.0)", "crypto/rand", "Storage implementation"},
		Level:       "Sound static check (all paths, both routers) of the state predicate with duals, the domination of token sinks by it with the caller's client id, and the value bindings of the device authorization response.",
		Note:        "Trusted: go/types+go/cfg, crypto/rand, Storage contract. Temporal behaviour over approve/deny/expire histories is the storage's.",
		Technique:   "static analysis: must-facts dataflow over go/cfg (predicate duals, guard-before-sink), value-binding patterns, import identity, constant / guard reasoning for the poll timeout",
		Rules:       []string{"E1"},
		Run: func(c *Ctx) {
			RunE1(c, "C16", append(append([]Ob{}, obs...), sharedObs["C16"]...))
			RunForbiddenImport(c, "E7.device.no-math-rand", []string{"op"}, []string{"math/rand", "math/rand/v2"})
			RunConstAtLeast(c, "E7.device.code-bytes", "op", "RecommendedDeviceCodeBytes", 16)
			RunCallers(c, "E1.device-state-table", "op.CheckDeviceAuthorizationState", []string{"op.deviceAccessToken", "op.(*LegacyServer).DeviceToken"}, "device token sinks")
		},
	})
}
