package main

// E6 — ownership, immutability and locksets (C20, C13): AST + go/types, field-based and flow-insensitive.

import (
	"fmt"
	"go/ast"
	"go/token"
	"go/types"
	"sort"
	"strings"

	"golang.org/x/tools/go/types/typeutil"
)

func namedOf(t types.Type) *types.Named {
	n, _ := derefType(t).(*types.Named)
	return n
}

func typeKey(n *types.Named) string {
	if n == nil || n.Obj().Pkg() == nil {
		return ""
	}
	return shortPkg(n.Obj().Pkg().Path()) + "." + n.Obj().Name()
}

func pointerLikeT(t types.Type) bool {
	switch t.Underlying().(type) {
	case *types.Pointer, *types.Map, *types.Slice:
		return true
	}
	return false
}

// lhsChain decomposes an assignment target into its base expression and whether the store goes through
// a dereference (selector on pointer, index, star): x.f = v on a pointer x writes shared memory.
func lhsBase(e ast.Expr) (ast.Expr, []ast.Expr) {
	var chain []ast.Expr
	for {
		e = unparen(e)
		switch x := e.(type) {
		case *ast.SelectorExpr:
			chain = append(chain, x)
			e = x.X
		case *ast.IndexExpr:
			chain = append(chain, x)
			e = x.X
		case *ast.StarExpr:
			chain = append(chain, x)
			e = x.X
		default:
			return e, chain
		}
	}
}

type storeSite struct {
	fi   *FuncInfo
	lhs  ast.Expr
	node ast.Node
}

func allStores(c *Ctx, pkgs map[string]bool) []storeSite {
	var out []storeSite
	for _, fi := range c.P.Funcs {
		if fi.Body == nil || (!pkgs[shortPkg(fi.Pkg.PkgPath)] && !fi.Ctl) {
			continue
		}
		ast.Inspect(fi.Body, func(n ast.Node) bool {
			if lit, ok := n.(*ast.FuncLit); ok && lit != fi.Lit {
				return false
			}
			switch s := n.(type) {
			case *ast.AssignStmt:
				for _, l := range s.Lhs {
					if id, ok := unparen(l).(*ast.Ident); ok && (id.Name == "_" || s.Tok == token.DEFINE) {
						_ = id
						if s.Tok == token.DEFINE {
							continue
						}
					}
					out = append(out, storeSite{fi, l, s})
				}
			case *ast.IncDecStmt:
				out = append(out, storeSite{fi, s.X, s})
			}
			return true
		})
	}
	return out
}

// ---- R-global ---------------------------------------------------------------------------------

type globalTaint struct {
	c        *Ctx
	vars     map[types.Object]string // tainted local variables / parameters -> origin global
	fields   map[string]string       // "pkg.Type.field" -> origin
	results  map[*types.Func]string  // functions returning a tainted value
	globals  map[types.Object]bool
	byObj    map[*types.Func]*FuncInfo
	changed  bool
}

func (g *globalTaint) fieldKey(sel *ast.SelectorExpr, info *types.Info) string {
	s, ok := info.Selections[sel]
	if !ok || s.Kind() != types.FieldVal {
		return ""
	}
	n := namedOf(s.Recv())
	if n == nil {
		return ""
	}
	return typeKey(n) + "." + sel.Sel.Name
}

// origin: the package-level variable an expression may alias ("" if none). Only pointer-like values alias.
func (g *globalTaint) origin(info *types.Info, e ast.Expr) string {
	e = unparen(e)
	t := info.TypeOf(e)
	switch x := e.(type) {
	case *ast.Ident:
		o := info.Uses[x]
		if o == nil {
			o = info.Defs[x]
		}
		if g.globals[o] && t != nil && pointerLikeT(t) {
			return objQual(o)
		}
		if org, ok := g.vars[o]; ok {
			return org
		}
	case *ast.UnaryExpr:
		if x.Op == token.AND {
			// &G or &G.f
			base, _ := lhsBase(x.X)
			if id, ok := base.(*ast.Ident); ok {
				if o := info.Uses[id]; g.globals[o] {
					return objQual(o)
				}
			}
			return g.origin(info, x.X)
		}
	case *ast.SelectorExpr:
		if fk := g.fieldKey(x, info); fk != "" {
			if org, ok := g.fields[fk]; ok && t != nil && pointerLikeT(t) {
				return org
			}
		}
		// a pointer-like field read out of a global struct value, or through a tainted pointer
		if t != nil && pointerLikeT(t) {
			base, _ := lhsBase(x)
			if id, ok := base.(*ast.Ident); ok {
				if o := info.Uses[id]; g.globals[o] {
					return objQual(o)
				}
			}
			if org := g.origin(info, x.X); org != "" {
				return org
			}
		}
		if o, ok := info.Uses[x.Sel].(*types.Var); ok && g.globals[o] && t != nil && pointerLikeT(t) {
			return objQual(o) // pkg.Global
		}
	case *ast.StarExpr:
		// **p: the pointer stored where p points still aliases; *p of a struct pointer is a (shallow) copy, handled below
		if t != nil && pointerLikeT(t) {
			return g.origin(info, x.X)
		}
		return ""
	case *ast.CallExpr:
		if fn, _ := typeutil.Callee(info, x).(*types.Func); fn != nil {
			if org, ok := g.results[fn.Origin()]; ok {
				return org
			}
		}
	case *ast.IndexExpr:
		if t != nil && pointerLikeT(t) {
			return g.origin(info, x.X)
		}
	}
	return ""
}

func (g *globalTaint) setVar(o types.Object, org string) {
	if o == nil || org == "" {
		return
	}
	if _, ok := g.vars[o]; !ok {
		g.vars[o] = org
		g.changed = true
	}
}

func RunGlobalWrites(c *Ctx, pkgs []string) {
	in := map[string]bool{}
	for _, p := range pkgs {
		in[p] = true
	}
	g := &globalTaint{c: c, vars: map[types.Object]string{}, fields: map[string]string{}, results: map[*types.Func]string{}, globals: map[types.Object]bool{}, byObj: map[*types.Func]*FuncInfo{}}
	nGlobals := 0
	for _, pk := range c.P.Scope {
		if !in[shortPkg(pk.PkgPath)] && pk.PkgPath != ctlPkgPath {
			continue
		}
		sc := pk.Types.Scope()
		for _, n := range sc.Names() {
			if v, ok := sc.Lookup(n).(*types.Var); ok {
				g.globals[v] = true
				nGlobals++
			}
		}
	}
	var funcs []*FuncInfo
	for _, fi := range c.P.Funcs {
		if fi.Body != nil && (in[shortPkg(fi.Pkg.PkgPath)] || fi.Ctl) {
			funcs = append(funcs, fi)
			if fi.Obj != nil {
				g.byObj[fi.Obj] = fi
			}
		}
	}
	for iter := 0; iter < 10; iter++ {
		g.changed = false
		for _, fi := range funcs {
			info := fi.Pkg.TypesInfo
			ast.Inspect(fi.Body, func(n ast.Node) bool {
				switch s := n.(type) {
				case *ast.AssignStmt:
					if len(s.Lhs) == len(s.Rhs) {
						for i, l := range s.Lhs {
							// a shallow copy of a struct reachable from a package-level variable shares its pointer-like fields
							if st, ok := unparen(s.Rhs[i]).(*ast.StarExpr); ok {
								if porg := g.origin(info, st.X); porg != "" {
									if n := namedOf(info.TypeOf(s.Rhs[i])); n != nil {
										if stt, ok := n.Underlying().(*types.Struct); ok {
											for fi2 := 0; fi2 < stt.NumFields(); fi2++ {
												if pointerLikeT(stt.Field(fi2).Type()) {
													fk := typeKey(n) + "." + stt.Field(fi2).Name()
													if _, ok := g.fields[fk]; !ok {
														g.fields[fk] = porg
														g.changed = true
													}
												}
											}
										}
									}
								}
							}
							org := g.origin(info, s.Rhs[i])
							if org == "" {
								continue
							}
							switch lx := unparen(l).(type) {
							case *ast.Ident:
								o := info.Defs[lx]
								if o == nil {
									o = info.Uses[lx]
								}
								if !g.globals[o] {
									g.setVar(o, org)
								}
							case *ast.SelectorExpr:
								if fk := g.fieldKey(lx, info); fk != "" {
									if _, ok := g.fields[fk]; !ok {
										g.fields[fk] = org
										g.changed = true
									}
								}
							}
						}
					}
				case *ast.CompositeLit:
					n := namedOf(info.TypeOf(s))
					if n == nil {
						return true
					}
					for _, el := range s.Elts {
						kv, ok := el.(*ast.KeyValueExpr)
						if !ok {
							continue
						}
						id, ok := kv.Key.(*ast.Ident)
						if !ok {
							continue
						}
						if org := g.origin(info, kv.Value); org != "" {
							fk := typeKey(n) + "." + id.Name
							if _, ok := g.fields[fk]; !ok {
								g.fields[fk] = org
								g.changed = true
							}
						}
					}
				case *ast.ReturnStmt:
					if fi.Obj != nil {
						for _, r := range s.Results {
							if org := g.origin(info, r); org != "" {
								if _, ok := g.results[fi.Obj]; !ok {
									g.results[fi.Obj] = org
									g.changed = true
								}
							}
						}
					}
				case *ast.CallExpr:
					fn, _ := typeutil.Callee(info, s).(*types.Func)
					if fn == nil {
						return true
					}
					callee := g.byObj[fn.Origin()]
					if callee == nil || callee.Sig == nil {
						return true
					}
					for i, a := range s.Args {
						if i >= callee.Sig.Params().Len() {
							break
						}
						if org := g.origin(info, a); org != "" {
							g.setVar(callee.Sig.Params().At(i), org)
						}
					}
					// the receiver is an argument too
					if recv := callee.Sig.Recv(); recv != nil {
						if sel, ok := unparen(s.Fun).(*ast.SelectorExpr); ok {
							if org := g.origin(info, sel.X); org != "" && pointerLikeT(recv.Type()) {
								g.setVar(recv, org)
							}
						}
					}
				}
				return true
			})
		}
		if !g.changed {
			break
		}
	}
	// sinks: stores whose target is a global or reaches memory aliased with one
	nStores := 0
	for _, st := range allStores(c, in) {
		fi := st.fi
		info := fi.Pkg.TypesInfo
		base, chain := lhsBase(st.lhs)
		org := ""
		// direct: G = v, G.f = v, G[i] = v
		if id, ok := base.(*ast.Ident); ok {
			o := info.Uses[id]
			if g.globals[o] {
				org = objQual(o)
			}
		}
		if sel, ok := unparen(st.lhs).(*ast.SelectorExpr); ok && org == "" {
			if o, ok := info.Uses[sel.Sel].(*types.Var); ok && g.globals[o] {
				org = objQual(o)
			}
		}
		// through an alias: some proper prefix of the target is a pointer-like value aliasing a global
		if org == "" && len(chain) > 0 {
			for _, pre := range chain {
				var inner ast.Expr
				switch x := pre.(type) {
				case *ast.SelectorExpr:
					inner = x.X
				case *ast.IndexExpr:
					inner = x.X
				case *ast.StarExpr:
					inner = x.X
				}
				if inner == nil {
					continue
				}
				if o := g.origin(info, inner); o != "" {
					org = o
					break
				}
			}
		}
		nStores++
		if org == "" {
			continue
		}
		root := fi.Root()
		if root.Decl != nil && root.Decl.Name.Name == "init" && root.Decl.Recv == nil {
			continue
		}
		c.R.Obl(Obligation{Rule: "E6.R-global", Func: fi.Name, Construct: "store " + types.ExprString(st.lhs), Pos: c.P.Position(st.lhs.Pos()), Discharged: false, Nontrivial: true, Ctl: fi.Ctl})
		c.R.Find(Finding{Rule: "E6.R-global", Func: fi.Name, Construct: "write reaching package-level " + org + " via " + types.ExprString(st.lhs), Pos: c.P.Position(st.lhs.Pos()),
			Msg: fmt.Sprintf("`%s = ...` in %s writes memory that is (or may be aliased with) the package-level variable %s: using one instance changes the defaults seen by every other", types.ExprString(st.lhs), fi.Name, org), Ctl: fi.Ctl})
	}
	// mutating method calls on package-level variables (sync.Map.Store, list.PushBack, in-module mutators ...)
	e1eng := c.e1()
	readOnly := map[string]bool{"Load": true, "Range": true, "Len": true, "String": true, "Get": true, "Lock": true, "Unlock": true, "RLock": true, "RUnlock": true,
		"Do": true, "Error": true, "Is": true, "As": true, "Unwrap": true, "Execute": true, "ExecuteTemplate": true, "Lookup": true, "Name": true, "Start": true,
		"Tracer": true, "Wait": true, "Bytes": true, "Cap": true, "MatchString": true, "FindStringSubmatch": true, "Encode": true, "EncodeToString": true, "DecodeString": true,
		"Decode": true, "Info": true, "Debug": true, "Warn": true, "ErrorContext": true, "Log": true, "With": true, "Enabled": true}
	for _, fi := range funcs {
		info := fi.Pkg.TypesInfo
		root := fi.Root()
		if root.Decl != nil && root.Decl.Name.Name == "init" && root.Decl.Recv == nil {
			continue
		}
		ast.Inspect(fi.Body, func(n ast.Node) bool {
			if lit, ok := n.(*ast.FuncLit); ok && lit != fi.Lit {
				return false
			}
			call, ok := n.(*ast.CallExpr)
			if !ok {
				return true
			}
			sel, ok := unparen(call.Fun).(*ast.SelectorExpr)
			if !ok {
				return true
			}
			fn, _ := typeutil.Callee(info, call).(*types.Func)
			if fn == nil {
				return true
			}
			sig, _ := fn.Type().(*types.Signature)
			if sig == nil || sig.Recv() == nil || types.IsInterface(sig.Recv().Type()) {
				return true
			}
			base, _ := lhsBase(sel.X)
			var gobj types.Object
			switch b := base.(type) {
			case *ast.Ident:
				if o := info.Uses[b]; g.globals[o] {
					gobj = o
				}
			}
			if qs, ok := unparen(sel.X).(*ast.SelectorExpr); ok && gobj == nil {
				if o, ok := info.Uses[qs.Sel].(*types.Var); ok && g.globals[o] {
					gobj = o
				}
			}
			if gobj == nil {
				return true
			}
			mutating := false
			if fn.Pkg() != nil && inModule(fn.Pkg().Path()) {
				if callee := e1eng.byObj[fn.Origin()]; callee != nil && e1eng.muts[callee][-1] {
					mutating = true
				}
			} else if _, isPtr := sig.Recv().Type().(*types.Pointer); isPtr && !readOnly[fn.Name()] {
				mutating = true
			}
			c.R.Obl(Obligation{Rule: "E6.R-global", Func: fi.Name, Construct: "method call " + types.ExprString(sel) + " on package-level " + objQual(gobj), Pos: c.P.Position(call.Pos()), Discharged: !mutating, Nontrivial: true, Ctl: fi.Ctl})
			if mutating {
				c.R.Find(Finding{Rule: "E6.R-global", Func: fi.Name, Construct: "mutating call " + types.ExprString(sel) + " on package-level " + objQual(gobj), Pos: c.P.Position(call.Pos()),
					Msg: fmt.Sprintf("`%s(...)` in %s mutates the package-level variable %s: state shared by every instance in the process (one provider's use changes what another sees)", types.ExprString(sel), fi.Name, objQual(gobj)), Ctl: fi.Ctl})
			}
			return true
		})
	}
	var tf []string
	for k, v := range g.fields {
		tf = append(tf, k+" <- "+v)
	}
	sort.Strings(tf)
	c.R.Extra["fields_aliasing_globals"] = tf
	c.R.Extra["package_level_variables"] = nGlobals
	c.R.Extra["stores_examined"] = nStores
	c.R.Obl(Obligation{Rule: "E6.R-global", Func: "-", Construct: fmt.Sprintf("%d stores examined against %d package-level variables", nStores, nGlobals), Pos: "-", Discharged: true, Nontrivial: true})
}

// ---- R-foreign: caller-supplied *http.Client is never written ---------------------------------

func RunForeignClient(c *Ctx, pkgs []string) {
	in := map[string]bool{}
	for _, p := range pkgs {
		in[p] = true
	}
	n := 0
	for _, st := range allStores(c, in) {
		info := st.fi.Pkg.TypesInfo
		sel, ok := unparen(st.lhs).(*ast.SelectorExpr)
		if !ok {
			continue
		}
		xt := info.TypeOf(sel.X)
		if xt == nil {
			continue
		}
		ptr, isPtr := xt.(*types.Pointer)
		nm := namedOf(xt)
		if nm == nil || nm.Obj().Pkg() == nil || nm.Obj().Pkg().Path() != "net/http" || nm.Obj().Name() != "Client" {
			continue
		}
		n++
		_ = ptr
		fresh := false
		if !isPtr {
			fresh = true // a by-value copy owned by this function
		} else if id, ok := unparen(sel.X).(*ast.Ident); ok {
			// pointer variable initialised from a fresh allocation in this function
			if o := info.Uses[id]; o != nil {
				ast.Inspect(st.fi.Root().Body, func(nd ast.Node) bool {
					if as, ok := nd.(*ast.AssignStmt); ok && len(as.Lhs) == len(as.Rhs) {
						for i, l := range as.Lhs {
							if lid, ok := l.(*ast.Ident); ok && (info.Defs[lid] == o || info.Uses[lid] == o) {
								switch r := unparen(as.Rhs[i]).(type) {
								case *ast.UnaryExpr:
									if _, isLit := unparen(r.X).(*ast.CompositeLit); isLit && r.Op == token.AND {
										fresh = true
									}
								case *ast.CallExpr:
									if fid, ok := r.Fun.(*ast.Ident); ok && fid.Name == "new" {
										fresh = true
									}
								}
							}
						}
					}
					return true
				})
			}
		}
		c.R.Obl(Obligation{Rule: "E6.R-foreign", Func: st.fi.Name, Construct: "store " + types.ExprString(st.lhs), Pos: c.P.Position(st.lhs.Pos()), Discharged: fresh, Nontrivial: true, Ctl: st.fi.Ctl})
		if !fresh {
			c.R.Find(Finding{Rule: "E6.R-foreign", Func: st.fi.Name, Construct: "store to " + sel.Sel.Name + " of a *http.Client not allocated here", Pos: c.P.Position(st.lhs.Pos()),
				Msg: fmt.Sprintf("`%s = ...` modifies an http.Client this function did not allocate (the caller's client): later calls through it behave differently", types.ExprString(st.lhs)), Ctl: st.fi.Ctl})
		}
	}
	c.R.Extra["http_client_field_stores"] = n
}

// ---- R-getter ---------------------------------------------------------------------------------

func RunGetters(c *Ctx, pkgs []string) {
	in := map[string]bool{}
	for _, p := range pkgs {
		in[p] = true
	}
	n := 0
	for _, fi := range c.P.Funcs {
		if fi.Body == nil || fi.Obj == nil || fi.Sig == nil || fi.Sig.Recv() == nil || (!in[shortPkg(fi.Pkg.PkgPath)] && !fi.Ctl) {
			continue
		}
		name := fi.Obj.Name()
		if !(strings.HasPrefix(name, "Get") || strings.HasPrefix(name, "Is") || strings.HasPrefix(name, "Has")) {
			continue
		}
		if _, isPtr := fi.Sig.Recv().Type().(*types.Pointer); !isPtr {
			// value receiver: only writes through pointer-like fields could escape; treat the same way below
		}
		n++
		info := fi.Pkg.TypesInfo
		recv := fi.Sig.Recv()
		var bad ast.Expr
		ast.Inspect(fi.Body, func(nd ast.Node) bool {
			var lhs []ast.Expr
			switch s := nd.(type) {
			case *ast.AssignStmt:
				if s.Tok == token.DEFINE {
					return true
				}
				lhs = s.Lhs
			case *ast.IncDecStmt:
				lhs = []ast.Expr{s.X}
			}
			for _, l := range lhs {
				base, chain := lhsBase(l)
				if id, ok := base.(*ast.Ident); ok && info.Uses[id] == recv && len(chain) > 0 {
					if _, isPtr := recv.Type().(*types.Pointer); isPtr {
						bad = l
					}
				}
			}
			// append(recv.F, x...) writes x into the spare capacity of the receiver's own slice (and hands out an alias of it)
			// whether or not the result is assigned back: a getter must copy first (slices.Clone, a fresh literal)
			if call, ok := nd.(*ast.CallExpr); ok && len(call.Args) >= 2 {
				if fid, ok := unparen(call.Fun).(*ast.Ident); ok && fid.Name == "append" {
					if _, isB := info.Uses[fid].(*types.Builtin); isB {
						if sel, ok := unparen(call.Args[0]).(*ast.SelectorExpr); ok {
							if id, ok := unparen(sel.X).(*ast.Ident); ok && info.Uses[id] == recv {
								bad = call
							}
						}
					}
				}
			}
			return true
		})
		c.R.Obl(Obligation{Rule: "E6.R-getter", Func: fi.Name, Construct: "no store through the receiver", Pos: c.P.Position(fi.Pos()), Discharged: bad == nil, Nontrivial: bad != nil, Ctl: fi.Ctl})
		if bad != nil {
			c.R.Find(Finding{Rule: "E6.R-getter", Func: fi.Name, Construct: "store to receiver field " + types.ExprString(bad), Pos: c.P.Position(bad.Pos()),
				Msg: fmt.Sprintf("accessor %s writes `%s`: a getter that mutates shared state is a data race under concurrent use and changes what other holders of the value see", fi.Name, types.ExprString(bad)), Ctl: fi.Ctl})
		}
	}
	c.R.Extra["accessor_methods"] = n
}

// ---- R-frozen ---------------------------------------------------------------------------------

type frozenSpec struct {
	typ          string   // "op.Provider"
	constructors []string // functions allowed to write fields (construction time)
	lazy         []string // nil-guarded lazy initialisers; every constructor must call them before returning
	mutex        string   // field name of the struct's own mutex ("" if none)
	other        map[string]string
}

var frozenTypes = []frozenSpec{
	{typ: "op.Provider", constructors: []string{"op.NewProvider"}},
	{typ: "op.webServer", constructors: []string{"op.RegisterServer"}},
	{typ: "op.LegacyServer", constructors: []string{"op.NewLegacyServer"}},
	{typ: "client/rp.relyingParty", constructors: []string{"client/rp.NewRelyingPartyOAuth", "client/rp.NewRelyingPartyOIDC"},
		lazy: []string{"client/rp.(*relyingParty).IDTokenVerifier", "client/rp.(*relyingParty).ErrorHandler", "client/rp.(*relyingParty).UnauthorizedHandler"}},
	{typ: "client/rs.resourceServer", constructors: []string{"client/rs.newResourceServer", "client/rs.NewResourceServerClientCredentials", "client/rs.NewResourceServerJWTProfile"}},
	{typ: "client/rp.remoteKeySet", constructors: []string{"client/rp.NewRemoteKeySet"}, mutex: "mu"},
	{typ: "http.CookieHandler", constructors: []string{"http.NewCookieHandler"}},
	{typ: "client/tokenexchange.OAuthTokenExchange", constructors: []string{"client/tokenexchange.newOAuthTokenExchange"}},
	{typ: "client/profile.jwtProfileTokenSource", constructors: []string{"client/profile.NewJWTProfileTokenSource"}},
}

// isOptionLiteral: fi is a function literal returned by its parent (the With*-option shape).
func isOptionLiteral(fi *FuncInfo) bool {
	if fi.Lit == nil || fi.Parent == nil || fi.Parent.Body == nil {
		return false
	}
	found := false
	ast.Inspect(fi.Parent.Body, func(n ast.Node) bool {
		if rs, ok := n.(*ast.ReturnStmt); ok {
			for _, r := range rs.Results {
				if unparen(r) == ast.Expr(fi.Lit) {
					found = true
				}
				// return wrap(func(x *T) { ... }): the literal is handed to a helper that only calls it from the option
				// literal it returns (a setter wrapped into an option)
				if call, ok := unparen(r).(*ast.CallExpr); ok && optionWrapper != nil {
					for i, a := range call.Args {
						if unparen(a) == ast.Expr(fi.Lit) && optionWrapper(fi.Parent, call, i) {
							found = true
						}
					}
				}
			}
		}
		return true
	})
	return found
}

// optionWrapper (set by RunFrozen): is argument i of call handed to a post-baseline helper whose only use of that
// parameter is calling it inside the function literal the helper returns?
var optionWrapper func(caller *FuncInfo, call *ast.CallExpr, i int) bool

// heldLock: is the statement at pos inside a region where recv.<mutex> is held (Lock before it in the same
// function, and either a deferred Unlock or an Unlock after it)?
func heldLock(fi *FuncInfo, recv types.Object, mutex string, pos token.Pos) bool {
	info := fi.Pkg.TypesInfo
	type ev struct {
		pos      token.Pos
		lock     bool
		deferred bool
	}
	var evs []ev
	ast.Inspect(fi.Body, func(n ast.Node) bool {
		deferred := false
		var call *ast.CallExpr
		switch s := n.(type) {
		case *ast.DeferStmt:
			call, deferred = s.Call, true
		case *ast.ExprStmt:
			call, _ = s.X.(*ast.CallExpr)
		}
		if call == nil {
			return true
		}
		sel, ok := call.Fun.(*ast.SelectorExpr)
		if !ok || (sel.Sel.Name != "Lock" && sel.Sel.Name != "Unlock" && sel.Sel.Name != "RLock" && sel.Sel.Name != "RUnlock") {
			return true
		}
		msel, ok := unparen(sel.X).(*ast.SelectorExpr)
		if !ok || msel.Sel.Name != mutex {
			return true
		}
		if id, ok := unparen(msel.X).(*ast.Ident); !ok || info.Uses[id] != recv {
			return true
		}
		evs = append(evs, ev{call.Pos(), strings.HasSuffix(sel.Sel.Name, "Lock") && !strings.HasPrefix(sel.Sel.Name, "Un") && !strings.HasPrefix(sel.Sel.Name, "RUn"), deferred})
		return !deferred
	})
	sort.Slice(evs, func(i, j int) bool { return evs[i].pos < evs[j].pos })
	held := false
	for _, e := range evs {
		if e.pos > pos {
			break
		}
		if e.deferred {
			continue
		}
		held = e.lock
	}
	return held
}

// heldLockOrByCallers: the lock is held at pos in fi, or fi is a method whose receiver is recv and every reference to that
// method in the module is a direct call `x.m(...)` made while x.<mutex> is held (recursively, depth 3) - the
// "must be called with the lock held" helper idiom.
func heldLockOrByCallers(c *Ctx, fi *FuncInfo, recv types.Object, mutex string, pos token.Pos, depth int) bool {
	if heldLock(fi, recv, mutex, pos) {
		return true
	}
	if depth == 0 || fi.Obj == nil || fi.Sig == nil || fi.Sig.Recv() == nil || fi.Sig.Recv() != recv {
		return false
	}
	refs := 0
	for _, cf := range c.P.Funcs {
		if cf.Body == nil || cf.Lit != nil {
			continue // literals are visited as part of their declaration
		}
		info := cf.Pkg.TypesInfo
		ok := true
		pm := buildParents(cf.Body)
		ast.Inspect(cf.Body, func(n ast.Node) bool {
			sel, isSel := n.(*ast.SelectorExpr)
			if !isSel {
				return true
			}
			fn, _ := info.Uses[sel.Sel].(*types.Func)
			if fn == nil || fn.Origin() != fi.Obj.Origin() {
				return true
			}
			refs++
			call, isCall := pm[sel].(*ast.CallExpr)
			if !isCall || unparen(call.Fun) != ast.Expr(sel) {
				ok = false // method value: may be called anywhere
				return true
			}
			id, isID := unparen(sel.X).(*ast.Ident)
			if !isID {
				ok = false
				return true
			}
			// the innermost function (declaration or literal) containing the call decides the lock region
			holder := cf
			for _, lf := range c.P.Funcs {
				if lf.Lit != nil && lf.Root() == cf && lf.Lit.Pos() <= call.Pos() && call.End() <= lf.Lit.End() && (holder == cf || lf.Lit.Pos() >= holder.Pos()) {
					holder = lf
				}
			}
			o := info.Uses[id]
			if o == nil || !heldLockOrByCallers(c, holder, o, mutex, call.Pos(), depth-1) {
				ok = false
			}
			return true
		})
		if !ok {
			return false
		}
	}
	return refs > 0
}

func RunFrozen(c *Ctx) {
	optionWrapper = func(caller *FuncInfo, call *ast.CallExpr, i int) bool {
		fn, _ := typeutil.Callee(caller.Pkg.TypesInfo, call).(*types.Func)
		if fn == nil {
			return false
		}
		var h *FuncInfo
		for _, g := range c.P.Funcs {
			if g.Obj == fn.Origin() && g.Lit == nil {
				h = g
			}
		}
		if h == nil || h.Body == nil || h.Sig == nil || i >= h.Sig.Params().Len() || c.helpers()[h.Obj] == nil {
			return false
		}
		param := h.Sig.Params().At(i)
		info := h.Pkg.TypesInfo
		uses, okUses := 0, 0
		// every use of the parameter is the callee of a call inside a literal that the helper returns
		ast.Inspect(h.Body, func(n ast.Node) bool {
			rs, ok := n.(*ast.ReturnStmt)
			if !ok {
				return true
			}
			for _, r := range rs.Results {
				lit, ok := unparen(r).(*ast.FuncLit)
				if !ok {
					continue
				}
				ast.Inspect(lit.Body, func(m ast.Node) bool {
					if ce, ok := m.(*ast.CallExpr); ok {
						if id, ok := unparen(ce.Fun).(*ast.Ident); ok && info.Uses[id] == param {
							okUses++
						}
					}
					return true
				})
			}
			return true
		})
		ast.Inspect(h.Body, func(n ast.Node) bool {
			if id, ok := n.(*ast.Ident); ok && info.Uses[id] == param {
				uses++
			}
			return true
		})
		return uses > 0 && uses == okUses
	}
	specs := map[string]*frozenSpec{}
	for i := range frozenTypes {
		fs := &frozenTypes[i]
		specs[fs.typ] = fs
		for _, cn := range append(append([]string{}, fs.constructors...), fs.lazy...) {
			if c.P.Fn(cn) == nil {
				c.R.Fail("anchor-unresolved", cn, "E6.R-frozen", "function named in the shared-instance table for "+fs.typ+" not found: re-point the table")
			}
		}
	}
	all := map[string]bool{}
	for _, pk := range c.P.Scope {
		all[shortPkg(pk.PkgPath)] = true
	}
	counts := map[string]int{}
	for _, st := range allStores(c, all) {
		fi := st.fi
		if fi.Ctl {
			continue
		}
		info := fi.Pkg.TypesInfo
		base, chain := lhsBase(st.lhs)
		if len(chain) == 0 {
			continue
		}
		// a store through a local pointer defined once as &x.f... writes x.f... (p := &o.config.DeviceAuthorization; p.F = v)
		if id, ok := base.(*ast.Ident); ok {
			if v, _ := info.Uses[id].(*types.Var); v != nil && !v.IsField() {
				if target := addressOfDef(fi, v); target != nil {
					b2, c2 := lhsBase(target)
					if len(c2) > 0 {
						base, chain = b2, append(chain, c2...)
					}
				}
			}
		}
		// the innermost selector on the base decides which object is written
		first := chain[len(chain)-1]
		sel, ok := first.(*ast.SelectorExpr)
		if !ok {
			continue
		}
		bt := info.TypeOf(base)
		if bt == nil {
			continue
		}
		if _, isPtr := bt.(*types.Pointer); !isPtr {
			continue // a local value copy
		}
		nm := namedOf(bt)
		fs := specs[typeKey(nm)]
		if fs == nil {
			continue
		}
		counts[fs.typ]++
		root := fi.Root().Name
		reason := ""
		// a helper introduced after the baseline counts for the functions that call it (all of them must be constructors)
		viaHelper := false
		if attr := c.attributed(fi); len(attr) > 0 && !(len(attr) == 1 && attr[0] == root) {
			viaHelper = true
			for _, a := range attr {
				if !contains(fs.constructors, a) {
					viaHelper = false
				}
			}
		}
		if !viaHelper && fi.Obj != nil && c.helpers()[fi.Obj] != nil && !c.helpers()[fi.Obj].escapes {
			// ... or from option literals as well (a setter shared by the constructor's default and the option)
			viaHelper = calledOnlyDuringConstruction(c, fi, fs.constructors, 0)
		}
		switch {
		case contains(fs.constructors, root):
			reason = "constructor " + root
		case viaHelper:
			reason = "helper " + root + " called only from constructors / option literals"
		case isOptionLiteral(fi) || (fi.Parent != nil && isOptionLiteral(fi.Parent)):
			reason = "option literal returned by " + root + " (applied during construction)"
		case contains(fs.lazy, fi.Name):
			reason = "nil-guarded lazy initialiser, forced by every constructor (checked below)"
		case fs.mutex != "":
			if id, ok := base.(*ast.Ident); ok {
				if o := info.Uses[id]; o != nil && heldLockOrByCallers(c, fi, o, fs.mutex, st.lhs.Pos(), 3) {
					reason = "under " + fs.mutex
				}
			}
		}
		construct := "store " + fs.typ + "." + sel.Sel.Name
		c.R.Obl(Obligation{Rule: "E6.R-frozen", Func: fi.Name, Construct: construct, Pos: c.P.Position(st.lhs.Pos()), Discharged: reason != "", Nontrivial: true, How: []string{reason}})
		if reason == "" {
			c.R.Find(Finding{Rule: "E6.R-frozen", Func: fi.Name, Construct: construct + " after construction", Pos: c.P.Position(st.lhs.Pos()),
				Msg: fmt.Sprintf("`%s = ...` writes a field of the shared instance type %s outside its constructors/options, without its mutex and not in a forced lazy initialiser: concurrent use of the instance races on this field", types.ExprString(st.lhs), fs.typ)})
		}
	}
	// lazy initialisers: nil-guarded, and every constructor calls them before its success return
	for _, fs := range frozenTypes {
		for _, lz := range fs.lazy {
			fi := c.P.Fn(lz)
			if fi == nil {
				continue
			}
			for _, cn := range fs.constructors {
				name := lz[strings.LastIndex(lz, ".")+1:]
				evalOb(c, c.e1(), Ob{ID: "E6.R-frozen.lazy-forced", Fn: cn, Kind: "ret ok", Pat: "ret($rp, nil)",
					Why: "a lazily initialised field must be set before the instance is shared",
					Req: []string{"called($rp." + name + "())"}})
			}
		}
		if counts[fs.typ] == 0 && len(fs.constructors) > 0 {
			c.R.Extra["frozen_no_field_stores:"+fs.typ] = true
		}
	}
}

func contains(xs []string, x string) bool {
	for _, y := range xs {
		if y == x {
			return true
		}
	}
	return false
}

// ---- R-param-slice / R-closure-shared --------------------------------------------------------
//
// R-param-slice: a function must not write into the backing array of a slice it received: index stores into the
// parameter (or a re-slice of it) and appends to a re-slice `p[:n]` (which reuse the caller's array) are reported.
// Plain `append(p, x)` whose result is used instead of p is the ordinary Go idiom and is accepted.
//
// R-closure-shared: inside a function literal that outlives the call that created it (it is returned or handed to a
// router/handler), writes to variables captured from the enclosing function - assignment, append to the captured slice
// or an alias of it, index or map store - are writes to state shared by every invocation (and every request).
// sliceRuleOnlyFiles, when set, restricts RunSliceAndClosureWrites to functions declared in files with these suffixes.
var sliceRuleOnlyFiles []string

func RunSliceAndClosureWrites(c *Ctx, pkgs []string, allowParam []allowSite) {
	in := map[string]bool{}
	for _, p := range pkgs {
		in[p] = true
	}
	allow := map[string]string{}
	used := map[string]bool{}
	for _, a := range allowParam {
		allow[a.fn+"|"+a.expr] = a.why
	}
	nFuncs, nLits := 0, 0
	for _, fi := range c.P.Funcs {
		if fi.Body == nil || (!in[shortPkg(fi.Pkg.PkgPath)] && !fi.Ctl) {
			continue
		}
		if len(sliceRuleOnlyFiles) > 0 && !fi.Ctl {
			fn := c.P.Fset.Position(fi.Pos()).Filename
			keep := false
			for _, suf := range sliceRuleOnlyFiles {
				if strings.HasSuffix(fn, suf) {
					keep = true
				}
			}
			if !keep {
				continue
			}
		}
		info := fi.Pkg.TypesInfo
		// --- R-param-slice (declarations only; literals are covered through their own parameters too)
		if fi.Sig != nil {
			nFuncs++
			tainted := map[types.Object]string{} // variable -> "param p" (aliases the caller's array)
			resliced := map[types.Object]bool{}   // alias created by re-slicing: append reuses the caller's array
			for i := 0; i < fi.Sig.Params().Len(); i++ {
				p := fi.Sig.Params().At(i)
				if _, ok := p.Type().Underlying().(*types.Slice); ok {
					tainted[p] = p.Name()
				}
			}
			if r := fi.Sig.Recv(); r != nil {
				// a slice-typed value receiver shares its backing array with the caller's value just like a parameter
				if _, ok := r.Type().Underlying().(*types.Slice); ok {
					tainted[r] = r.Name()
				}
			}
			if len(tainted) > 0 {
				// in-place library mutators applied to the caller's array: slices.DeleteFunc(p, ...), sort.Strings(p), copy(p, ...), clear(p)
				ast.Inspect(fi.Body, func(n ast.Node) bool {
					if lit, ok := n.(*ast.FuncLit); ok && lit != fi.Lit {
						return false
					}
					call, ok := n.(*ast.CallExpr)
					if !ok || len(call.Args) == 0 {
						return true
					}
					name := ""
					switch f := unparen(call.Fun).(type) {
					case *ast.Ident:
						if _, isB := info.Uses[f].(*types.Builtin); isB && (f.Name == "copy" || f.Name == "clear") {
							name = f.Name
						}
					case *ast.SelectorExpr:
						if fn, ok := info.Uses[f.Sel].(*types.Func); ok && fn.Pkg() != nil && inPlaceMutators[fn.Pkg().Path()+"."+fn.Name()] {
							name = fn.Pkg().Name() + "." + fn.Name()
						}
					case *ast.IndexExpr: // explicit instantiation slices.DeleteFunc[T]
						if se, ok := unparen(f.X).(*ast.SelectorExpr); ok {
							if fn, ok := info.Uses[se.Sel].(*types.Func); ok && fn.Pkg() != nil && inPlaceMutators[fn.Pkg().Path()+"."+fn.Name()] {
								name = fn.Pkg().Name() + "." + fn.Name()
							}
						}
					}
					if name == "" {
						return true
					}
					arg := unparen(call.Args[0])
					if se, ok := arg.(*ast.SliceExpr); ok {
						arg = unparen(se.X)
					}
					if cv, ok := arg.(*ast.CallExpr); ok && len(cv.Args) == 1 { // conversion []string(p), sort.StringSlice(p)
						if tv, ok := info.Types[cv.Fun]; ok && tv.IsType() {
							arg = unparen(cv.Args[0])
						}
					}
					id, ok := arg.(*ast.Ident)
					if !ok {
						return true
					}
					org, ok := tainted[info.Uses[id]]
					if !ok {
						return true
					}
					key := fi.Root().Name + "|" + name + "(" + org + ")"
					why, okAllowed := allow[key]
					if okAllowed {
						used[key] = true
					}
					c.R.Obl(Obligation{Rule: "E6.R-param-slice", Func: fi.Name, Construct: name + " on " + org, Pos: c.P.Position(call.Pos()), Discharged: okAllowed, Nontrivial: true, How: []string{why}, Ctl: fi.Ctl})
					if okAllowed {
						return true
					}
					c.R.Find(Finding{Rule: "E6.R-param-slice", Func: fi.Name, Construct: "in-place " + name + " on caller's slice " + org, Pos: c.P.Position(call.Pos()),
						Msg: fmt.Sprintf("`%s` rewrites the elements of %s in place: the backing array belongs to the caller (a parameter or a slice-typed receiver is only a copy of the slice header), so the caller's - possibly shared or stored - value is modified", types.ExprString(call), org), Ctl: fi.Ctl})
					return true
				})
				// aliases: x := p / x := p[a:b]
				for iter := 0; iter < 3; iter++ {
					ast.Inspect(fi.Body, func(n ast.Node) bool {
						if lit, ok := n.(*ast.FuncLit); ok && lit != fi.Lit {
							return false
						}
						as, ok := n.(*ast.AssignStmt)
						if !ok || len(as.Lhs) != len(as.Rhs) {
							return true
						}
						for i, l := range as.Lhs {
							id, ok := unparen(l).(*ast.Ident)
							if !ok {
								continue
							}
							o := info.Defs[id]
							if o == nil {
								o = info.Uses[id]
							}
							if o == nil {
								continue
							}
							switch r := unparen(as.Rhs[i]).(type) {
							case *ast.Ident:
								if org, ok := tainted[info.Uses[r]]; ok && info.Uses[r] != o {
									tainted[o] = org
									if resliced[info.Uses[r]] {
										resliced[o] = true
									}
								}
							case *ast.SliceExpr:
								if rid, ok := unparen(r.X).(*ast.Ident); ok {
									if org, ok := tainted[info.Uses[rid]]; ok && r.Max == nil {
										tainted[o] = org
										resliced[o] = true
									}
								}
							}
						}
						return true
					})
				}
				ast.Inspect(fi.Body, func(n ast.Node) bool {
					if lit, ok := n.(*ast.FuncLit); ok && lit != fi.Lit {
						return false
					}
					as, ok := n.(*ast.AssignStmt)
					if !ok {
						return true
					}
					for i, l := range as.Lhs {
						// p[i] = v
						if ix, ok := unparen(l).(*ast.IndexExpr); ok {
							if id, ok := unparen(ix.X).(*ast.Ident); ok {
								if org, ok := tainted[info.Uses[id]]; ok {
									key := fi.Root().Name + "|" + canonExpr(fi, ix, c.P.Fset)
									why, okAllowed := allow[key]
									if okAllowed {
										used[key] = true
									}
									c.R.Obl(Obligation{Rule: "E6.R-param-slice", Func: fi.Name, Construct: "store " + types.ExprString(ix), Pos: c.P.Position(ix.Pos()), Discharged: okAllowed, Nontrivial: true, How: []string{why}, Ctl: fi.Ctl})
									if !okAllowed {
										c.R.Find(Finding{Rule: "E6.R-param-slice", Func: fi.Name, Construct: "element store into caller's slice " + org, Pos: c.P.Position(ix.Pos()),
											Msg: fmt.Sprintf("`%s = ...` overwrites an element of the slice parameter %s: the caller's (possibly shared, possibly cached) slice is modified", types.ExprString(ix), org), Ctl: fi.Ctl})
									}
								}
							}
						}
						// x = append(x, ...) where x is a re-slice of a parameter
						if i < len(as.Rhs) && len(as.Lhs) == len(as.Rhs) {
							if call, ok := unparen(as.Rhs[i]).(*ast.CallExpr); ok && len(call.Args) > 0 {
								if fid, ok := unparen(call.Fun).(*ast.Ident); ok && fid.Name == "append" {
									if aid, ok := unparen(call.Args[0]).(*ast.Ident); ok {
										if o := info.Uses[aid]; resliced[o] {
											c.R.Obl(Obligation{Rule: "E6.R-param-slice", Func: fi.Name, Construct: "append to re-slice " + aid.Name, Pos: c.P.Position(call.Pos()), Discharged: false, Nontrivial: true, Ctl: fi.Ctl})
											c.R.Find(Finding{Rule: "E6.R-param-slice", Func: fi.Name, Construct: "append into the backing array of parameter " + tainted[o], Pos: c.P.Position(call.Pos()),
												Msg: fmt.Sprintf("`%s` appends to %s, a re-slice of the slice parameter %s: the elements are written into the caller's backing array (which may be a shared cache), outside any lock the caller holds", types.ExprString(call), aid.Name, tainted[o]), Ctl: fi.Ctl})
										}
									}
								}
							}
						}
					}
					return true
				})
			}
		}
		// --- R-closure-shared
		if fi.Lit == nil || fi.Parent == nil || !escapes(fi) {
			continue
		}
		nLits++
		outer := func(o types.Object) bool {
			return o != nil && (o.Pos() < fi.Lit.Pos() || o.Pos() > fi.Lit.End()) && o.Parent() != nil && o.Parent() != o.Pkg().Scope() && !isPkgLevel(o)
		}
		alias := map[types.Object]types.Object{} // local alias -> captured slice/map variable
		ast.Inspect(fi.Lit.Body, func(n ast.Node) bool {
			as, ok := n.(*ast.AssignStmt)
			if !ok || len(as.Lhs) != len(as.Rhs) {
				return true
			}
			for i, l := range as.Lhs {
				id, ok := unparen(l).(*ast.Ident)
				if !ok {
					continue
				}
				lo := info.Defs[id]
				if lo == nil {
					continue
				}
				var src *ast.Ident
				switch r := unparen(as.Rhs[i]).(type) {
				case *ast.Ident:
					src = r
				case *ast.SliceExpr:
					src, _ = unparen(r.X).(*ast.Ident)
				}
				if src == nil {
					continue
				}
				if o, ok := info.Uses[src].(*types.Var); ok && outer(o) {
					switch o.Type().Underlying().(type) {
					case *types.Slice, *types.Map:
						alias[lo] = o
					}
				}
			}
			return true
		})
		bad := false
		report := func(pos token.Pos, what string, captured types.Object) {
			bad = true
			c.R.Find(Finding{Rule: "E6.R-closure-shared", Func: fi.Name, Construct: what + " " + captured.Name(), Pos: c.P.Position(pos),
				Msg: fmt.Sprintf("the function literal outlives %s and is invoked once per request; it %s `%s`, a variable of the enclosing function shared by all invocations: concurrent requests race on it and see each other's values", fi.Parent.Name, what, captured.Name()), Ctl: fi.Ctl})
		}
		ast.Inspect(fi.Lit.Body, func(n ast.Node) bool {
			if lit, ok := n.(*ast.FuncLit); ok && lit != fi.Lit {
				return false
			}
			as, ok := n.(*ast.AssignStmt)
			if !ok {
				if inc, ok := n.(*ast.IncDecStmt); ok {
					if id, ok := unparen(inc.X).(*ast.Ident); ok {
						if o, ok := info.Uses[id].(*types.Var); ok && outer(o) {
							report(inc.Pos(), "increments the captured variable", o)
						}
					}
				}
				return true
			}
			for i, l := range as.Lhs {
				switch lx := unparen(l).(type) {
				case *ast.Ident:
					if as.Tok != token.DEFINE {
						if o, ok := info.Uses[lx].(*types.Var); ok && outer(o) {
							report(lx.Pos(), "assigns the captured variable", o)
						}
					}
				case *ast.IndexExpr:
					if id, ok := unparen(lx.X).(*ast.Ident); ok {
						o, _ := info.Uses[id].(*types.Var)
						if o != nil && outer(o) {
							report(lx.Pos(), "stores into the captured slice/map", o)
						} else if cap, ok := alias[info.Uses[id]]; ok {
							report(lx.Pos(), "stores through an alias into the captured slice/map", cap)
						}
					}
				}
				if i < len(as.Rhs) && len(as.Lhs) == len(as.Rhs) {
					if call, ok := unparen(as.Rhs[i]).(*ast.CallExpr); ok && len(call.Args) > 0 {
						if fid, ok := unparen(call.Fun).(*ast.Ident); ok && fid.Name == "append" {
							if aid, ok := unparen(call.Args[0]).(*ast.Ident); ok {
								ao := info.Uses[aid]
								if o, ok := ao.(*types.Var); ok && outer(o) {
									report(call.Pos(), "appends to the captured slice", o)
								} else if cap, ok := alias[ao]; ok {
									report(call.Pos(), "appends to an alias of the captured slice", cap)
								}
							}
						}
					}
				}
			}
			return true
		})
		c.R.Obl(Obligation{Rule: "E6.R-closure-shared", Func: fi.Name, Construct: "no write to variables captured from " + fi.Parent.Name, Pos: c.P.Position(fi.Pos()), Discharged: !bad, Nontrivial: true, Ctl: fi.Ctl})
	}
	c.R.Extra["functions_with_slice_params_checked"] = nFuncs
	c.R.Extra["escaping_function_literals_checked"] = nLits
	for k := range allow {
		if !used[k] {
			c.R.Find(Finding{Rule: "vacuity", Func: k, Construct: "E6.R-param-slice allow-list", Pos: "-", Msg: "allow-listed store no longer exists: remove the entry"})
		}
	}
}

// library functions that rewrite the elements of their first argument in place
var inPlaceMutators = map[string]bool{
	"slices.Delete": true, "slices.DeleteFunc": true, "slices.Compact": true, "slices.CompactFunc": true, "slices.Reverse": true,
	"slices.Sort": true, "slices.SortFunc": true, "slices.SortStableFunc": true, "slices.Insert": true, "slices.Replace": true,
	"sort.Strings": true, "sort.Ints": true, "sort.Float64s": true, "sort.Slice": true, "sort.SliceStable": true, "sort.Sort": true, "sort.Stable": true,
}

func isPkgLevel(o types.Object) bool { return o.Pkg() != nil && o.Parent() == o.Pkg().Scope() }

// escapes: the literal is returned by its parent, or passed as an argument to a call (router registration, middleware).
func escapes(fi *FuncInfo) bool {
	if fi.Lit == nil || fi.Parent == nil || fi.Parent.Body == nil {
		return false
	}
	res := false
	ast.Inspect(fi.Parent.Body, func(n ast.Node) bool {
		switch s := n.(type) {
		case *ast.ReturnStmt:
			for _, r := range s.Results {
				if unparen(r) == ast.Expr(fi.Lit) {
					res = true
				}
				// http.HandlerFunc(func...) conversions
				if call, ok := unparen(r).(*ast.CallExpr); ok {
					for _, a := range call.Args {
						if unparen(a) == ast.Expr(fi.Lit) {
							res = true
						}
					}
				}
			}
		case *ast.GoStmt:
			if unparen(s.Call.Fun) == ast.Expr(fi.Lit) {
				res = true
			}
		}
		return true
	})
	return res
}

// calledOnlyDuringConstruction: every call of the post-baseline helper h sits in a constructor, in an option literal
// (applied during construction), or in another such helper.
func calledOnlyDuringConstruction(c *Ctx, h *FuncInfo, constructors []string, depth int) bool {
	if depth > 2 || h.Obj == nil {
		return false
	}
	n := 0
	good := true
	for _, g := range c.P.Funcs {
		if g.Body == nil || g.Ctl {
			continue
		}
		info := g.Pkg.TypesInfo
		ast.Inspect(g.Body, func(nd ast.Node) bool {
			if lit, ok := nd.(*ast.FuncLit); ok && lit != g.Lit {
				return false
			}
			call, ok := nd.(*ast.CallExpr)
			if !ok {
				return true
			}
			if f, _ := typeutil.Callee(info, call).(*types.Func); f == nil || f.Origin() != h.Obj {
				return true
			}
			n++
			switch {
			case contains(constructors, g.Root().Name):
			case isOptionLiteral(g) || (g.Parent != nil && isOptionLiteral(g.Parent)):
			case g.Obj != nil && g != h && c.helpers()[g.Obj] != nil && !c.helpers()[g.Obj].escapes && calledOnlyDuringConstruction(c, g, constructors, depth+1):
			default:
				good = false
			}
			return true
		})
	}
	return n > 0 && good
}

// addressOfDef: for a local pointer variable with exactly one assignment of the form `v := &expr` / `v = &expr` in the
// enclosing declaration, the expression whose address it holds.
func addressOfDef(fi *FuncInfo, v *types.Var) ast.Expr {
	root := fi.Root()
	if root.Body == nil {
		return nil
	}
	info := fi.Pkg.TypesInfo
	var target ast.Expr
	n := 0
	ast.Inspect(root.Body, func(nd ast.Node) bool {
		as, ok := nd.(*ast.AssignStmt)
		if !ok || len(as.Lhs) != len(as.Rhs) {
			return true
		}
		for i, l := range as.Lhs {
			id, ok := unparen(l).(*ast.Ident)
			if !ok || (info.Defs[id] != v && info.Uses[id] != v) {
				continue
			}
			n++
			if u, ok := unparen(as.Rhs[i]).(*ast.UnaryExpr); ok && u.Op == token.AND {
				target = u.X
			} else {
				target = nil
				n += 2
			}
		}
		return true
	})
	if n != 1 {
		return nil
	}
	return target
}
