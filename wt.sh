#!/bin/sh
# usage: wt.sh <seeded|refactorings> <name>   -> scratch worktree /tmp/rg/dbg-<name> with the patch applied (remove with: wt.sh rm <name>)
if [ "$1" = rm ]; then git -C /repo worktree remove --force /tmp/rg/dbg-$2; exit; fi
mkdir -p /tmp/rg; wt=/tmp/rg/dbg-$2
[ -d $wt ] && git -C /repo worktree remove --force $wt
git -C /repo worktree add --detach $wt HEAD >/dev/null 2>&1 && git -C $wt apply /verif/$1/$2/patch.diff && echo $wt
