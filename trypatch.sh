#!/bin/sh
# usage: trypatch.sh <patch.diff> <label>  - scratch worktree of /repo HEAD + patch, all 20 quick checks in parallel, prints hits; worktree removed
. /verif/env.sh
patch="$1"; name="$2"; V=/verif
mkdir -p /tmp/rg; wt=/tmp/rg/tp-$name; sv=/tmp/rg/tpv-$name
rm -rf "$wt" "$sv"; git -C /repo worktree prune
git -C /repo worktree add --detach "$wt" HEAD >/dev/null 2>&1 || { echo "worktree failed"; exit 2; }
git -C "$wt" apply "$patch" || { echo "patch does not apply"; git -C /repo worktree remove --force "$wt"; exit 2; }
for p in C01 C02 C03 C04 C05 C06 C07 C08 C09 C10 C11 C12 C13 C14 C15 C16 C17 C18 C19 C20; do
 ( d=$sv/$p; mkdir -p $d/evidence $d/replay; ln -s $V/known_findings.json $d/known_findings.json; ln -s $V/checker $d/checker
   $V/bin/oidcheck -repo "$wt" -verif "$d" -prop $p -tier quick > /tmp/rg/tp-$name.$p.txt 2>&1 ) &
done
wait
for p in C01 C02 C03 C04 C05 C06 C07 C08 C09 C10 C11 C12 C13 C14 C15 C16 C17 C18 C19 C20; do
  n=$(grep -c '^VIOLATION' /tmp/rg/tp-$name.$p.txt)
  if [ "$n" -gt 0 ]; then echo "== $p: $n"; grep -v '^    \|^VIOLATION\|^KNOWN' /tmp/rg/tp-$name.$p.txt | cut -c1-${W:-420} | head -${H:-6}; fi
done
git -C /repo worktree remove --force "$wt"; rm -rf "$sv"
echo "== done $name"
