#!/bin/sh
# usage: dump.sh <worktree-name|repo> <func>  - E1 facts reaching every site of the function
. /verif/env.sh >/dev/null 2>&1
repo=/tmp/rg/dbg-$1; [ "$1" = repo ] && repo=/repo
/verif/bin/oidcheck -repo $repo -verif /tmp/rg/sv -dump "$2" 2>&1
