package triage

import (
	"testing"

	"github.com/zitadel/oidc/v3/pkg/op"
)

// F18: WithIssuerFromCustomHeaders rewrites the caller's header slice
func TestF18CustomHeadersSliceUntouched(t *testing.T) {
	headers := []string{"x-forwarded-host", "x-custom-host"}
	fn := op.IssuerFromForwardedOrHost("", op.WithIssuerFromCustomHeaders(headers...))
	if _, err := fn(false); err != nil {
		t.Fatal(err)
	}
	if headers[0] != "x-forwarded-host" || headers[1] != "x-custom-host" {
		t.Fatalf("caller's slice was modified: %v", headers)
	}
}
