package triage

import (
	"encoding/json"
	"testing"

	"github.com/zitadel/oidc/v3/pkg/oidc"
)

// F17: the JSON document null handed to DeviceAuthorizationResponse's decoder
func TestF17DeviceAuthorizationResponseNull(t *testing.T) {
	defer func() {
		if r := recover(); r != nil {
			t.Logf("PANIC: %v", r)
			t.Fail()
		}
	}()
	var r oidc.DeviceAuthorizationResponse
	err := json.Unmarshal([]byte("null"), &r)
	t.Logf("err=%v", err)
	var wrap struct {
		R oidc.DeviceAuthorizationResponse `json:"r"`
	}
	err = json.Unmarshal([]byte(`{"r":null}`), &wrap)
	t.Logf("nested err=%v", err)
}
