package triage

import (
	"errors"
	"net/http/httptest"
	"log/slog"
	"testing"

	"github.com/zitadel/oidc/v3/example/server/storage"
	"github.com/zitadel/oidc/v3/pkg/oidc"
	"github.com/zitadel/oidc/v3/pkg/op"
	httphelper "github.com/zitadel/oidc/v3/pkg/http"
	"context"
)

type globClient struct{ *storage.Client }

func (globClient) RedirectURIGlobs() []string           { return []string{"https://rp.example/[cb"} }
func (globClient) PostLogoutRedirectURIGlobs() []string { return nil }

type fakeAuthorizer struct{ op.Authorizer }

func (fakeAuthorizer) Logger() *slog.Logger { return slog.Default() }
func (fakeAuthorizer) Encoder() httphelper.Encoder { return oidc.NewEncoder() }

func TestBadGlob(t *testing.T) {
	c := globClient{storage.WebClient("globclient", "s", "https://rp.example/cb")}
	err := op.ValidateAuthReqRedirectURI(c, "https://evil.example/cb", oidc.ResponseTypeCode)
	var oe *oidc.Error
	t.Logf("err=%v isOIDC=%v redirectDisabled=%v", err, errors.As(err, &oe), oe != nil && oe.IsRedirectDisabled())
	ar := &oidc.AuthRequest{ClientID: "globclient", RedirectURI: "https://evil.example/cb", ResponseType: oidc.ResponseTypeCode, State: "s"}
	_, verr := op.ValidateAuthRequestClient(context.Background(), ar, c, nil)
	rec := httptest.NewRecorder()
	op.AuthRequestError(rec, httptest.NewRequest("GET", "/auth", nil), ar, verr, fakeAuthorizer{})
	t.Logf("status=%d location=%q", rec.Code, rec.Header().Get("Location"))
}
