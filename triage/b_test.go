package triage

import (
	"context"
	"runtime/debug"
	"io"
	"log/slog"
	"net/http"
	"net/http/httptest"
	"net/url"
	"strings"
	"testing"

	"github.com/zitadel/oidc/v3/example/server/exampleop"
	"github.com/zitadel/oidc/v3/example/server/storage"
	"github.com/zitadel/oidc/v3/pkg/oidc"
)

type dh struct{ http.Handler }

func setup(t *testing.T, wrap bool) (*httptest.Server, *storage.Storage) {
	st := storage.NewStorage(storage.NewUserStore("http://local-site"))
	var d dh
	srv := httptest.NewServer(http.HandlerFunc(func(w http.ResponseWriter, r *http.Request) {
		defer func() {
			if rec := recover(); rec != nil {
				t.Logf("HANDLER PANIC: %v\n%s", rec, debug.Stack())
				w.WriteHeader(599)
			}
		}()
		d.Handler.ServeHTTP(w, r)
	}))
	logger := slog.New(slog.NewTextHandler(io.Discard, nil))
	d.Handler = exampleop.SetupServer(srv.URL, st, logger, wrap)
	return srv, st
}

func noRedirect() *http.Client {
	return &http.Client{CheckRedirect: func(*http.Request, []*http.Request) error { return http.ErrUseLastResponse }}
}

// obtain a code for client cid with redirect ru
func getCode(t *testing.T, srv *httptest.Server, st *storage.Storage, cid, ru string, extra url.Values) string {
	ar := &oidc.AuthRequest{ClientID: cid, RedirectURI: ru, ResponseType: oidc.ResponseTypeCode, Scopes: []string{"openid", "offline_access"}, State: "st"}
	if extra != nil {
		ar.CodeChallenge = extra.Get("code_challenge")
		ar.CodeChallengeMethod = oidc.CodeChallengeMethod(extra.Get("code_challenge_method"))
	}
	req, err := st.CreateAuthRequest(context.Background(), ar, "")
	if err != nil {
		t.Fatal(err)
	}
	if err := st.CheckUsernamePassword("test-user@local-site", "verysecure", req.GetID()); err != nil {
		t.Fatal(err)
	}
	resp, err := noRedirect().Get(srv.URL + "/auth/callback?id=" + req.GetID())
	if err != nil {
		t.Fatal(err)
	}
	loc, _ := resp.Location()
	if loc == nil {
		b, _ := io.ReadAll(resp.Body)
		t.Fatalf("no redirect: %d %s", resp.StatusCode, b)
	}
	return loc.Query().Get("code")
}

func post(t *testing.T, u string, form url.Values, user, pass string, rawAuth string) (int, string) {
	r, _ := http.NewRequest("POST", u, strings.NewReader(form.Encode()))
	r.Header.Set("Content-Type", "application/x-www-form-urlencoded")
	if user != "" {
		r.SetBasicAuth(user, pass)
	}
	if rawAuth != "" {
		r.Header.Set("Authorization", rawAuth)
	}
	resp, err := http.DefaultClient.Do(r)
	if err != nil {
		t.Fatal(err)
	}
	b, _ := io.ReadAll(resp.Body)
	return resp.StatusCode, string(b)
}

func TestFlows(t *testing.T) {
	for _, wrap := range []bool{false, true} {
		t.Logf("======== wrap=%v", wrap)
		srv, st := setup(t, wrap)
		a := storage.WebClient("clientA", "secretA", "http://rp-a/cb")
		b := storage.WebClient("clientB", "secretB", "http://rp-b/cb")
		storage.RegisterClients(a, b)

		// cross-client redemption
		code := getCode(t, srv, st, "clientA", "http://rp-a/cb", nil)
		s, body := post(t, srv.URL+"/oauth/token", url.Values{"grant_type": {"authorization_code"}, "code": {code}, "redirect_uri": {"http://rp-a/cb"}}, "clientB", "secretB", "")
		t.Logf("cross-client redeem: %d %.120s", s, body)

		// PKCE downgrade: confidential client, challenge present, no verifier
		code = getCode(t, srv, st, "clientA", "http://rp-a/cb", url.Values{"code_challenge": {oidc.NewSHACodeChallenge("verifier-verifier-verifier-verifier-verifier")}, "code_challenge_method": {"S256"}})
		s, body = post(t, srv.URL+"/oauth/token", url.Values{"grant_type": {"authorization_code"}, "code": {code}, "redirect_uri": {"http://rp-a/cb"}}, "clientA", "secretA", "")
		t.Logf("pkce omitted verifier: %d %.120s", s, body)

		// own client, get tokens
		code = getCode(t, srv, st, "clientA", "http://rp-a/cb", nil)
		s, body = post(t, srv.URL+"/oauth/token", url.Values{"grant_type": {"authorization_code"}, "code": {code}, "redirect_uri": {"http://rp-a/cb"}}, "clientA", "secretA", "")
		t.Logf("own redeem: %d %.80s", s, body)
		var at string
		if i := strings.Index(body, `"access_token":"`); i >= 0 {
			rest := body[i+len(`"access_token":"`):]
			at = rest[:strings.Index(rest, `"`)]
		}
		// replay
		s2, body2 := post(t, srv.URL+"/oauth/token", url.Values{"grant_type": {"authorization_code"}, "code": {code}, "redirect_uri": {"http://rp-a/cb"}}, "clientA", "secretA", "")
		t.Logf("replay: %d %.80s", s2, body2)

		// malformed basic auth on each grant
		for _, gt := range []string{"authorization_code", "refresh_token", "client_credentials", "urn:ietf:params:oauth:grant-type:token-exchange", "urn:ietf:params:oauth:grant-type:jwt-bearer"} {
			r, _ := http.NewRequest("POST", srv.URL+"/oauth/token", strings.NewReader(url.Values{"grant_type": {gt}}.Encode()))
			r.Header.Set("Content-Type", "application/x-www-form-urlencoded")
			r.SetBasicAuth("%zz", "%zz")
			resp, _ := http.DefaultClient.Do(r)
			bb, _ := io.ReadAll(resp.Body)
			t.Logf("bad basic %s: %d %.100s", gt, resp.StatusCode, bb)
		}
		// jwt-bearer: bad form (invalid percent in body)
		r, _ := http.NewRequest("POST", srv.URL+"/oauth/token?grant_type=urn:ietf:params:oauth:grant-type:jwt-bearer", strings.NewReader("a=%zz"))
		r.Header.Set("Content-Type", "application/x-www-form-urlencoded")
		resp, _ := http.DefaultClient.Do(r)
		bb, _ := io.ReadAll(resp.Body)
		t.Logf("bad body jwt-bearer: %d %.100s", resp.StatusCode, bb)

		// token exchange with opaque access token as subject
		s, body = post(t, srv.URL+"/oauth/token", url.Values{"grant_type": {"urn:ietf:params:oauth:grant-type:token-exchange"}, "subject_token": {at}, "subject_token_type": {string(oidc.AccessTokenType)}}, "clientA", "secretA", "")
		t.Logf("TE opaque: %d %.100s", s, body)
		s, body = post(t, srv.URL+"/oauth/token", url.Values{"grant_type": {"urn:ietf:params:oauth:grant-type:token-exchange"}, "subject_token": {at}, "subject_token_type": {string(oidc.AccessTokenType)}, "requested_token_type": {string(oidc.JWTTokenType)}}, "clientA", "secretA", "")
		t.Logf("TE requested jwt: %d %.200s", s, body)
		srv.Close()
	}
}
