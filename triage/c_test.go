package triage

import (
	"context"
	"crypto/rand"
	"crypto/rsa"
	"encoding/json"
	"net/http"
	"net/http/httptest"
	"net/url"
	"sync"
	"testing"
	"time"

	jose "github.com/go-jose/go-jose/v4"
	"github.com/zitadel/oidc/v3/example/server/storage"
	"github.com/zitadel/oidc/v3/pkg/client/rp"
	"github.com/zitadel/oidc/v3/pkg/oidc"
)

func TestTEGrant(t *testing.T) {
	for _, wrap := range []bool{false, true} {
		srv, st := setup(t, wrap)
		a := storage.WebClient("clientA2", "secretA", "http://rp-a/cb")
		d := storage.DeviceClient("devclient", "devsecret") // only device_code grant
		storage.RegisterClients(a, d)
		code := getCode(t, srv, st, "clientA2", "http://rp-a/cb", nil)
		_, body := post(t, srv.URL+"/oauth/token", url.Values{"grant_type": {"authorization_code"}, "code": {code}, "redirect_uri": {"http://rp-a/cb"}}, "clientA2", "secretA", "")
		var tr oidc.AccessTokenResponse
		json.Unmarshal([]byte(body), &tr)
		s, body := post(t, srv.URL+"/oauth/token", url.Values{"grant_type": {"urn:ietf:params:oauth:grant-type:token-exchange"}, "subject_token": {tr.RefreshToken}, "subject_token_type": {string(oidc.RefreshTokenType)}}, "devclient", "devsecret", "")
		t.Logf("wrap=%v TE by client without TE grant: %d %.150s", wrap, s, body)
		s, body = post(t, srv.URL+"/oauth/token", url.Values{"grant_type": {"urn:ietf:params:oauth:grant-type:token-exchange"}, "subject_token": {tr.RefreshToken}, "subject_token_type": {string(oidc.RefreshTokenType)}, "requested_token_type": {string(oidc.JWTTokenType)}}, "clientA2", "secretA", "")
		t.Logf("wrap=%v TE requested jwt: %d %.250s", wrap, s, body)
		srv.Close()
	}
}

func TestJWKSCancel(t *testing.T) {
	key, _ := rsa.GenerateKey(rand.Reader, 2048)
	jwk := jose.JSONWebKey{Key: &key.PublicKey, KeyID: "k1", Use: "sig", Algorithm: "RS256"}
	release := make(chan struct{})
	srv := httptest.NewServer(http.HandlerFunc(func(w http.ResponseWriter, r *http.Request) {
		select {
		case <-release:
		case <-r.Context().Done():
			return
		}
		json.NewEncoder(w).Encode(jose.JSONWebKeySet{Keys: []jose.JSONWebKey{jwk}})
	}))
	defer srv.Close()
	ks := rp.NewRemoteKeySet(http.DefaultClient, srv.URL)
	signer, _ := jose.NewSigner(jose.SigningKey{Algorithm: jose.RS256, Key: jose.JSONWebKey{Key: key, KeyID: "k1"}}, nil)
	obj, _ := signer.Sign([]byte(`{"a":1}`))
	ser, _ := obj.CompactSerialize()
	jws, _ := jose.ParseSigned(ser, []jose.SignatureAlgorithm{jose.RS256})

	ctx1, cancel1 := context.WithCancel(context.Background())
	var wg sync.WaitGroup
	var err1, err2 error
	wg.Add(2)
	go func() { defer wg.Done(); _, err1 = ks.VerifySignature(ctx1, jws) }()
	time.Sleep(100 * time.Millisecond)
	go func() { defer wg.Done(); _, err2 = ks.VerifySignature(context.Background(), jws) }()
	time.Sleep(100 * time.Millisecond)
	cancel1()
	time.Sleep(100 * time.Millisecond)
	close(release)
	wg.Wait()
	t.Logf("caller1 (cancelled): %v", err1)
	t.Logf("caller2 (live ctx): %v", err2)
}
