package triage

import (
	"context"
	"encoding/base64"
	"encoding/json"
	"fmt"
	"net/http"
	"net/http/httptest"
	"net/url"
	"strings"
	"testing"

	"github.com/zitadel/oidc/v3/pkg/client"
	"github.com/zitadel/oidc/v3/pkg/client/rp"
	httphelper "github.com/zitadel/oidc/v3/pkg/http"
	"github.com/zitadel/oidc/v3/pkg/oidc"
	"github.com/zitadel/oidc/v3/pkg/op"
)

func try(t *testing.T, name string, f func()) {
	defer func() {
		if r := recover(); r != nil {
			t.Logf("PANIC[%s]: %v", name, r)
		}
	}()
	f()
	t.Logf("no panic [%s]", name)
}

func b64(s string) string { return base64.RawURLEncoding.EncodeToString([]byte(s)) }

func TestNullPayload(t *testing.T) {
	tok := b64(`{"alg":"RS256"}`) + "." + b64("null") + "." + b64("sig")
	try(t, "rp.VerifyIDToken", func() {
		v := rp.NewIDTokenVerifier("iss", "cid", nil)
		_, err := rp.VerifyIDToken[*oidc.IDTokenClaims](context.Background(), tok, v)
		t.Log(err)
	})
	try(t, "op.VerifyAccessToken", func() {
		v := op.NewAccessTokenVerifier("iss", nil)
		_, err := op.VerifyAccessToken[*oidc.AccessTokenClaims](context.Background(), tok, v)
		t.Log(err)
	})
	try(t, "op.VerifyIDTokenHint", func() {
		v := op.NewIDTokenHintVerifier("iss", nil)
		_, err := op.VerifyIDTokenHint[*oidc.IDTokenClaims](context.Background(), tok, v)
		t.Log(err)
	})
}

func TestAudience(t *testing.T) {
	try(t, "aud non-string", func() {
		var c oidc.IDTokenClaims
		err := json.Unmarshal([]byte(`{"aud":[1,2]}`), &c)
		t.Log(err)
	})
	try(t, "aud object", func() {
		var c oidc.IDTokenClaims
		err := json.Unmarshal([]byte(`{"aud":{"a":1}}`), &c)
		t.Log(err, c.Audience)
	})
}

func TestDiscoverNull(t *testing.T) {
	srv := httptest.NewServer(http.HandlerFunc(func(w http.ResponseWriter, r *http.Request) { w.Write([]byte("null")) }))
	defer srv.Close()
	try(t, "Discover null", func() {
		_, err := client.Discover(context.Background(), srv.URL, http.DefaultClient)
		t.Log(err)
	})
	try(t, "Userinfo null", func() {
		var rpp any
		_ = rpp
	})
}

func TestFragment(t *testing.T) {
	enc := oidc.NewEncoder()
	resp := struct {
		State string `schema:"state"`
		Code  string `schema:"code"`
	}{State: "a/b=c&d e+f%", Code: "xyz"}
	u, err := op.AuthResponseURL("https://rp.example/cb", oidc.ResponseTypeIDToken, oidc.ResponseModeFragment, &resp, enc)
	t.Log(u, err)
	pu, _ := url.Parse(u)
	t.Log("raw fragment:", pu.EscapedFragment(), "| decoded:", pu.Fragment)
	// user agent: takes raw fragment and parses as form
	i := strings.Index(u, "#")
	vals, err := url.ParseQuery(u[i+1:])
	t.Log("UA-decoded state:", vals.Get("state"), err, "equal:", vals.Get("state") == resp.State)
	u2, _ := op.AuthResponseURL("https://rp.example/cb?x=1", oidc.ResponseTypeCode, oidc.ResponseModeQuery, &resp, enc)
	pu2, _ := url.Parse(u2)
	t.Log(u2, pu2.Query().Get("state") == resp.State, pu2.Query().Get("x"))
}

func TestFormPost(t *testing.T) {
	enc := oidc.NewEncoder()
	resp := struct {
		Code         string `schema:"code"`
		State        string `schema:"state,omitempty"`
		SessionState string `schema:"session_state,omitempty"`
	}{State: `"><script>`, Code: "xyz", SessionState: "sess"}
	for _, ru := range []string{"https://rp.example/cb?x=1", "com.example.app:/cb", `https://rp.example/cb?"><x`} {
		rec := httptest.NewRecorder()
		err := op.AuthResponseFormPost(rec, ru, &resp, enc)
		t.Log(err, rec.Body.String())
	}
}

func TestGlobals(t *testing.T) {
	before := *op.DefaultEndpoints
	t.Log("default auth before:", op.DefaultEndpoints.Authorization.Relative())
	_, err := op.NewProvider(&op.Config{}, nil, op.StaticIssuer("https://x.example"), op.WithCustomAuthEndpoint(op.NewEndpoint("custom/auth")))
	t.Log(err, "default auth after:", op.DefaultEndpoints.Authorization.Relative(), before.Authorization.Relative())

	srv := httptest.NewServer(http.HandlerFunc(func(w http.ResponseWriter, r *http.Request) { w.WriteHeader(200) }))
	defer srv.Close()
	hc := &http.Client{}
	t.Log("CheckRedirect nil before:", hc.CheckRedirect == nil, httphelper.DefaultHTTPClient.CheckRedirect == nil)
	err = client.CallRevokeEndpoint(context.Background(), client.RevokeRequest{Token: "x"}, nil, revCaller{srv.URL, hc})
	t.Log(err, "CheckRedirect nil after:", hc.CheckRedirect == nil)
}

type revCaller struct {
	u string
	c *http.Client
}

func (r revCaller) GetRevokeEndpoint() string { return r.u }
func (r revCaller) HttpClient() *http.Client  { return r.c }

var _ = fmt.Sprint
