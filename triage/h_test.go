package triage

import (
	"context"
	"crypto/rand"
	"crypto/rsa"
	"errors"
	"strings"
	"testing"

	jose "github.com/go-jose/go-jose/v4"

	"github.com/zitadel/oidc/v3/pkg/oidc"
	"github.com/zitadel/oidc/v3/pkg/op"
)

type failingKeyStorage struct{ op.Storage }

func (failingKeyStorage) GetKeyByIDAndClientID(ctx context.Context, keyID, clientID string) (*jose.JSONWebKey, error) {
	return nil, errors.New("key lookup failed for kid a%2Fb (100% sure)")
}

// F19: the error text of a failed request-object signature check is used as a printf format
func TestF19RequestObjectErrorDescriptionIntact(t *testing.T) {
	key, _ := rsa.GenerateKey(rand.Reader, 2048)
	signer, err := jose.NewSigner(jose.SigningKey{Algorithm: jose.RS256, Key: key}, nil)
	if err != nil {
		t.Fatal(err)
	}
	jws, err := signer.Sign([]byte(`{"iss":"client","client_id":"client","aud":["https://issuer"],"response_type":"code"}`))
	if err != nil {
		t.Fatal(err)
	}
	token, _ := jws.CompactSerialize()
	authReq := &oidc.AuthRequest{ClientID: "client", ResponseType: "code", RequestParam: token}
	err = op.ParseRequestObject(context.Background(), authReq, failingKeyStorage{}, "https://issuer")
	if err == nil {
		t.Fatal("expected an error")
	}
	var oe *oidc.Error
	if !errors.As(err, &oe) {
		t.Fatalf("not an oidc.Error: %v", err)
	}
	t.Logf("description: %q", oe.Description)
	if strings.Contains(oe.Description, "MISSING") || strings.Contains(oe.Description, "%!") || !strings.Contains(oe.Description, "a%2Fb (100% sure)") {
		t.Fatalf("error_description was mangled by Sprintf: %q", oe.Description)
	}
}
