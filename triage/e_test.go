package triage

import (
	"net/url"
	"testing"

	"github.com/zitadel/oidc/v3/example/server/storage"
)

func TestDeviceAuthzGrant(t *testing.T) {
	for _, wrap := range []bool{false, true} {
		srv, _ := setup(t, wrap)
		storage.RegisterClients(storage.WebClient("webnodev", "s3", "http://rp/cb"))
		s, body := post(t, srv.URL+"/device_authorization", url.Values{"scope": {"openid"}}, "webnodev", "s3", "")
		t.Logf("wrap=%v device_authorization by client without device grant: %d %.160s", wrap, s, body)
		srv.Close()
	}
}
