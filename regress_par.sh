#!/bin/sh
# usage: regress_par.sh <seeded|refactorings> [name...]   (parallel; /repo itself is never touched)
# For every change directory: scratch worktree of /repo HEAD under /tmp/rg, apply patch.diff, run all 20 quick
# checks against it with a scratch -verif directory (evidence of these runs is thrown away), remove the worktree.
# Prints "<name>: C04:1 C09:2" or "<name>: MISSED" (seeded) / "<name>: quiet" (refactorings).
cd "$(dirname "$0")"
. ./env.sh
kind="$1"; shift
names="$*"
[ -z "$names" ] && names=$(ls $kind)
[ -x bin/oidcheck ] || ./setup.sh >/dev/null
mkdir -p /tmp/rg
for n in $names; do echo $n; done | xargs -P ${PAR:-10} -I{} sh -c "$(cat <<'INNER'
kind="$0"; name="$1"; V=/verif
. $V/env.sh
wt=/tmp/rg/wt-$name; sv=/tmp/rg/v-$name
rm -rf "$wt" "$sv" /tmp/rg/$name.C*.txt
git -C /repo worktree add --detach "$wt" HEAD >/dev/null 2>&1 || { echo "$name: worktree failed"; exit 0; }
if ! git -C "$wt" apply "$V/$kind/$name/patch.diff" 2>/dev/null; then
  echo "$name: patch does not apply"; git -C /repo worktree remove --force "$wt"; exit 0
fi
mkdir -p "$sv/evidence" "$sv/replay"; ln -s $V/known_findings.json "$sv/known_findings.json"; ln -s $V/checker "$sv/checker"
hits=""
props="C01 C02 C03 C04 C05 C06 C07 C08 C09 C10 C11 C12 C13 C14 C15 C16 C17 C18 C19 C20"
# OWNPROP=1 (seeded only): run just the check of the property the seed was written for (the name starts with its id)
[ -n "$OWNPROP" ] && [ "$kind" = seeded ] && props=$(echo $name | cut -c1-3)
for p in $props; do
  out=$($V/bin/oidcheck -repo "$wt" -verif "$sv" -prop $p -tier quick 2>&1)
  n=$(printf '%s\n' "$out" | grep -c '^VIOLATION')
  if [ "$n" -gt 0 ]; then hits="$hits $p:$n"; printf '%s\n' "$out" | grep -v '^    \|^VIOLATION\|^KNOWN' | cut -c1-400 | head -8 > /tmp/rg/$name.$p.txt; fi
done
git -C /repo worktree remove --force "$wt"; rm -rf "$sv"
if [ "$kind" = seeded ]; then echo "$name:${hits:- MISSED}"; else echo "$name:${hits:- quiet}"; fi
INNER
)" "$kind" {}
