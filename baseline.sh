#!/bin/sh
# Runs the repository's own test suite with the verif guard OFF (no build tag is ever set by the checks:
# the static checks need no hooks in /repo).  Network-dependent tests fail offline as they do in BASELINE.json.
cd /repo
export PATH=/opt/veriftools/go1.26.8/bin:$PATH GOTOOLCHAIN=local GOFLAGS=-mod=mod GOPROXY=off GOWORK=off
exec go test -json -vet=off -count=1 -timeout 25m ./...
