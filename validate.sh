#!/bin/sh
# validates MANIFEST.json and every evidence file against the harness schemas
cd "$(dirname "$0")"
python3-vt - <<'P'
import json,jsonschema,glob
jsonschema.validate(json.load(open('MANIFEST.json')), json.load(open('/root/.vp/MANIFEST.schema.json'))); print('manifest ok')
es=json.load(open('/root/.vp/EVIDENCE.schema.json'))
for f in sorted(glob.glob('evidence/*.json')):
    jsonschema.validate(json.load(open(f)), es); print(f,'ok')
P
