#!/bin/sh
# Applies every seeded change in turn to /repo, runs all 20 quick checks, reverts; prints which properties report it.
cd "$(dirname "$0")"
for d in seeded/*/; do
  name=$(basename $d)
  git -C /repo apply "$(pwd)/$d/patch.diff" 2>/dev/null || { echo "$name: patch does not apply"; continue; }
  hits=""
  for p in C01 C02 C03 C04 C05 C06 C07 C08 C09 C10 C11 C12 C13 C14 C15 C16 C17 C18 C19 C20; do
    n=$(./run.sh $p quick 2>&1 | grep -c '^VIOLATION')
    [ "$n" -gt 0 ] && hits="$hits $p:$n"
  done
  git -C /repo checkout -- . >/dev/null 2>&1
  echo "$name:${hits:- MISSED}"
done
