#!/bin/sh
# usage: run.sh <property-id> <quick|thorough>
# Decides one property on /repo's current working tree by static analysis; exit 0 / 1 per MANIFEST contract.
cd "$(dirname "$0")"
. ./env.sh
id="$1"; tier="${2:-${VERIF_TIER:-quick}}"
if [ ! -x bin/oidcheck ] || [ -n "$(find checker -newer bin/oidcheck -name '*.go' 2>/dev/null | head -1)" ]; then
  ./setup.sh >/dev/null || { echo "VIOLATION property=$id replay=/verif/replay/$id-build.json"; echo "checker build failed"; exit 1; }
fi
exec bin/oidcheck -repo "${VERIF_REPO:-/repo}" -verif "$(pwd)" -prop "$id" -tier "$tier"
