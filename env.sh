# sourced by setup.sh and run.sh: offline Go environment that can load /repo (go.mod needs >= 1.23.7)
export PATH=/opt/veriftools/go1.26.8/bin:$PATH
export GOTOOLCHAIN=local GOFLAGS=-mod=mod GOPROXY=off GOSUMDB=off GOWORK=off
export CARGO_NET_OFFLINE=true PIP_NO_INDEX=1
