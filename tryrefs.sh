#!/bin/sh
# usage: tryrefs.sh name...  - run trypatch on kept refactorings sequentially, summary only
for n in "$@"; do W=${W:-260} H=${H:-4} /verif/trypatch.sh /verif/refactorings/$n/patch.diff $n | grep -v '^C[0-9][0-9] quick'; done
