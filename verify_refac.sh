#!/bin/sh
# usage: verify_refac.sh [names...]  - for every refactoring patch: scratch worktree, apply, full test suite; the only failing tests may be the
# offline network tests of the baseline. Writes refactorings/<name>/suite.txt ("suite=baseline" or the unexpected failures).
cd "$(dirname "$0")"; . ./env.sh
names="$*"; [ -z "$names" ] && names=$(ls refactorings)
mkdir -p /tmp/rg
for n in $names; do
  [ -f refactorings/$n/suite.txt ] && grep -q "suite=baseline" refactorings/$n/suite.txt && continue
  wt=/tmp/rg/suite-$n; rm -rf $wt; git -C /repo worktree prune
  git -C /repo worktree add --detach $wt HEAD >/dev/null 2>&1 || continue
  if git -C $wt apply /verif/refactorings/$n/patch.diff 2>/dev/null; then
    (cd $wt && go test -vet=off -count=1 ./... > /tmp/rg/suite-$n.log 2>&1)
    bad=$(grep -E '^--- FAIL' /tmp/rg/suite-$n.log | grep -v 'TestDiscover\|TestNewResourceServer\|TestIntrospect' | head -5)
    build=$(grep -E '^FAIL.*\[build failed\]|cannot|undefined' /tmp/rg/suite-$n.log | head -3)
    if [ -z "$bad" ] && [ -z "$build" ]; then echo "suite=baseline (only the offline network tests fail)" > refactorings/$n/suite.txt; echo "$n: suite=baseline"; else printf 'UNEXPECTED:\n%s\n%s\n' "$bad" "$build" > refactorings/$n/suite.txt; echo "$n: UNEXPECTED $bad $build"; fi
  else echo "$n: patch does not apply"; fi
  git -C /repo worktree remove --force $wt
done
