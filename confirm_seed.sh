#!/bin/sh
# usage: confirm_seed.sh <worktree> <seed-name> <property> <demo go-test package> <demo -run regexp>
# Confirms a seeded change in its scratch worktree: demo fails with the patch, passes without; build + full suite as baseline with it.
wt="$1"; name="$2"; prop="$3"; pkg="$4"; run="$5"
. /verif/env.sh
cd "$wt" || exit 2
log=/tmp/seed/confirm-$name.log
: > $log
patch="$wt/SEED/patch.diff"
# make sure the patch is applied
git apply -R --check "$patch" 2>/dev/null || git apply "$patch" || { echo "cannot apply patch" | tee -a $log; exit 2; }
go build ./... >>$log 2>&1 || { echo "BUILD FAILS with patch" | tee -a $log; exit 1; }
if go test -vet=off -count=1 -run "$run" "$pkg" >>$log 2>&1; then with=pass; else with=fail; fi
git apply -R "$patch"
if go test -vet=off -count=1 -run "$run" "$pkg" >>$log 2>&1; then without=pass; else without=fail; fi
git apply "$patch"
# full suite with the patch, demo files moved aside
mkdir -p /tmp/seed/aside-$name
for f in $(git status --porcelain | grep '^??' | awk '{print $2}' | grep '_test.go$'); do mv "$f" /tmp/seed/aside-$name/$(echo $f | tr / _); echo "$f" >> /tmp/seed/aside-$name/LIST; done
go test -vet=off -count=1 ./... > /tmp/seed/suite-$name.log 2>&1
fails=$(grep -E '^(--- FAIL|FAIL)' /tmp/seed/suite-$name.log | grep -v 'TestDiscover\|TestNewResourceServer\|TestIntrospect\|pkg/client\s\|pkg/client/rs\|^FAIL$' | grep -v 'SEED' | head -5)
# put demo files back
if [ -f /tmp/seed/aside-$name/LIST ]; then while read f; do mv /tmp/seed/aside-$name/$(echo $f | tr / _) "$f"; done < /tmp/seed/aside-$name/LIST; fi
echo "seed=$name property=$prop demo_with_patch=$with demo_without_patch=$without unexpected_suite_failures=[$fails]" | tee -a $log
