#!/bin/sh
# Build the checker from files on disk only (offline).
set -e
cd "$(dirname "$0")"
. ./env.sh
mkdir -p bin evidence replay
(cd checker && go build -o ../bin/oidcheck .)
echo "built bin/oidcheck"
