#!/bin/sh
# runs the thorough tier of every property sequentially (each uses up to 10 child processes) and prints the mutant statistics
cd "$(dirname "$0")"; ./setup.sh >/dev/null
for p in C01 C02 C03 C04 C05 C06 C07 C08 C09 C10 C11 C12 C13 C14 C15 C16 C17 C18 C19 C20; do
  start=$(date +%s)
  ./run.sh $p thorough > /tmp/thorough_$p.log 2>&1; rc=$?
  python3 - "$p" "$rc" "$start" <<'P'
import json,sys,time
p,rc,start=sys.argv[1],sys.argv[2],int(sys.argv[3])
try:
    e=json.load(open('evidence/%s.json'%p))
    x=e.get('extra',e)
    def g(k):
        for d in (e,e.get('coverage',{}),e.get('extra',{}) if isinstance(e.get('extra'),dict) else {}):
            if isinstance(d,dict) and k in d: return d[k]
        return None
    print(p,'rc',rc,'mutants',g('mutants_generated'),g('mutants_compilable'),g('mutants_killed'),'wall',int(time.time())-start,'s')
except Exception as ex:
    print(p,'rc',rc,'evidence unreadable',ex)
P
done
