#!/bin/sh
# usage: seedtest.sh <patch.diff> [props...]  - applies a seeded change to /repo, runs the quick checks, reverts.
cd "$(dirname "$0")"
patch="$1"; shift
props="$*"
[ -z "$props" ] && props="C01 C02 C03 C04 C05 C06 C07 C08 C09 C10 C11 C12 C13 C14 C15 C16 C17 C18 C19 C20"
git -C /repo apply "$patch" || { echo "patch does not apply"; exit 2; }
trap 'git -C /repo checkout -- . >/dev/null 2>&1' EXIT
for p in $props; do
  out=$(./run.sh $p quick 2>&1)
  n=$(printf '%s\n' "$out" | grep -c '^VIOLATION')
  if [ "$n" -gt 0 ]; then
    echo "== $p: $n violation(s)"
    printf '%s\n' "$out" | grep -v '^    \|^VIOLATION\|^KNOWN' | cut -c1-420 | head -6
  fi
done
echo "== done"
