#!/usr/bin/env python3
"""usage: keep_seed.py <worktree> <name> <property> <demo-pkg> <demo-run> <needs> <summary> <detected-by or ''> 
Copies patch.diff + demonstration from a confirmed scratch worktree into /verif/seeded/<name>/ and writes meta.json."""
import sys, os, shutil, json, glob, re
wt, name, prop, pkg, run, needs, summary, detected = sys.argv[1:9]
dst = '/verif/seeded/' + name
os.makedirs(dst, exist_ok=True)
seed = os.path.join(wt, 'SEED')
for f in os.listdir(seed):
    if f in ('go.mod',):
        continue
    p = os.path.join(seed, f)
    if os.path.isfile(p):
        shutil.copy(p, os.path.join(dst, f if not f.endswith('_test.go') else f + '.txt'))
import subprocess
out = subprocess.run(['git', '-C', wt, 'status', '--porcelain'], capture_output=True, text=True).stdout
for l in out.splitlines():
    if l.startswith('??') and l.strip().endswith('_test.go'):
        f = l[3:].strip()
        shutil.copy(os.path.join(wt, f), os.path.join(dst, os.path.basename(f) + '.txt'))
log = ''
for cand in (name, os.path.basename(wt.rstrip('/'))):
    p = '/tmp/seed/confirm-%s.log' % cand
    if os.path.exists(p):
        ls = [l for l in open(p).read().splitlines() if l.startswith('seed=')]
        if ls:
            log = ls[-1]
            break
meta = {
 'property': prop,
 'summary': summary,
 'needs_to_manifest': needs,
 'demonstration': {'package': pkg, 'run': run, 'note': 'demo *_test.go files are stored with a .txt suffix so that they are never compiled from /verif; see demo.md for their place in the tree'},
 'confirmed': log,
 'what_i_ran': [
   'scratch worktree of /repo HEAD under /tmp/seed (removed afterwards); go build ./... with the patch',
   'go test -vet=off -count=1 -run %s %s  -> fails with the patch, passes with the patch reverted' % (run, pkg),
   'go test -vet=off -count=1 ./...  with the patch: only the 7 offline network tests fail (baseline)',
   'git -C /repo apply patch.diff; ./run.sh <all 20> quick; git -C /repo checkout -- .',
 ],
 'detected_by': [d for d in detected.split(';') if d],
}
json.dump(meta, open(os.path.join(dst, 'meta.json'), 'w'), indent=1)
print('kept', dst, os.listdir(dst))
