#!/bin/sh
# usage: quick_all.sh [repo]  - all 20 quick checks in parallel on /repo (or the given tree) with scratch evidence dirs; prints one summary line each
. /verif/env.sh >/dev/null 2>&1
repo=${1:-/repo}
mkdir -p /tmp/rg/qa
for i in 01 02 03 04 05 06 07 08 09 10 11 12 13 14 15 16 17 18 19 20; do
  ( mkdir -p /tmp/rg/qa/v$i; ln -sfn /verif/checker /tmp/rg/qa/v$i/checker; ln -sfn /verif/known_findings.json /tmp/rg/qa/v$i/known_findings.json; /verif/bin/oidcheck -repo $repo -verif /tmp/rg/qa/v$i -prop C$i -tier quick > /tmp/rg/qa/C$i.txt 2>&1; echo "exit=$?" >> /tmp/rg/qa/C$i.txt ) &
done
wait
for i in 01 02 03 04 05 06 07 08 09 10 11 12 13 14 15 16 17 18 19 20; do
  printf "%s " "$(grep -c '^VIOLATION' /tmp/rg/qa/C$i.txt)"; grep "^C$i quick" /tmp/rg/qa/C$i.txt | cut -c1-150; grep -q "exit=0" /tmp/rg/qa/C$i.txt || echo "   C$i NONZERO EXIT"
done
