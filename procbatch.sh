#!/bin/sh
# usage: procbatch.sh <suffix> <ids...>  - confirm + check seeds /tmp/seed/wt-<id>-<suffix>, 4 at a time; results in /tmp/seed/proc-<id>-<suffix>.txt
suf=$1; shift
for id in "$@"; do echo $id; done | xargs -P 4 -I{} sh -c '
id={}; suf='"$suf"'; wt=/tmp/seed/wt-$id-$suf
f=$(git -C $wt status --porcelain | grep "^??" | awk "{print \$2}" | grep "_test.go$" | head -1)
pkg=./$(dirname $f)/
up=$(echo $suf | tr a-z A-Z)
/verif/procseed.sh $id-$suf $id $pkg TestSeed$id$up > /tmp/seed/proc-$id-$suf.txt 2>&1
'
