#!/bin/sh
# usage: [E1DEBUG...=..] dbg.sh <worktree-name|repo> <prop>  - run one quick check on /tmp/rg/dbg-<name> (or /repo) with a scratch evidence dir
. /verif/env.sh >/dev/null 2>&1
mkdir -p /tmp/rg/sv
repo=/tmp/rg/dbg-$1; [ "$1" = repo ] && repo=/repo
/verif/bin/oidcheck -repo $repo -verif /tmp/rg/sv -prop $2 -tier quick 2>&1 | grep -v "^goroutine\|runtime\.\|^\s*/opt\|^\s*/verif/checker.*+0x"
